"""Drive the real pyecore (from /repo) with a case of the shared description
language (DESIGN.md appendix A) and observe it through the public API only.

case = {'mm': {...}, 'objs': [class names], 'nres': n, 'strings': [...], 'history': [op,...]}
value  v := None | ['o',id] | ['i',int] | ['s',string-index] | ['b',0/1] | ['f',halves] | ['e',enum-index,lit-index]
Observation tokens are the same integers the Coq model emits (Model/Kernel.v, obs_*)."""
from harness import common

NONE_TOK = -99999
EXN = {'KeyError': 1, 'IndexError': 2, 'ValueError': 3, 'BadValueError': 4, 'AttributeError': 5,
       'TypeError': 6, 'NotImplementedError': 7}
KINDS = {'ADD': 0, 'ADD_MANY': 1, 'MOVE': 2, 'REMOVE': 3, 'REMOVE_MANY': 4, 'SET': 5, 'UNSET': 6}
DTYPES = ['EInt', 'EString', 'EBoolean', 'EDouble', 'EJavaObject']


def exn_code(e):
    for c in type(e).__mro__:
        if c.__name__ in EXN:
            return EXN[c.__name__]
    return 9


class World:
    def __init__(self, case, observers=True):
        common.use_repo()
        from pyecore import ecore as E
        from pyecore.resources import ResourceSet, URI
        from pyecore.resources.resource import Resource
        from pyecore.notification import EObserver
        self.E = E
        self.case = case
        mm = case['mm']
        self.strings = case.get('strings', [])
        self.render = case.get('render', 'dynamic')
        if self.render != 'dynamic':
            self._init_static(case, mm, observers, E, ResourceSet, URI, EObserver)
            return
        self.enums = []
        for en in mm.get('enums', []):
            self.enums.append(E.EEnum(en['name'], literals=list(en['literals'])))
        self.classes = {}
        self.feats = []            # global feature list: (class name, fdesc, feature object)
        late_names = set(case.get('late') or [])
        # case['bounded']: many-valued features are declared 0..2 instead of 0..* - pyecore does not enforce upper bounds
        # (validation does, in EMF), so every call must behave exactly as with an unbounded feature
        many_upper = 2 if case.get('bounded') else -1
        self._late = []
        for c in mm['classes']:
            self.classes[c['name']] = E.EClass(c['name'], abstract=c.get('abstract', False))
        for c in mm['classes']:
            for s in c.get('supers', []):
                self.classes[c['name']].eSuperTypes.append(self.classes[s])
        byname = {}
        for c in mm['classes']:
            for fd in c['features']:
                t = fd['type']
                if fd['kind'] == 'attr':
                    if t in DTYPES:
                        et = getattr(E, t)
                    else:
                        et = next(e for e in self.enums if e.name == t)
                    kw = {}
                    if fd.get('default') is not None:
                        kw['default_value'] = self.val(fd['default'])
                    f = E.EAttribute(fd['name'], et, upper=many_upper if fd['many'] else 1,
                                     ordered=fd.get('ordered', True), unique=fd.get('unique', True), **kw)
                else:
                    f = E.EReference(fd['name'], self.classes[t], upper=many_upper if fd['many'] else 1,
                                     ordered=fd.get('ordered', True), unique=fd.get('unique', True),
                                     containment=fd.get('containment', False))
                if fd['name'] in late_names:
                    # a LATE feature (case['late']): created now, attached to its class only right before the first
                    # call that addresses it (World._grow) - i.e. after the classes were instantiated and used.
                    # The model runs the same history on the FINAL metamodel from the start: the metamodel may grow
                    # at run time without the objects that already exist behaving differently.
                    self._late.append((c['name'], fd, f))
                else:
                    self.classes[c['name']].eStructuralFeatures.append(f)
                byname[(c['name'], fd['name'])] = f
                self.feats.append((c['name'], fd, f))
        late_opp = set(case.get('late_opposite') or [])
        self._late_opp = []
        for c in mm['classes']:
            for fd in c['features']:
                if fd.get('opposite'):
                    oc, on = fd['opposite']
                    if fd['name'] in late_opp:
                        # the two ends exist and are READ before they are declared each other's opposite (_grow)
                        self._late_opp.append((byname[(c['name'], fd['name'])], byname[(oc, on)]))
                    else:
                        byname[(c['name'], fd['name'])].eOpposite = byname[(oc, on)]
        for c in mm['classes']:
            for opd in c.get('operations', []):
                self.classes[c['name']].eOperations.append(
                    E.EOperation(opd['name'], params=[E.EParameter(p['name'], eType=E.ENativeType, required=p['required'])
                                                     for p in opd['params']]))
        self.fid = {id(f): i for i, (_, _, f) in enumerate(self.feats)}
        self.pkg = E.EPackage('p', nsURI='http://p', nsPrefix='p')
        self.pkg.eClassifiers.extend(list(self.classes.values()))
        self.pkg.eClassifiers.extend(self.enums)
        if case.get('render_mixed'):
            # static classes (MetaEClass) derived from DYNAMIC EClass instances, for the classes that have supertypes
            from harness import kstatic
            self.classes = kstatic.static_over_dynamic(mm, self.classes)
        self.objs = [self.classes[cn]() for cn in case['objs']]
        self.oid = {id(o): i for i, o in enumerate(self.objs)}
        self.rset = ResourceSet()
        self.res = [self.rset.create_resource(URI(f'/nonexistent/r{i}.xmi')) for i in range(case.get('nres', 0))]
        for r in self.res:
            r.use_uuid = bool(case.get('uuid', False))
        self.rid = {id(r): i for i, r in enumerate(self.res)}
        self.log = []
        if observers:
            for i, o in enumerate(self.objs):
                EObserver(o, notifyChanged=self._mk_obs(('o', i)))
            for i, r in enumerate(self.res):
                ob = EObserver(notifyChanged=self._mk_obs(('r', i)))
                r.listeners.append(ob)
        if self._late_opp:
            for o in self.objs:
                for f in o.eClass.eAllStructuralFeatures():
                    o.eGet(f)
                    getattr(o, f.name)
        if self._late:
            # the classes are USED before they grow: every reflective view is asked once on every object
            for o in self.objs:
                ec = o.eClass
                list(o.eContents), list(o.eAllContents()), dir(o)
                ec.eAllReferences(), ec.eAllAttributes(), ec.eAllStructuralFeatures(), ec.eAllSuperTypes()
                ec.eAllOperations()
                for f in ec.eAllStructuralFeatures():
                    ec.findEStructuralFeature(f.name)

    def _init_static(self, case, mm, observers, E, ResourceSet, URI, EObserver):
        from harness import kstatic
        style = 'meta' if self.render in ('static-meta', 'static-falsy') else 'decorator'
        self.module, pyclasses, nsuri = kstatic.render(mm, style, falsy=(self.render == 'static-falsy'))
        self.enums = [self.module.__dict__[en['name']] for en in mm.get('enums', [])]
        self.classes = pyclasses
        self.feats = []
        for c in mm['classes']:
            for fd in c['features']:
                f = pyclasses[c['name']].eClass.findEStructuralFeature(fd['name'])
                self.feats.append((c['name'], fd, f))
        self.fid = {id(f): i for i, (_, _, f) in enumerate(self.feats)}
        self.pkg = self.module
        self.objs = [self.classes[cn]() for cn in case['objs']]
        self.oid = {id(o): i for i, o in enumerate(self.objs)}
        self.rset = ResourceSet()
        self.res = [self.rset.create_resource(URI(f'/nonexistent/r{i}.xmi')) for i in range(case.get('nres', 0))]
        for r in self.res:
            r.use_uuid = bool(case.get('uuid', False))
        self.rid = {id(r): i for i, r in enumerate(self.res)}
        self.log = []
        if observers:
            for i, o in enumerate(self.objs):
                EObserver(o, notifyChanged=self._mk_obs(('o', i)))
            for i, r in enumerate(self.res):
                ob = EObserver(notifyChanged=self._mk_obs(('r', i)))
                r.listeners.append(ob)

    # ---- values ----
    def val(self, v):
        if v is None:
            return None
        t = v[0]
        if t == 'o':
            return self.objs[v[1]]
        if t == 'i':
            return v[1]
        if t == 's':
            return self.strings[v[1]]
        if t == 'b':
            return bool(v[1])
        if t == 'f':
            return v[1] / 2.0
        if t == 'e':
            return self.enums[v[1]].eLiterals[v[2]]
        if t == 'k':          # a classifier object offered as a VALUE
            if v[1] < 0:
                return self.E.EString
            if v[1] >= 100:       # the Python class of a model class
                c = list(self.classes.values())[v[1] - 100] if isinstance(self.classes, dict) else self.classes[v[1] - 100]
                return c.python_class if isinstance(c, self.E.EClass) else c
            c = list(self.classes.values())[v[1]] if isinstance(self.classes, dict) else self.classes[v[1]]
            return getattr(c, 'eClass', c) if not isinstance(c, self.E.EClass) else c
        raise AssertionError(v)

    def tok(self, x):
        """value -> [tag, payload]"""
        E = self.E
        if x is None:
            return [0, 0]
        if isinstance(x, bool):
            return [4, int(x)]
        if isinstance(x, int):
            return [2, x]
        if isinstance(x, float):
            return [6, int(x * 2)]
        if isinstance(x, str):
            return [3, self.strings.index(x)]
        if isinstance(x, E.EEnumLiteral):
            for ei, en in enumerate(self.enums):
                for li, l in enumerate(en.eLiterals):
                    if l is x:
                        return [5, ei * 100 + li]
        if id(x) in self.oid:
            return [1, self.oid[id(x)]]
        return [7, 0]

    def _mk_obs(self, who):
        def cb(n):
            self.log.append((who, n))
        return cb

    def feat(self, fi):
        return self.feats[fi][2]

    def features_of(self, o):
        """global feature indices applicable to object o, ascending"""
        fs = o.eClass.eAllStructuralFeatures()
        return sorted(self.fid[id(f)] for f in fs)

    # ---- operations ----
    def _grow(self):
        for cn, fd, f in self._late:
            self.classes[cn].eStructuralFeatures.append(f)
        self._late = []
        for f, g in getattr(self, '_late_opp', None) or ():
            f.eOpposite = g
        self._late_opp = []

    def apply(self, op):
        if getattr(self, '_late', None) and (
                op[0] == 'delete'        # delete() writes every reference slot of the object (eIsSet turns true)
                or (op[0] not in ('rappend', 'rremove', 'rextend') and len(op) > 2 and isinstance(op[2], int)
                    and any(self.feats[op[2]][2] is f for _, _, f in self._late))):
            self._grow()
        if getattr(self, '_late_opp', None) and op[0] not in ('rappend', 'rremove', 'rextend', 'read'):
            self._grow()          # before the first call that changes anything
        try:
            return (0, self._apply(op))
        except Exception as e:   # noqa
            return (exn_code(e), None)

    def _coll(self, op):
        if self.case.get('hold'):
            # the collection object is obtained ONCE and kept, as a program holding `files = folder.files` does:
            # every later call of the history goes through that same object
            held = self.__dict__.setdefault('_held', {})
            key = (op[1], op[2])
            if key not in held:
                held[key] = self.objs[op[1]].eGet(self.feat(op[2]).name)
            return held[key]
        return self.objs[op[1]].eGet(self.feat(op[2]).name)

    def _apply(self, op):
        k = op[0]
        if k == 'set':
            o, f, v = self.objs[op[1]], self.feat(op[2]), self.val(op[3])
            how = op[4] if len(op) > 4 else 'attr'
            if how == 'attr':
                setattr(o, f.name, v)
            elif how == 'eset-name':
                o.eSet(f.name, v)
            else:
                o.eSet(f, v)
            return None
        if k == 'unset':
            self.objs[op[1]].eSet(self.feat(op[2]), None)
            return None
        if k == 'del':
            delattr(self.objs[op[1]], self.feat(op[2]).name)
            return None
        if k == 'assign':
            vals = [self.val(v) for v in op[3]]
            how = op[4] if len(op) > 4 else 'list'
            if how == 'gen':
                vals = (x for x in vals)
            elif how == 'tuple':
                vals = tuple(vals)
            setattr(self.objs[op[1]], self.feat(op[2]).name, vals)
            return None
        c = self._coll(op) if k in ('append', 'add', 'extend', 'update', 'iadd', 'insert', 'remove', 'pop',
                                    'clear', 'setitem', 'delitem', 'setslice', 'delslice') else None
        if k == 'append':
            c.append(self.val(op[3]))
            return None
        if k == 'add':
            c.add(self.val(op[3]))
            return None
        alias = len(op) > 4 and op[4] == 'alias'     # the argument is the collection itself
        live = self.objs[op[5]].eGet(self.feat(op[2]).name) if (len(op) > 5 and op[4] == 'from') else None
        if k in ('extend', 'update'):
            getattr(c, k)(c if alias else (live if live is not None else [self.val(v) for v in op[3]]))
            return None
        if k == 'iadd':
            if alias:
                c += c
            elif live is not None:
                c += live
            else:
                c += [self.val(v) for v in op[3]]
            return None
        if k == 'insert':
            c.insert(op[3], self.val(op[4]))
            return None
        if k == 'remove':
            c.remove(self.val(op[3]))
            return None
        if k == 'pop':
            r = c.pop() if op[3] is None else c.pop(op[3])
            return self.tok(r)
        if k == 'clear':
            c.clear()
            return None
        if k == 'setitem':
            c[op[3]] = self.val(op[4])
            return None
        if k == 'delitem':
            del c[op[3]]
            return None
        if k == 'setslice':
            c[op[3]:op[4]] = [self.val(v) for v in op[5]]
            return None
        if k == 'delslice':
            del c[op[3]:op[4]]
            return None
        if k == 'delete':
            self.objs[op[1]].delete(recursive=bool(op[2]))
            return None
        if k == 'rappend':
            self.res[op[1]].append(self.objs[op[2]])
            return None
        if k == 'rremove':
            self.res[op[1]].remove(self.objs[op[2]])
            return None
        if k == 'rextend':
            self.res[op[1]].extend([self.objs[i] for i in op[2]])
            return None
        if k == 'read':
            o, f = self.objs[op[1]], self.feat(op[2])
            how = op[3] if len(op) > 3 else 'attr'
            r = getattr(o, f.name) if how == 'attr' else (o.eGet(f.name) if how == 'eget-name' else o.eGet(f))
            return None
        raise AssertionError(op)

    # ---- observation (public API only) ----
    def values(self, o, fi):
        f = self.feat(fi)
        v = o.eGet(f)
        if f.many:
            return [self.tok(x) for x in v]
        return [self.tok(v)]

    def dump(self):
        """structured observation of the whole world"""
        d = {'objs': [], 'res': []}
        for i, o in enumerate(self.objs):
            od = {'feats': {}, 'isset': {}}
            bad_index = []
            for fi in self.features_of(o):
                od['feats'][fi] = self.values(o, fi)
                od['isset'][fi] = 1 if o.eIsSet(self.feat(fi)) else 0
                if bool(o.eIsSet(self.feat(fi).name)) != bool(od['isset'][fi]):
                    od['isset'][fi] += 10          # eIsSet by name disagrees with eIsSet by feature object
                f = self.feat(fi)
                if f.many and f.unique:
                    # the position map of a unique collection (what index() answers) agrees with iteration: C04's
                    # theorem for the model; a stale map shows only in later by-value operations otherwise
                    coll = o.eGet(f)
                    try:
                        if [coll.index(v) for v in coll] != list(range(len(coll))):
                            bad_index.append(fi)
                    except Exception:  # noqa
                        bad_index.append(fi)
            od['bad_index'] = bad_index
            for cn, fd, f in getattr(self, '_late', None) or ():
                # not attached yet: reads as never set (references only: None / empty)
                lc = self.classes[cn]
                if o.eClass is lc or lc in o.eClass.eAllSuperTypes():
                    fi = self.fid[id(f)]
                    od['feats'][fi] = [] if fd['many'] else [self.tok(None)]
                    od['isset'][fi] = 0
            if getattr(self, '_late', None):
                od['feats'] = dict(sorted(od['feats'].items()))
                od['isset'] = dict(sorted(od['isset'].items()))
            c = o.eContainer()
            od['container'] = self.oid.get(id(c), NONE_TOK if c is None else -2)
            cf = o.eContainmentFeature()
            od['cfeature'] = NONE_TOK if cf is None else self.fid.get(id(cf), -2)
            r = o.eResource
            od['resource'] = NONE_TOK if r is None else self.rid.get(id(r), -2)
            d['objs'].append(od)
        for r in self.res:
            d['res'].append([self.oid.get(id(x), -2) for x in r.contents])
        return d

    def take_log(self):
        """notifications since the last call: (listener, notifier, feature, kind, old, new)"""
        out = []
        for who, n in self.log:
            notifier = self.oid.get(id(n.notifier), -2)
            f = self.fid.get(id(n.feature), -2)
            out.append((who, notifier, f, KINDS[n.kind.name], self.payload(n.old), self.payload(n.new)))
        self.log = []
        return out

    def payload(self, x):
        if isinstance(x, (list, tuple)) or (hasattr(x, '__iter__') and not isinstance(x, str)
                                             and not hasattr(x, 'eClass')):
            try:
                return ('many', [tuple(self.tok(y)) for y in x])
            except TypeError:
                return ('one', tuple(self.tok(x)))
        return ('one', tuple(self.tok(x)))

    def views(self):
        """derived/reflective views (C19, C11)"""
        out = []
        for i, o in enumerate(self.objs):
            ec = [self.oid.get(id(x), -2) for x in o.eContents]
            eac = [self.oid.get(id(x), -2) for x in o.eAllContents()]
            root = o.eRoot()
            out.append({'econtents': ec, 'eallcontents': eac, 'eroot': self.oid.get(id(root), -2)})
        return out

    def fragments(self):
        """for every object under a resource: its fragment and what the resource resolves it to"""
        out = {}
        for i, o in enumerate(self.objs):
            r = o.eResource
            if r is None:
                continue
            try:
                frag = o.eURIFragment()
            except Exception as e:  # noqa
                out[i] = ('exn:' + type(e).__name__, NONE_TOK)
                continue
            try:
                back = r.resolve(frag)
                out[i] = (frag, self.oid.get(id(back), NONE_TOK if back is None else -2))
            except Exception as e:  # noqa
                out[i] = (frag, 'exn:' + type(e).__name__)
        return out
