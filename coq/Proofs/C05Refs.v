(* C05, the whole kernel: an observer that applies every notification to its
   own copy of the value store ends up with the contents the objects really
   have (equal counts of every value modulo Python equality), references with
   their implicit opposite / container updates included.

   Relation style: [rep s s'] = "the log of s' extends the log of s and the
   observer, fed the new entries, turns the store of s into the store of s'";
   it is reflexive, transitive and holds between s and P(s) for every kernel
   procedure P.  Procedures that write their own slot first and notify only
   after nested calls (pop, clear, extend/update of a unique collection) need
   a frame fact [quiet k]: the nested procedure neither writes nor notifies
   about cell k.

   Premises.  About the call: pop/clear/extend/item operations address a
   many-valued feature; item assignment/deletion addresses a UNIQUE collection
   (known finding F-C05-elist-item-write otherwise, see [item_write_refuted]).
   About the metamodel, only for extend/update/assignment of a unique
   collection: [wf_cont] (the opposite of a containment reference is a
   single-valued non-containment reference, EMF's rule for container
   references); without it the mirror really fails ([extend_needs_wf_cont_refuted]).
   About the state: none in the history theorem ([cont_wf], every recorded
   container feature is a containment, is an invariant proved here).

   Redundant notifications the code sends (they are idempotent for the
   observer, so the mirror is not disturbed):
   - ADD for an element that a unique collection already holds (own end and
     opposite end: coll_add_full, coll_append_raw);
   - SET/UNSET re-writing the value already held (x.f = x.f; UNSET None->None
     by delete() and by Resource.append on an already empty slot);
   - ADD_MANY with an empty payload (extend([]) and x.f = []).
   Conversely [unreported_unchanged]: a slot that no new notification names
   has kept its content. *)
From Coq Require Import ZArith List Bool Arith Lia.
From PyecoreV Require Import Lib.PyBase Lib.PyList Model.Kernel Proofs.PyListFacts Proofs.KernelFacts.
Import ListNotations.
Open Scope nat_scope.

(* ------------------------------------------------------------------ *)
(* Python equality of the model is an equivalence                       *)
(* ------------------------------------------------------------------ *)
Definition vkey (v : value) : option Z * value :=
  match num_of v with Some z => (Some z, VNone) | None => (None, v) end.

Lemma veqb_key a b : veqb a b = true <-> vkey a = vkey b.
Proof.
  destruct a, b; unfold veqb, vkey; simpl; split; intros H;
    try discriminate; try reflexivity;
    try (apply Z.eqb_eq in H; congruence);
    try (apply Nat.eqb_eq in H; congruence);
    try (inversion H; subst; try apply Z.eqb_refl; try apply Nat.eqb_refl; fail).
  - apply andb_true_iff in H. destruct H as [H1 H2].
    apply Nat.eqb_eq in H1. apply Nat.eqb_eq in H2. congruence.
  - inversion H; subst. rewrite !Nat.eqb_refl. reflexivity.
Qed.

Lemma veqb_refl a : veqb a a = true.
Proof. apply veqb_key. reflexivity. Qed.

Lemma veqb_sym a b : veqb a b = veqb b a.
Proof.
  apply eq_true_iff_eq. rewrite !veqb_key. split; intros H; symmetry; exact H.
Qed.

Lemma veqb_trans a b c : veqb a b = true -> veqb b c = true -> veqb a c = true.
Proof. rewrite !veqb_key. congruence. Qed.

(* equal values compare alike with everything *)
Lemma veqb_cong a b w : veqb a b = true -> veqb a w = veqb b w.
Proof.
  intros H. apply eq_true_iff_eq. rewrite !veqb_key. apply veqb_key in H. rewrite H. tauto.
Qed.

(* ------------------------------------------------------------------ *)
(* contents as multisets modulo veqb                                    *)
(* ------------------------------------------------------------------ *)
Definition cnt (w : value) (l : list value) : nat := count_of veqb w l.
Definition ind (v w : value) : nat := if veqb v w then 1 else 0.
Arguments cnt : simpl never.
Arguments ind : simpl never.

Definition same_content (l1 l2 : list value) : Prop := forall w, cnt w l1 = cnt w l2.

Lemma sc_refl l : same_content l l.
Proof. intros w; reflexivity. Qed.

Lemma sc_sym l1 l2 : same_content l1 l2 -> same_content l2 l1.
Proof. intros H w; symmetry; apply H. Qed.

Lemma sc_trans l1 l2 l3 : same_content l1 l2 -> same_content l2 l3 -> same_content l1 l3.
Proof. intros H1 H2 w; rewrite H1; apply H2. Qed.

Lemma sc_eq l1 l2 : l1 = l2 -> same_content l1 l2.
Proof. intros ->; apply sc_refl. Qed.

Lemma cnt_nil w : cnt w [] = 0.
Proof. reflexivity. Qed.

Lemma cnt_cons w y l : cnt w (y :: l) = ind y w + cnt w l.
Proof. reflexivity. Qed.

Lemma cnt_app w l1 l2 : cnt w (l1 ++ l2) = cnt w l1 + cnt w l2.
Proof.
  induction l1 as [|y l IH]; [reflexivity|]. simpl app. rewrite !cnt_cons, IH. lia.
Qed.

Lemma vmem_cnt v l : vmem v l = negb (cnt v l =? 0).
Proof.
  unfold vmem. induction l as [|y l IH]; [reflexivity|].
  simpl memb. rewrite cnt_cons. unfold ind. destruct (veqb y v); simpl; [reflexivity | exact IH].
Qed.

Lemma sc_vmem l1 l2 v : same_content l1 l2 -> vmem v l1 = vmem v l2.
Proof. intros H. rewrite !vmem_cnt, (H v). reflexivity. Qed.

Lemma vmem_pos v l : vmem v l = true -> 1 <= cnt v l.
Proof.
  rewrite vmem_cnt. destruct (Nat.eqb_spec (cnt v l) 0); simpl; [discriminate | lia].
Qed.

Lemma cnt_insert_at w n v l : cnt w (insert_at n v l) = ind v w + cnt w l.
Proof.
  revert n; induction l as [|y l IH]; intros [|n]; simpl insert_at; rewrite ?cnt_cons; try reflexivity.
  rewrite IH. lia.
Qed.

Lemma cnt_remove_first w v l l' :
  remove_first veqb v l = Some l' -> cnt w l = ind v w + cnt w l'.
Proof.
  revert l'; induction l as [|y l IH]; simpl; intros l' H; [discriminate|].
  destruct (veqb y v) eqn:E.
  - inversion H; subst. rewrite cnt_cons. unfold ind. rewrite (veqb_cong y v w E). reflexivity.
  - destruct (remove_first veqb v l) as [r|]; [|discriminate]. inversion H; subst.
    rewrite !cnt_cons, (IH r eq_refl). lia.
Qed.

Lemma remove_first_none v l : remove_first veqb v l = None -> vmem v l = false.
Proof.
  unfold vmem. induction l as [|y l IH]; simpl; [reflexivity|].
  destruct (veqb y v); [discriminate|]. destruct (remove_first veqb v l); [discriminate|].
  intros _. apply IH. reflexivity.
Qed.

Lemma remove_first_some v l l' : remove_first veqb v l = Some l' -> vmem v l = true.
Proof.
  unfold vmem. revert l'; induction l as [|y l IH]; simpl; intros l' H; [discriminate|].
  destruct (veqb y v); [reflexivity|]. destruct (remove_first veqb v l) as [r|]; [|discriminate].
  simpl. eapply IH. reflexivity.
Qed.

Lemma cnt_raw_remove w v l :
  cnt w (raw_remove v l) = cnt w l - (if vmem v l then ind v w else 0).
Proof.
  unfold raw_remove. destruct (remove_first veqb v l) as [l'|] eqn:E.
  - rewrite (remove_first_some _ _ _ E), (cnt_remove_first w _ _ _ E). lia.
  - rewrite (remove_first_none _ _ E). lia.
Qed.

Lemma cnt_raw_append w u v l :
  cnt w (raw_append u v l) = cnt w l + (if u && vmem v l then 0 else ind v w).
Proof.
  unfold raw_append. destruct (u && vmem v l); [lia|].
  rewrite cnt_app, cnt_cons, cnt_nil. lia.
Qed.

Lemma cnt_raw_insert w u i v l :
  cnt w (raw_insert u i v l) = cnt w l + (if u && vmem v l then 0 else ind v w).
Proof.
  unfold raw_insert, py_insert. destruct (u && vmem v l); [lia|]. rewrite cnt_insert_at. lia.
Qed.

Lemma cnt_remove_at w n v l :
  nth_error l n = Some v -> cnt w l = ind v w + cnt w (remove_at n l).
Proof.
  revert n; induction l as [|y l IH]; intros [|n] H; simpl in H; try discriminate.
  - inversion H; subst. reflexivity.
  - simpl remove_at. rewrite !cnt_cons, (IH n H). lia.
Qed.

Lemma cnt_py_pop w i l v l' : py_pop i l = Some (v, l') -> cnt w l = ind v w + cnt w l'.
Proof.
  unfold py_pop. destruct (norm_index (zlen l) i) as [z|]; [|discriminate].
  destruct (nth_error l (Z.to_nat z)) as [a|] eqn:E; [|discriminate].
  intros H; inversion H; subst. apply cnt_remove_at. exact E.
Qed.

Lemma sc_raw_append u v l1 l2 :
  same_content l1 l2 -> same_content (raw_append u v l1) (raw_append u v l2).
Proof. intros H w. rewrite !cnt_raw_append, (H w), (sc_vmem _ _ v H). reflexivity. Qed.

Lemma sc_raw_insert_append u i v l1 l2 :
  same_content l1 l2 -> same_content (raw_insert u i v l1) (raw_append u v l2).
Proof. intros H w. rewrite cnt_raw_insert, cnt_raw_append, (H w), (sc_vmem _ _ v H). reflexivity. Qed.

Lemma sc_raw_remove v l1 l2 :
  same_content l1 l2 -> same_content (raw_remove v l1) (raw_remove v l2).
Proof. intros H w. rewrite !cnt_raw_remove, (H w), (sc_vmem _ _ v H). reflexivity. Qed.

Lemma sc_fold_append u vs l1 l2 :
  same_content l1 l2 ->
  same_content (fold_left (fun acc v => raw_append u v acc) vs l1)
               (fold_left (fun acc v => raw_append u v acc) vs l2).
Proof.
  revert l1 l2; induction vs as [|v vs IH]; intros l1 l2 H; simpl; [exact H|].
  apply IH. apply sc_raw_append. exact H.
Qed.

Lemma sc_fold_remove vs l1 l2 :
  same_content l1 l2 ->
  same_content (fold_left (fun acc v => raw_remove v acc) vs l1)
               (fold_left (fun acc v => raw_remove v acc) vs l2).
Proof.
  revert l1 l2; induction vs as [|v vs IH]; intros l1 l2 H; simpl; [exact H|].
  apply IH. apply sc_raw_remove. exact H.
Qed.

(* removing every element of a list from (a permutation of) itself leaves nothing *)
Lemma sc_fold_remove_all vs l :
  same_content l vs -> same_content (fold_left (fun acc v => raw_remove v acc) vs l) [].
Proof.
  revert l; induction vs as [|v vs IH]; intros l H; simpl; [exact H|].
  apply IH. intros w. rewrite cnt_raw_remove.
  assert (Hm : vmem v l = true).
  { rewrite vmem_cnt, (H v), cnt_cons. unfold ind. rewrite veqb_refl. reflexivity. }
  rewrite Hm, (H w), cnt_cons. lia.
Qed.

Lemma fold_append_false vs l :
  fold_left (fun acc v => raw_append false v acc) vs l = l ++ vs.
Proof.
  revert l; induction vs as [|v vs IH]; intros l; simpl; [symmetry; apply app_nil_r|].
  rewrite IH. unfold raw_append. simpl. rewrite <- app_assoc. reflexivity.
Qed.

(* ------------------------------------------------------------------ *)
(* the observer                                                         *)
(* ------------------------------------------------------------------ *)
Definition ncell (n : notif) : cell := (n_obj n, n_feat n).

Definition items (p : payload) : list value :=
  match p with POne v => [v] | PMany vs => vs end.

(* the effect of one notification of feature f on the observer's copy of the slot *)
Definition act (m : mm) (f : fid) (kd : nkind) (old new : payload) (l : list value) : list value :=
  match kd with
  | KSet | KUnset => items new
  | KAdd | KAddMany => fold_left (fun acc v => raw_append (f_unique (fd m f)) v acc) (items new) l
  | KRemove | KRemoveMany => fold_left (fun acc v => raw_remove v acc) (items old) l
  | KMove => l
  end.

Definition apply1 (m : mm) (n : notif) (l : list value) : list value :=
  act m (n_feat n) (n_kind n) (n_old n) (n_new n) l.

Definition mirror1 (m : mm) (n : notif) (V : cell -> list value) : cell -> list value :=
  upd V (ncell n) (apply1 m n (V (ncell n))).

(* the log is most recent first: fold_right applies the oldest entry first *)
Definition mirror (m : mm) (news : list notif) (V : cell -> list value) : cell -> list value :=
  fold_right (mirror1 m) V news.

(* the same, cell by cell *)
Definition mcell (m : mm) (news : list notif) (k : cell) (l : list value) : list value :=
  fold_right (fun n acc => if cell_eqb (ncell n) k then apply1 m n acc else acc) l news.

Lemma mirror_cell m news V k : mirror m news V k = mcell m news k (V k).
Proof.
  induction news as [|n news IH]; [reflexivity|].
  simpl. unfold mirror1 at 1. unfold upd.
  destruct (cell_eqb_spec (ncell n) k) as [E|N]; [|exact IH].
  rewrite E. fold (mirror m news V). rewrite IH. reflexivity.
Qed.

Lemma mcell_app m n2 n1 k l : mcell m (n2 ++ n1) k l = mcell m n2 k (mcell m n1 k l).
Proof. unfold mcell. apply fold_right_app. Qed.

Lemma sc_act m f kd old new l1 l2 :
  same_content l1 l2 -> same_content (act m f kd old new l1) (act m f kd old new l2).
Proof.
  intros H. destruct kd; simpl; try exact H; try apply sc_refl;
    try (apply sc_fold_append; exact H); apply sc_fold_remove; exact H.
Qed.

Lemma sc_mcell m news k l1 l2 :
  same_content l1 l2 -> same_content (mcell m news k l1) (mcell m news k l2).
Proof.
  intros H. induction news as [|n news IH]; simpl; [exact H|].
  destruct (cell_eqb (ncell n) k); [apply sc_act; exact IH | exact IH].
Qed.

Lemma mcell_quiet m news k l :
  Forall (fun n => ncell n <> k) news -> mcell m news k l = l.
Proof.
  induction 1 as [|n news Hn _ IH]; simpl; [reflexivity|].
  destruct (cell_eqb_spec (ncell n) k); [contradiction | exact IH].
Qed.

(* ------------------------------------------------------------------ *)
(* the relations                                                        *)
(* ------------------------------------------------------------------ *)

(* the statement of the property between two states *)
Definition reported (m : mm) (s s' : state) : Prop :=
  exists news, log s' = news ++ log s /\
    forall k, same_content (vals s' k) (mirror m news (vals s) k).

(* every recorded container feature is a containment reference *)
Definition cont_wf (m : mm) (s : state) : Prop :=
  forall y p pf, cont s y = Some (p, pf) -> f_cont (fd m pf) = true.

Definition ckeeps (m : mm) (s s' : state) : Prop :=
  forall y p pf, cont s' y = Some (p, pf) -> cont s y = Some (p, pf) \/ f_cont (fd m pf) = true.

(* the working relation: [reported], cell by cell, together with [ckeeps] *)
Definition rep (m : mm) (s s' : state) : Prop :=
  (exists news, log s' = news ++ log s /\
     forall k, same_content (vals s' k) (mcell m news k (vals s k))) /\
  ckeeps m s s'.

(* a procedure neither writes cell k nor notifies about it *)
Definition quiet (k : cell) (s s' : state) : Prop :=
  vals s' k = vals s k /\
  exists news, log s' = news ++ log s /\ Forall (fun n => ncell n <> k) news.

(* the opposite of a containment reference is a single-valued non-containment reference *)
Definition wf_cont (m : mm) : Prop :=
  forall f g, f_opp (fd m f) = Some g -> f_cont (fd m g) = true ->
    f_many (fd m f) = false /\ f_cont (fd m f) = false.

Section Rel.
Variable m : mm.

Lemma rep_reported s s' : rep m s s' -> reported m s s'.
Proof.
  intros [[news [Hl Hv]] _]. exists news. split; [exact Hl|].
  intros k. rewrite mirror_cell. apply Hv.
Qed.

Lemma ckeeps_refl s : ckeeps m s s.
Proof. intros y p pf H; left; exact H. Qed.

Lemma ckeeps_trans s1 s2 s3 : ckeeps m s1 s2 -> ckeeps m s2 s3 -> ckeeps m s1 s3.
Proof.
  intros H1 H2 y p pf H. destruct (H2 y p pf H) as [H'|H']; [apply H1; exact H' | right; exact H'].
Qed.

Lemma ckeeps_same s s' : cont s' = cont s -> ckeeps m s s'.
Proof. intros E y p pf H. left. rewrite <- E. exact H. Qed.

Lemma cont_wf_keeps s s' : cont_wf m s -> ckeeps m s s' -> cont_wf m s'.
Proof.
  intros Hw Hk y p pf H. destruct (Hk y p pf H) as [H'|H']; [exact (Hw y p pf H') | exact H'].
Qed.

Lemma cont_wf_init : cont_wf m (init_state m).
Proof. intros y p pf H. discriminate. Qed.

Lemma rep_refl s : rep m s s.
Proof.
  split; [|apply ckeeps_refl]. exists []. split; [reflexivity|]. intros k. apply sc_refl.
Qed.

Lemma rep_trans s1 s2 s3 : rep m s1 s2 -> rep m s2 s3 -> rep m s1 s3.
Proof.
  intros [[n1 [L1 V1]] C1] [[n2 [L2 V2]] C2]. split; [|eapply ckeeps_trans; eauto].
  exists (n2 ++ n1). split; [rewrite L2, L1; apply app_assoc|].
  intros k. rewrite mcell_app. eapply sc_trans; [apply V2|]. apply sc_mcell. apply V1.
Qed.

(* a step that touches neither the value store nor the log *)
Lemma rep_silent s s' :
  log s' = log s -> (forall k, vals s' k = vals s k) -> ckeeps m s s' -> rep m s s'.
Proof.
  intros Hl Hv Hc. split; [|exact Hc]. exists []. split; [exact Hl|].
  intros k. rewrite Hv. apply sc_refl.
Qed.

(* a step that writes one cell and appends the notification describing it *)
Lemma rep_step s s' n :
  log s' = n :: log s ->
  (forall k, k <> ncell n -> vals s' k = vals s k) ->
  same_content (vals s' (ncell n)) (apply1 m n (vals s (ncell n))) ->
  ckeeps m s s' -> rep m s s'.
Proof.
  intros Hl Hv Hs Hc. split; [|exact Hc]. exists [n]. split; [exact Hl|].
  intros k. simpl. destruct (cell_eqb_spec (ncell n) k) as [E|N].
  - subst k. exact Hs.
  - rewrite Hv by congruence. apply sc_refl.
Qed.

Lemma quiet_refl k s : quiet k s s.
Proof. split; [reflexivity|]. exists []. split; [reflexivity | constructor]. Qed.

Lemma quiet_trans k s1 s2 s3 : quiet k s1 s2 -> quiet k s2 s3 -> quiet k s1 s3.
Proof.
  intros [V1 [n1 [L1 F1]]] [V2 [n2 [L2 F2]]]. split; [congruence|].
  exists (n2 ++ n1). split; [rewrite L2, L1; apply app_assoc|].
  apply Forall_app. split; assumption.
Qed.

Lemma quiet_silent k s s' : log s' = log s -> vals s' k = vals s k -> quiet k s s'.
Proof. intros Hl Hv. split; [exact Hv|]. exists []. split; [exact Hl | constructor]. Qed.

Lemma quiet_step k s s' n :
  log s' = n :: log s -> ncell n <> k -> vals s' k = vals s k -> quiet k s s'.
Proof.
  intros Hl Hn Hv. split; [exact Hv|]. exists [n]. split; [exact Hl|].
  constructor; [exact Hn | constructor].
Qed.

(* "reported everywhere except at k, where nothing is said and nothing is notified" *)
Definition rep_except (k : cell) (s s' : state) : Prop :=
  (exists news, log s' = news ++ log s /\ Forall (fun n => ncell n <> k) news /\
     forall k', k' <> k -> same_content (vals s' k') (mcell m news k' (vals s k'))) /\
  ckeeps m s s'.

Lemma rep_except_refl k s : rep_except k s s.
Proof.
  split; [|apply ckeeps_refl]. exists []. split; [reflexivity|]. split; [constructor|].
  intros k' _. apply sc_refl.
Qed.

Lemma rep_except_trans k s1 s2 s3 : rep_except k s1 s2 -> rep_except k s2 s3 -> rep_except k s1 s3.
Proof.
  intros [[n1 [L1 [F1 V1]]] C1] [[n2 [L2 [F2 V2]]] C2]. split; [|eapply ckeeps_trans; eauto].
  exists (n2 ++ n1). split; [rewrite L2, L1; apply app_assoc|].
  split; [apply Forall_app; split; assumption|].
  intros k' Hk. rewrite mcell_app. eapply sc_trans; [apply V2; exact Hk|].
  apply sc_mcell. apply V1. exact Hk.
Qed.

Lemma rep_quiet_except k s s' : rep m s s' -> quiet k s s' -> rep_except k s s'.
Proof.
  intros [[n1 [L1 V1]] C1] [_ [n2 [L2 F2]]]. split; [|exact C1].
  assert (E : n1 = n2) by (apply (app_inv_tail (log s)); congruence). subst n2.
  exists n1. split; [exact L1|]. split; [exact F2|]. intros k' _. apply V1.
Qed.

(* writing the own slot without saying so (yet) *)
Lemma rep_except_set_vals k s l : rep_except k s (set_vals s k l).
Proof.
  split; [|apply ckeeps_same; reflexivity]. exists []. split; [reflexivity|]. split; [constructor|].
  intros k' Hk. cbn [vals set_vals mcell fold_right]. rewrite upd_other by congruence. apply sc_refl.
Qed.

(* ... and the notification that finally describes what happened to the own slot *)
Lemma rep_except_close k s s2 s' n :
  rep_except k s s2 ->
  log s' = n :: log s2 -> ncell n = k ->
  (forall k', k' <> k -> vals s' k' = vals s2 k') ->
  cont s' = cont s2 ->
  same_content (vals s' k) (apply1 m n (vals s k)) ->
  rep m s s'.
Proof.
  intros [[n1 [L1 [F1 V1]]] C1] Hl Hn Hv Hc Hs.
  split; [|eapply ckeeps_trans; [exact C1 | apply ckeeps_same; exact Hc]].
  exists (n :: n1). split; [rewrite Hl, L1; reflexivity|].
  intros k'. simpl. destruct (cell_eqb_spec (ncell n) k') as [E|N].
  - rewrite Hn in E. subst k'. rewrite (mcell_quiet m n1 k _ F1). exact Hs.
  - rewrite Hn in N. rewrite Hv by congruence. apply V1. congruence.
Qed.

End Rel.

(* ------------------------------------------------------------------ *)
(* one lemma per kernel procedure                                       *)
(* ------------------------------------------------------------------ *)
Section Procs.
Variable m : mm.

Ltac red_state := cbn [vals log cont set_isset push_log set_vals set_cont set_eres set_rcont set_inv notify].

(* s' = [set_isset] (notify (set_vals s k l') ...) : the remaining goal is the content of the slot *)
Ltac rep_atomic :=
  eapply rep_step;
  [ reflexivity
  | let k := fresh "k" in let Hk := fresh "Hk" in
    intros k Hk; red_state; apply upd_other; unfold ncell in Hk; cbn [n_obj n_feat] in Hk; congruence
  | red_state; unfold ncell; cbn [n_obj n_feat]; rewrite upd_same; unfold apply1, act;
    cbn [n_kind n_old n_new n_feat items fold_left]
  | apply ckeeps_same; reflexivity ].

Ltac rep_quiet_step := apply rep_silent; [reflexivity | reflexivity | apply ckeeps_same; reflexivity].

Lemma ckeeps_set_cont_none s p : ckeeps m s (set_cont s p None).
Proof.
  intros y q pf. cbn [cont set_cont]. unfold updn. destruct (p =? y); [discriminate | tauto].
Qed.

Lemma ckeeps_set_cont_some s y x f :
  f_cont (fd m f) = true -> ckeeps m s (set_cont s y (Some (x, f))).
Proof.
  intros Hf z q pf. cbn [cont set_cont]. unfold updn. destruct (y =? z); [|tauto].
  intros H; inversion H; subst. right; exact Hf.
Qed.

Lemma rep_set_cont_none s p : rep m s (set_cont s p None).
Proof. apply rep_silent; [reflexivity | reflexivity | apply ckeeps_set_cont_none]. Qed.

Lemma rep_uc_clear s f p : rep m s (uc_clear m s f p).
Proof.
  unfold uc_clear. destruct (f_cont (fd m f)); [|apply rep_refl].
  destruct p; [apply rep_set_cont_none | apply rep_refl].
Qed.

Lemma rep_inv_add s o c : rep m s (inv_add s o c).
Proof. unfold inv_add. destruct (cmem c (inv s o)); [apply rep_refl | rep_quiet_step]. Qed.

Lemma rep_inv_del s o c : rep m s (inv_del s o c).
Proof. unfold inv_del. rep_quiet_step. Qed.

Lemma rep_res_remove_raw s r o : rep m s (res_remove_raw s r o).
Proof. unfold res_remove_raw. rep_quiet_step. Qed.

Lemma rep_set_store s k v : rep m s (set_store m s k v).
Proof.
  destruct k as [x f]. unfold set_store. cbn [fst snd].
  rep_atomic. destruct v; apply sc_refl.
Qed.

Lemma rep_set_none_raw s k : rep m s (set_none_raw m s k).
Proof.
  unfold set_none_raw. destruct (f_isref (fd m (snd k))); [|apply rep_set_store].
  eapply rep_trans; [apply rep_set_store | apply rep_uc_clear].
Qed.

Lemma rep_coll_remove_raw s k x : rep m s (coll_remove_raw m s k x).
Proof.
  destruct k as [a f]. unfold coll_remove_raw. cbn [fst snd].
  destruct (vmem (VObj x) (vals s (a, f))); [|apply rep_refl].
  eapply rep_trans; [apply (rep_uc_clear s f (Some x))|].
  rep_atomic. apply sc_refl.
Qed.

Lemma rep_update_opposite_remove s x f y : rep m s (update_opposite_remove m s x f y).
Proof.
  unfold update_opposite_remove. destruct (f_opp (fd m f)) as [g|].
  - destruct (f_many (fd m g)).
    + destruct (cell_eqb (y, g) (x, f)); [apply rep_refl | apply rep_coll_remove_raw].
    + apply rep_set_none_raw.
  - destruct (cmem (x, f) (inv s y)); [apply rep_inv_del | apply rep_inv_add].
Qed.

Lemma rep_unlink_elem s x f v : rep m s (unlink_elem m s x f v).
Proof.
  unfold unlink_elem. destruct (f_isref (fd m f)); [|apply rep_refl].
  destruct (obj_of v); [|apply rep_refl].
  eapply rep_trans; [apply rep_uc_clear | apply rep_update_opposite_remove].
Qed.

Lemma rep_coll_remove_full s k v : rep m s (coll_remove_full m s k v).
Proof.
  destruct k as [x f]. unfold coll_remove_full.
  set (s1 := if f_isref (fd m f) then
               match obj_of v with
               | Some y => update_opposite_remove m (uc_clear m s f (Some y)) x f y
               | None => s end else s).
  assert (H1 : rep m s s1).
  { unfold s1. destruct (f_isref (fd m f)); [|apply rep_refl]. destruct (obj_of v); [|apply rep_refl].
    eapply rep_trans; [apply rep_uc_clear | apply rep_update_opposite_remove]. }
  eapply rep_trans; [exact H1|]. rep_atomic. apply sc_refl.
Qed.

Lemma rep_set_none_full s k : rep m s (set_none_full m s k).
Proof.
  destruct k as [x f]. unfold set_none_full.
  destruct (f_isref (fd m f)); cbn [negb]; [|apply rep_set_store].
  set (s2 := uc_clear m (set_store m s (x, f) VNone) f (obj_of (single s (x, f)))).
  assert (H2 : rep m s s2).
  { eapply rep_trans; [apply rep_set_store | apply rep_uc_clear]. }
  destruct (f_opp (fd m f)) as [g|].
  - destruct (obj_of (single s (x, f))) as [q|]; [|exact H2].
    destruct (f_many (fd m g)).
    + eapply rep_trans; [exact H2 | apply rep_coll_remove_raw].
    + destruct (cell_eqb (q, g) (x, f)); [exact H2|].
      eapply rep_trans; [exact H2 | apply rep_set_none_raw].
  - destruct (obj_of (single s (x, f))); [|exact H2].
    eapply rep_trans; [exact H2 | apply rep_inv_del].
Qed.

Lemma rep_remove_or_unset s k y : rep m s (remove_or_unset m s k y).
Proof.
  unfold remove_or_unset. destruct (f_many (fd m (snd k))).
  - destruct (vmem (VObj y) (vals s k)); [apply rep_coll_remove_full | apply rep_refl].
  - apply rep_set_none_full.
Qed.

Lemma rep_update_container s x f v p : rep m s (update_container m s x f v p).
Proof.
  unfold update_container. destruct (f_cont (fd m f)) eqn:Hc; cbn [negb]; [|apply rep_refl].
  match goal with |- rep m s (match p with Some _ => _ | None => ?S1 end) => set (s1 := S1) end.
  assert (H1 : rep m s s1).
  { unfold s1. destruct v as [y|]; [|apply rep_refl]. cbv zeta.
    set (sa := match eresource_of m s y with
               | Some r => if nmem y (rcont s r) then res_remove_raw s r y else s
               | None => s end).
    assert (Ha : rep m s sa).
    { unfold sa. destruct (eresource_of m s y); [|apply rep_refl].
      destruct (nmem y (rcont s r)); [apply rep_res_remove_raw | apply rep_refl]. }
    set (sb := match cont sa y with
               | Some (p0, pf) => if negb ((p0 =? x) && (pf =? f)) then remove_or_unset m sa (p0, pf) y else sa
               | None => sa end).
    assert (Hb : rep m sa sb).
    { unfold sb. destruct (cont sa y) as [[p0 pf]|]; [|apply rep_refl].
      destruct (negb ((p0 =? x) && (pf =? f))); [apply rep_remove_or_unset | apply rep_refl]. }
    eapply rep_trans; [exact Ha|]. eapply rep_trans; [exact Hb|].
    apply rep_silent; [reflexivity | reflexivity | apply ckeeps_set_cont_some; exact Hc]. }
  destruct p as [p|]; [|exact H1].
  destruct v as [y|]; [destruct (y =? p); [exact H1|] |];
    (eapply rep_trans; [exact H1 | apply rep_set_cont_none]).
Qed.

Lemma rep_set_obj_raw s k x : rep m s (set_obj_raw m s k x).
Proof.
  unfold set_obj_raw. destruct (f_isref (fd m (snd k))); [|apply rep_set_store].
  eapply rep_trans; [apply rep_set_store | apply rep_update_container].
Qed.

Lemma rep_coll_append_raw s k x : rep m s (coll_append_raw m s k x).
Proof.
  destruct k as [a f]. unfold coll_append_raw. cbn [fst snd].
  eapply rep_trans; [apply (rep_update_container s a f (Some x) None)|].
  rep_atomic. apply sc_refl.
Qed.

Lemma rep_update_opposite_add s x f y : rep m s (update_opposite_add m s x f y).
Proof.
  unfold update_opposite_add. destruct (f_opp (fd m f)) as [g|]; [|apply rep_inv_add].
  destruct (f_many (fd m g)).
  - destruct (cell_eqb (y, g) (x, f)); [apply rep_refl | apply rep_coll_append_raw].
  - eapply rep_trans; [|apply rep_set_obj_raw].
    destruct (obj_of (single s (y, g))) as [c|]; [|apply rep_refl].
    destruct (c =? x); [apply rep_refl | apply rep_coll_remove_raw].
Qed.

Lemma rep_link_elem s x f v : rep m s (link_elem m s x f v).
Proof.
  unfold link_elem. destruct (f_isref (fd m f)); [|apply rep_refl].
  destruct (obj_of v); [|apply rep_refl].
  eapply rep_trans; [apply rep_update_container | apply rep_update_opposite_add].
Qed.

Lemma rep_set_full s k v : rep m s (snd (set_full m s k v)).
Proof.
  destruct k as [x f]. unfold set_full.
  destruct (check_single m f v); cbn [negb snd]; [|apply rep_refl].
  destruct (f_isref (fd m f)); cbn [negb snd]; [|apply rep_set_store].
  set (s2 := update_container m (set_store m s (x, f) v) x f (obj_of v) (obj_of (single s (x, f)))).
  assert (H2 : rep m s s2).
  { eapply rep_trans; [apply rep_set_store | apply rep_update_container]. }
  destruct (f_opp (fd m f)) as [g|].
  - set (s3 := match obj_of (single s (x, f)) with
               | Some q =>
                 if match obj_of v with Some y => y =? q | None => false end then s2
                 else if f_many (fd m g) then coll_remove_raw m s2 (q, g) x
                 else if cell_eqb (q, g) (x, f) then s2 else set_none_raw m s2 (q, g)
               | None => s2 end).
    assert (H3 : rep m s s3).
    { eapply rep_trans; [exact H2|]. unfold s3.
      destruct (obj_of (single s (x, f))) as [q|]; [|apply rep_refl].
      destruct (match obj_of v with Some y => y =? q | None => false end); [apply rep_refl|].
      destruct (f_many (fd m g)); [apply rep_coll_remove_raw|].
      destruct (cell_eqb (q, g) (x, f)); [apply rep_refl | apply rep_set_none_raw]. }
    destruct (obj_of v) as [y|]; [|exact H3].
    destruct (f_many (fd m g)); cbn [snd].
    + eapply rep_trans; [exact H3 | apply rep_coll_append_raw].
    + eapply rep_trans; [exact H3|]. eapply rep_trans; [|apply rep_set_obj_raw].
      destruct (obj_of (single s3 (y, g))) as [c|]; [|apply rep_refl].
      destruct (c =? x); [apply rep_refl | apply rep_set_none_raw].
  - cbn [snd]. eapply rep_trans; [exact H2|].
    destruct (obj_of v) as [y|].
    + eapply rep_trans; [|apply rep_inv_add].
      destruct (obj_of (single s (x, f))); [apply rep_inv_del | apply rep_refl].
    + destruct (obj_of (single s (x, f))); [apply rep_inv_del | apply rep_refl].
Qed.

Lemma rep_coll_add_full s k pos v : rep m s (snd (coll_add_full m s k pos v)).
Proof.
  destruct k as [x f]. unfold coll_add_full.
  destruct (check_elem m f v); cbn [negb snd]; [|apply rep_refl].
  eapply rep_trans; [apply (rep_link_elem s x f v)|].
  rep_atomic. destruct pos as [i|]; [apply sc_raw_insert_append | apply sc_raw_append]; apply sc_refl.
Qed.

Lemma rep_coll_remove_top s k v : rep m s (snd (coll_remove_top m s k v)).
Proof.
  unfold coll_remove_top. destruct (vmem v (vals s k)); cbn [snd];
    [apply rep_coll_remove_full | apply rep_refl].
Qed.

(* ---- frame facts for the removal direction (pop, clear) ---- *)
Ltac quiet_silent_step := apply quiet_silent; reflexivity.

Lemma quiet_uc_clear k s f p : quiet k s (uc_clear m s f p).
Proof.
  unfold uc_clear. destruct (f_cont (fd m f)); [|apply quiet_refl].
  destruct p; [quiet_silent_step | apply quiet_refl].
Qed.

Lemma quiet_inv_add k s o c : quiet k s (inv_add s o c).
Proof. unfold inv_add. destruct (cmem c (inv s o)); [apply quiet_refl | quiet_silent_step]. Qed.

Lemma quiet_inv_del k s o c : quiet k s (inv_del s o c).
Proof. unfold inv_del. quiet_silent_step. Qed.

Lemma quiet_set_store k s k' v : k' <> k -> quiet k s (set_store m s k' v).
Proof.
  intros Hk. destruct k' as [x f]. unfold set_store. cbn [fst snd].
  eapply quiet_step; [reflexivity | exact Hk | red_state; apply upd_other; exact Hk].
Qed.

Lemma quiet_set_none_raw k s k' : k' <> k -> quiet k s (set_none_raw m s k').
Proof.
  intros Hk. unfold set_none_raw.
  destruct (f_isref (fd m (snd k'))); [|apply quiet_set_store; exact Hk].
  eapply quiet_trans; [apply quiet_set_store; exact Hk | apply quiet_uc_clear].
Qed.

Lemma quiet_coll_remove_raw k s k' x : k' <> k -> quiet k s (coll_remove_raw m s k' x).
Proof.
  intros Hk. destruct k' as [a f]. unfold coll_remove_raw. cbn [fst snd].
  destruct (vmem (VObj x) (vals s (a, f))); [|apply quiet_refl].
  eapply quiet_trans; [apply (quiet_uc_clear k s f (Some x))|].
  eapply quiet_step; [reflexivity | exact Hk | red_state; apply upd_other; exact Hk].
Qed.

Lemma quiet_update_opposite_remove k s x f y :
  (forall g, f_opp (fd m f) = Some g ->
     (y, g) <> k \/ (f_many (fd m g) = true /\ (y, g) = (x, f))) ->
  quiet k s (update_opposite_remove m s x f y).
Proof.
  intros Hg. unfold update_opposite_remove. destruct (f_opp (fd m f)) as [g|].
  - destruct (Hg g eq_refl) as [Hn|[Hm He]].
    + destruct (f_many (fd m g)).
      * destruct (cell_eqb (y, g) (x, f)); [apply quiet_refl | apply quiet_coll_remove_raw; exact Hn].
      * apply quiet_set_none_raw; exact Hn.
    + rewrite Hm, He, cell_eqb_refl. apply quiet_refl.
  - destruct (cmem (x, f) (inv s y)); [apply quiet_inv_del | apply quiet_inv_add].
Qed.

(* removing one element of the many-valued (x, f) touches the opposite end only *)
Lemma quiet_unlink_elem s x f v :
  f_many (fd m f) = true -> quiet (x, f) s (unlink_elem m s x f v).
Proof.
  intros Hm. unfold unlink_elem. destruct (f_isref (fd m f)); [|apply quiet_refl].
  destruct (obj_of v) as [y|]; [|apply quiet_refl].
  eapply quiet_trans; [apply quiet_uc_clear|]. apply quiet_update_opposite_remove.
  intros g Hg. destruct (f_many (fd m g)) eqn:Hmg.
  - destruct (cell_eqb_spec (y, g) (x, f)) as [E|N]; [right; split; [reflexivity | exact E] | left; exact N].
  - left. intros E. inversion E; subst. congruence.
Qed.

Lemma rep_coll_pop_full s x f i :
  f_many (fd m f) = true -> rep m s (snd (fst (coll_pop_full m s (x, f) i))).
Proof.
  intros Hm. unfold coll_pop_full.
  destruct (vals s (x, f)) as [|a l0] eqn:El; [apply rep_refl|]. rewrite <- El.
  destruct (py_pop i (vals s (x, f))) as [[v l']|] eqn:Ep; cbn [fst snd]; [|apply rep_refl].
  pose proof (quiet_unlink_elem (set_vals s (x, f) l') x f v Hm) as Hq.
  eapply (rep_except_close m (x, f) s (unlink_elem m (set_vals s (x, f) l') x f v)).
  - eapply rep_except_trans; [apply rep_except_set_vals|].
    apply rep_quiet_except; [apply rep_unlink_elem | exact Hq].
  - reflexivity.
  - reflexivity.
  - intros k' _. reflexivity.
  - reflexivity.
  - destruct Hq as [Hv _]. red_state. rewrite Hv. red_state. rewrite upd_same.
    unfold apply1, act. cbn [n_kind n_old n_new n_feat items fold_left].
    intros w. rewrite cnt_raw_remove.
    assert (Hin : vmem v (vals s (x, f)) = true).
    { rewrite vmem_cnt, (cnt_py_pop v _ _ _ _ Ep). unfold ind. rewrite veqb_refl. reflexivity. }
    rewrite Hin, (cnt_py_pop w _ _ _ _ Ep). lia.
Qed.

Lemma rep_fold_unlink s x f l : rep m s (fold_left (fun acc v => unlink_elem m acc x f v) l s).
Proof.
  revert s; induction l as [|v l IH]; intros s; simpl; [apply rep_refl|].
  eapply rep_trans; [apply rep_unlink_elem | apply IH].
Qed.

Lemma quiet_fold_unlink s x f l :
  f_many (fd m f) = true ->
  quiet (x, f) s (fold_left (fun acc v => unlink_elem m acc x f v) l s).
Proof.
  intros Hm. revert s; induction l as [|v l IH]; intros s; simpl; [apply quiet_refl|].
  eapply quiet_trans; [apply quiet_unlink_elem; exact Hm | apply IH].
Qed.

Lemma rep_coll_clear_full s x f :
  f_many (fd m f) = true -> rep m s (coll_clear_full m s (x, f)).
Proof.
  intros Hm. unfold coll_clear_full. cbv zeta.
  destruct (vals s (x, f)) as [|a l0] eqn:El; [apply rep_refl|].
  pose proof (quiet_fold_unlink s x f (a :: l0) Hm) as Hq.
  eapply (rep_except_close m (x, f) s (fold_left (fun acc v => unlink_elem m acc x f v) (a :: l0) s)).
  - apply rep_quiet_except; [apply rep_fold_unlink | exact Hq].
  - reflexivity.
  - reflexivity.
  - intros k' Hk. red_state. apply upd_other. congruence.
  - reflexivity.
  - red_state. rewrite upd_same. unfold apply1, act. cbn [n_kind n_old n_new n_feat items].
    rewrite El. apply sc_sym. apply sc_fold_remove_all. apply sc_refl.
Qed.

(* ---- frame facts for the addition direction (extend/update of a unique collection) ---- *)
Lemma quiet_coll_remove_full k s p pf v :
  (p, pf) <> k -> (forall g, f_opp (fd m pf) = Some g -> g <> snd k) ->
  quiet k s (coll_remove_full m s (p, pf) v).
Proof.
  intros Hk Hg. unfold coll_remove_full.
  set (s1 := if f_isref (fd m pf) then
               match obj_of v with
               | Some y => update_opposite_remove m (uc_clear m s pf (Some y)) p pf y
               | None => s end else s).
  assert (H1 : quiet k s s1).
  { unfold s1. destruct (f_isref (fd m pf)); [|apply quiet_refl].
    destruct (obj_of v) as [y|]; [|apply quiet_refl].
    eapply quiet_trans; [apply quiet_uc_clear|]. apply quiet_update_opposite_remove.
    intros g Hfg. left. intros E. apply (Hg g Hfg). rewrite <- E. reflexivity. }
  eapply quiet_trans; [exact H1|].
  eapply quiet_step; [reflexivity | exact Hk | red_state; apply upd_other; exact Hk].
Qed.

Lemma quiet_set_none_full k s p pf :
  (p, pf) <> k -> (forall g, f_opp (fd m pf) = Some g -> g <> snd k) ->
  quiet k s (set_none_full m s (p, pf)).
Proof.
  intros Hk Hg. unfold set_none_full.
  destruct (f_isref (fd m pf)); cbn [negb]; [|apply quiet_set_store; exact Hk].
  set (s2 := uc_clear m (set_store m s (p, pf) VNone) pf (obj_of (single s (p, pf)))).
  assert (H2 : quiet k s s2).
  { eapply quiet_trans; [apply quiet_set_store; exact Hk | apply quiet_uc_clear]. }
  destruct (f_opp (fd m pf)) as [g|].
  - assert (Hn : forall q, (q, g) <> k).
    { intros q E. apply (Hg g eq_refl). rewrite <- E. reflexivity. }
    destruct (obj_of (single s (p, pf))) as [q|]; [|exact H2].
    destruct (f_many (fd m g)).
    + eapply quiet_trans; [exact H2 | apply quiet_coll_remove_raw; apply Hn].
    + destruct (cell_eqb (q, g) (p, pf)); [exact H2|].
      eapply quiet_trans; [exact H2 | apply quiet_set_none_raw; apply Hn].
  - destruct (obj_of (single s (p, pf))); [|exact H2].
    eapply quiet_trans; [exact H2 | apply quiet_inv_del].
Qed.

Lemma quiet_remove_or_unset k s p pf y :
  (p, pf) <> k -> (forall g, f_opp (fd m pf) = Some g -> g <> snd k) ->
  quiet k s (remove_or_unset m s (p, pf) y).
Proof.
  intros Hk Hg. unfold remove_or_unset. cbn [snd]. destruct (f_many (fd m pf)).
  - destruct (vmem (VObj y) (vals s (p, pf))); [apply quiet_coll_remove_full; assumption | apply quiet_refl].
  - apply quiet_set_none_full; assumption.
Qed.

Lemma update_container_nocont s x f v p :
  f_cont (fd m f) = false -> update_container m s x f v p = s.
Proof. intros H. unfold update_container. rewrite H. reflexivity. Qed.

(* taking y into the containment (x, f): y's previous container slot and its opposite
   are touched; neither is (x, f) when containers are well-formed *)
Lemma quiet_update_container_own s x f v p :
  wf_cont m -> cont_wf m s -> quiet (x, f) s (update_container m s x f v p).
Proof.
  intros Hwc Hcw. unfold update_container.
  destruct (f_cont (fd m f)) eqn:Hc; cbn [negb]; [|apply quiet_refl].
  match goal with |- quiet _ s (match p with Some _ => _ | None => ?S1 end) => set (s1 := S1) end.
  assert (H1 : quiet (x, f) s s1).
  { unfold s1. destruct v as [y|]; [|apply quiet_refl]. cbv zeta.
    set (sa := match eresource_of m s y with
               | Some r => if nmem y (rcont s r) then res_remove_raw s r y else s
               | None => s end).
    assert (Ha : quiet (x, f) s sa /\ cont sa = cont s).
    { unfold sa. destruct (eresource_of m s y); [|split; [apply quiet_refl | reflexivity]].
      destruct (nmem y (rcont s r)); split; try apply quiet_refl; try reflexivity.
      unfold res_remove_raw. quiet_silent_step. }
    destruct Ha as [Ha Hca].
    set (sb := match cont sa y with
               | Some (p0, pf) => if negb ((p0 =? x) && (pf =? f)) then remove_or_unset m sa (p0, pf) y else sa
               | None => sa end).
    eapply quiet_trans; [exact Ha|]. apply (quiet_trans _ _ sb); [|quiet_silent_step].
    unfold sb. rewrite Hca. destruct (cont s y) as [[p0 pf]|] eqn:Ecy; [|apply quiet_refl].
    destruct (negb ((p0 =? x) && (pf =? f))) eqn:Eg; [|apply quiet_refl].
    apply quiet_remove_or_unset.
    - intros E. inversion E; subst. rewrite !Nat.eqb_refl in Eg. discriminate.
    - intros g Hg E. cbn [snd] in E. subst g.
      destruct (Hwc pf f Hg Hc) as [_ Hpf]. rewrite (Hcw y p0 pf Ecy) in Hpf. discriminate. }
  destruct p as [p|]; [|exact H1].
  destruct v as [y|]; [destruct (y =? p); [exact H1|] |];
    (eapply quiet_trans; [exact H1 | quiet_silent_step]).
Qed.

Lemma quiet_set_obj_raw k s k' x :
  k' <> k -> f_cont (fd m (snd k')) = false -> quiet k s (set_obj_raw m s k' x).
Proof.
  intros Hk Hc. unfold set_obj_raw.
  destruct (f_isref (fd m (snd k'))); [|apply quiet_set_store; exact Hk].
  rewrite update_container_nocont by exact Hc. apply quiet_set_store; exact Hk.
Qed.

Lemma quiet_coll_append_raw k s k' x :
  k' <> k -> f_cont (fd m (snd k')) = false -> quiet k s (coll_append_raw m s k' x).
Proof.
  intros Hk Hc. destruct k' as [a g]. unfold coll_append_raw. cbn [fst snd] in *.
  rewrite update_container_nocont by exact Hc.
  eapply quiet_step; [reflexivity | exact Hk | red_state; apply upd_other; exact Hk].
Qed.

Lemma quiet_update_opposite_add s x f y :
  wf_cont m -> f_many (fd m f) = true -> quiet (x, f) s (update_opposite_add m s x f y).
Proof.
  intros Hwc Hm. unfold update_opposite_add.
  destruct (f_opp (fd m f)) as [g|] eqn:Hg; [|apply quiet_inv_add].
  assert (Hcg : f_cont (fd m g) = false).
  { destruct (f_cont (fd m g)) eqn:E; [|reflexivity].
    destruct (Hwc f g Hg E) as [H _]. congruence. }
  destruct (f_many (fd m g)) eqn:Hmg.
  - destruct (cell_eqb_spec (y, g) (x, f)) as [E|N]; [apply quiet_refl|].
    apply quiet_coll_append_raw; [exact N | exact Hcg].
  - assert (N : (y, g) <> (x, f)) by (intros E; inversion E; subst; congruence).
    eapply quiet_trans; [|apply quiet_set_obj_raw; [exact N | exact Hcg]].
    destruct (obj_of (single s (y, g))) as [c|]; [|apply quiet_refl].
    destruct (Nat.eqb_spec c x) as [E|Nc]; [apply quiet_refl|].
    apply quiet_coll_remove_raw. intros E. inversion E; subst. congruence.
Qed.

Lemma quiet_link_elem s x f v :
  wf_cont m -> cont_wf m s -> f_many (fd m f) = true -> quiet (x, f) s (link_elem m s x f v).
Proof.
  intros Hwc Hcw Hm. unfold link_elem. destruct (f_isref (fd m f)); [|apply quiet_refl].
  destruct (obj_of v) as [y|]; [|apply quiet_refl].
  eapply quiet_trans; [apply quiet_update_container_own; assumption|].
  apply quiet_update_opposite_add; assumption.
Qed.

(* ---- extend / update ---- *)
Lemma rep_fold_link s x f vs : rep m s (fold_left (fun acc v => link_elem m acc x f v) vs s).
Proof.
  revert s; induction vs as [|v vs IH]; intros s; simpl; [apply rep_refl|].
  eapply rep_trans; [apply rep_link_elem | apply IH].
Qed.

(* unique collections: element by element "add to the own slot, then link"; one ADD_MANY at the end *)
Lemma extend_unique_fold x f vs :
  wf_cont m -> f_many (fd m f) = true ->
  forall s, cont_wf m s ->
  let sf := fold_left (fun acc v => link_elem m (set_vals acc (x, f) (raw_append true v (vals acc (x, f)))) x f v) vs s in
  rep_except m (x, f) s sf /\
  vals sf (x, f) = fold_left (fun acc v => raw_append true v acc) vs (vals s (x, f)).
Proof.
  intros Hwc Hm. induction vs as [|v vs IH]; intros s Hcw; simpl.
  - split; [apply rep_except_refl | reflexivity].
  - set (sw := set_vals s (x, f) (raw_append true v (vals s (x, f)))).
    assert (Hcw' : cont_wf m sw) by exact Hcw.
    pose proof (quiet_link_elem sw x f v Hwc Hcw' Hm) as Hq.
    pose proof (rep_link_elem sw x f v) as Hr.
    assert (Hcl : cont_wf m (link_elem m sw x f v)).
    { eapply cont_wf_keeps; [exact Hcw' | exact (proj2 Hr)]. }
    destruct (IH (link_elem m sw x f v) Hcl) as [He Hv]. split.
    + eapply rep_except_trans; [apply rep_except_set_vals|].
      eapply rep_except_trans; [apply rep_quiet_except; [exact Hr | exact Hq] | exact He].
    + rewrite Hv. destruct Hq as [Hq _]. rewrite Hq. unfold sw. red_state. rewrite upd_same. reflexivity.
Qed.

Lemma rep_coll_extend_full s x f vs :
  f_many (fd m f) = true -> (f_unique (fd m f) = true -> wf_cont m) -> cont_wf m s ->
  rep m s (snd (coll_extend_full m s (x, f) vs)).
Proof.
  intros Hm Hwc Hcw. unfold coll_extend_full.
  destruct (forallb (check_elem m f) vs); cbn [negb snd]; [|apply rep_refl].
  destruct (f_unique (fd m f)) eqn:Hu.
  - destruct (extend_unique_fold x f vs (Hwc eq_refl) Hm s Hcw) as [He Hv]. cbv zeta in He, Hv.
    eapply (rep_except_close m (x, f) s _ _ _ He).
    + reflexivity.
    + reflexivity.
    + intros k' _. reflexivity.
    + reflexivity.
    + red_state. rewrite Hv. unfold apply1, act. cbn [n_kind n_old n_new n_feat items].
      rewrite Hu. apply sc_refl.
  - eapply rep_trans; [apply (rep_fold_link s x f vs)|].
    rep_atomic. rewrite Hu, fold_append_false. apply sc_refl.
Qed.

(* ---- item assignment / deletion on a unique collection: pop, then insert ---- *)
Lemma rep_coll_setitem_full s x f i v :
  f_many (fd m f) = true -> f_unique (fd m f) = true ->
  rep m s (snd (coll_setitem_full m s (x, f) i v)).
Proof.
  intros Hm Hu. unfold coll_setitem_full.
  destruct (check_elem m f v); cbn [negb snd]; [|apply rep_refl]. rewrite Hu.
  destruct ((i <? 0)%Z && ((if (i <? 0)%Z then (zlen (vals s (x, f)) + i)%Z else i) <? 0)%Z);
    [apply rep_refl|].
  unfold seq_outcome.
  pose proof (rep_coll_pop_full s x f (if (i <? 0)%Z then (zlen (vals s (x, f)) + i)%Z else i) Hm) as Hp.
  destruct (fst (coll_pop_full m s (x, f) (if (i <? 0)%Z then (zlen (vals s (x, f)) + i)%Z else i))) as [[e|] s1];
    cbn [snd] in *; [exact Hp|].
  eapply rep_trans; [exact Hp | apply rep_coll_add_full].
Qed.

Lemma rep_coll_delitem_full s x f i :
  f_many (fd m f) = true -> f_unique (fd m f) = true ->
  rep m s (snd (coll_delitem_full m s (x, f) i)).
Proof.
  intros Hm Hu. unfold coll_delitem_full. cbn [snd]. rewrite Hu. apply rep_coll_pop_full; exact Hm.
Qed.

Lemma rep_assign_full s x f vs :
  f_many (fd m f) = true -> (f_unique (fd m f) = true -> wf_cont m) -> cont_wf m s ->
  rep m s (snd (assign_full m s (x, f) vs)).
Proof.
  intros Hm Hwc Hcw. unfold assign_full. cbn [snd].
  destruct (forallb (check_elem m f) vs); cbn [negb snd]; [|apply rep_refl].
  pose proof (rep_coll_clear_full s x f Hm) as Hc.
  eapply rep_trans; [exact Hc|]. apply rep_coll_extend_full; [exact Hm | exact Hwc|].
  eapply cont_wf_keeps; [exact Hcw | exact (proj2 Hc)].
Qed.

Lemma rep_del_full s x f : rep m s (snd (del_full m s (x, f))).
Proof.
  unfold del_full. cbn [snd]. destruct (f_many (fd m f)) eqn:Hm; cbn [snd].
  - apply rep_coll_clear_full; exact Hm.
  - apply rep_set_full.
Qed.

(* ---- delete ---- *)
Lemma rep_delete_step x s k : rep m s (delete_step m x s k).
Proof.
  destruct k as [owner f]. unfold delete_step. destruct (f_many (fd m f)) eqn:Hm.
  - destruct (owner =? x); [apply rep_coll_clear_full; exact Hm|].
    destruct (vmem (VObj x) (vals s (owner, f))); [apply rep_coll_remove_full | apply rep_refl].
  - destruct ((match single s (owner, f) with VObj y => y =? x | _ => false end) || (owner =? x));
      [apply rep_set_full | apply rep_refl].
Qed.

Lemma rep_fold_delete_step x l s : rep m s (fold_left (delete_step m x) l s).
Proof.
  revert s; induction l as [|k l IH]; intros s; simpl; [apply rep_refl|].
  eapply rep_trans; [apply rep_delete_step | apply IH].
Qed.

Lemma rep_delete_obj fuel s x r : rep m s (delete_obj fuel m s x r).
Proof.
  revert s x r; induction fuel as [|fu IH]; intros s x r; simpl; [apply rep_refl|].
  eapply rep_trans; [|apply rep_fold_delete_step].
  destruct r; [|apply rep_refl].
  generalize (econtents m s x). intros l. revert s.
  induction l as [|c l IHl]; intros s; simpl; [apply rep_refl|].
  eapply rep_trans; [apply IH | apply IHl].
Qed.

(* ---- resources ---- *)
Lemma rep_res_append s r o : rep m s (res_append m s r o).
Proof.
  unfold res_append.
  assert (G : forall s0,
     rep m s0 (let s1 := set_eres (set_rcont s0 r (rcont s0 r ++ [o])) o (Some r) in
               match cont s1 o with
               | Some (p, pf) =>
                 if f_many (fd m pf)
                 then (if vmem (VObj o) (vals s1 (p, pf)) then coll_remove_full m s1 (p, pf) (VObj o) else s1)
                 else snd (set_full m s1 (p, pf) VNone)
               | None => s1 end)).
  { intros s0. cbv zeta.
    set (s1 := set_eres (set_rcont s0 r (rcont s0 r ++ [o])) o (Some r)).
    assert (H1 : rep m s0 s1) by (unfold s1; rep_quiet_step).
    eapply rep_trans; [exact H1|].
    destruct (cont s1 o) as [[p pf]|]; [|apply rep_refl].
    destruct (f_many (fd m pf)).
    - destruct (vmem (VObj o) (vals s1 (p, pf))); [apply rep_coll_remove_full | apply rep_refl].
    - apply rep_set_full. }
  destruct (eres s o) as [p|]; [|apply G].
  destruct (nmem o (rcont s p)); [|apply G].
  destruct (p =? r); [apply rep_refl|].
  eapply rep_trans; [apply rep_res_remove_raw | apply G].
Qed.

Lemma rep_res_remove s r o : rep m s (snd (res_remove s r o)).
Proof.
  unfold res_remove. destruct (nmem o (rcont s r)); cbn [snd]; [apply rep_res_remove_raw | apply rep_refl].
Qed.

(* ---- operations ---- *)

(* premises about the call: positional/bulk collection operations address a many-valued
   feature; item assignment/deletion a unique collection (F-C05-elist-item-write otherwise);
   bulk addition to a unique collection needs well-formed containers in the metamodel *)
Definition op_ok (o : op) : Prop :=
  match o with
  | OPop x f _ | OClear x f => f_many (fd m f) = true
  | OExtend x f _ => f_many (fd m f) = true /\ (f_unique (fd m f) = true -> wf_cont m)
  | OAssign x f _ => f_unique (fd m f) = true -> wf_cont m
  | OSetItem x f _ _ | ODelItem x f _ => f_many (fd m f) = true /\ f_unique (fd m f) = true
  | _ => True
  end.

Theorem rep_op s o : cont_wf m s -> op_ok o -> rep m s (next m s o).
Proof.
  intros Hcw Ho. unfold next, step.
  destruct o as [x f v|x f|x f|x f vs|x f v|x f i v|x f v|x f i|x f|x f vs|x f i v|x f i|x r|r o|r o|r os|x f];
    cbn [fst snd]; cbn [op_ok] in Ho.
  - destruct (f_many (fd m f)); [apply rep_refl | apply rep_set_full].
  - destruct (f_many (fd m f)); [apply rep_refl | apply rep_set_full].
  - apply rep_del_full.
  - destruct (f_many (fd m f)) eqn:Hm; [|apply rep_refl]. apply rep_assign_full; assumption.
  - apply rep_coll_add_full.
  - apply rep_coll_add_full.
  - apply rep_coll_remove_top.
  - apply rep_coll_pop_full; exact Ho.
  - apply rep_coll_clear_full; exact Ho.
  - destruct Ho as [Hm Hw]. apply rep_coll_extend_full; assumption.
  - destruct Ho as [Hm Hu]. apply rep_coll_setitem_full; assumption.
  - destruct Ho as [Hm Hu]. apply rep_coll_delitem_full; assumption.
  - apply rep_delete_obj.
  - apply rep_res_append.
  - apply rep_res_remove.
  - clear Hcw. generalize dependent s. induction os as [|o os IH]; intros s; simpl; [apply rep_refl|].
    eapply rep_trans; [apply rep_res_append | apply IH].
  - apply rep_refl.
Qed.

Theorem rep_history ops s :
  cont_wf m s -> Forall op_ok ops -> rep m s (fold_left (next m) ops s).
Proof.
  revert s; induction ops as [|o ops IH]; intros s Hcw Hok; simpl; [apply rep_refl|].
  inversion Hok as [|? ? Ho Hops]; subst.
  pose proof (rep_op s o Hcw Ho) as Hr.
  eapply rep_trans; [exact Hr|]. apply IH; [|exact Hops].
  eapply cont_wf_keeps; [exact Hcw | exact (proj2 Hr)].
Qed.

End Procs.

(* ------------------------------------------------------------------ *)
(* the public statements                                                *)
(* ------------------------------------------------------------------ *)
Lemma reported_cells m s s' :
  reported m s s' <->
  exists news, log s' = news ++ log s /\
    forall k, same_content (vals s' k) (mcell m news k (vals s k)).
Proof.
  split; intros [news [Hl Hv]]; exists news; (split; [exact Hl|]); intros k;
    [rewrite <- mirror_cell | rewrite mirror_cell]; apply Hv.
Qed.

Theorem reported_refl m s : reported m s s.
Proof. apply rep_reported. apply rep_refl. Qed.

Theorem reported_trans m s1 s2 s3 : reported m s1 s2 -> reported m s2 s3 -> reported m s1 s3.
Proof.
  rewrite !reported_cells. intros [n1 [L1 V1]] [n2 [L2 V2]].
  exists (n2 ++ n1). split; [rewrite L2, L1; apply app_assoc|].
  intros k. rewrite mcell_app. eapply sc_trans; [apply V2|]. apply sc_mcell. apply V1.
Qed.

(* the observer respects the comparison: it can be run on any copy with the same contents *)
Theorem mirror_congruence m news V1 V2 :
  (forall k, same_content (V1 k) (V2 k)) ->
  forall k, same_content (mirror m news V1 k) (mirror m news V2 k).
Proof. intros H k. rewrite !mirror_cell. apply sc_mcell. apply H. Qed.

Theorem mirror_app m n2 n1 V k : mirror m (n2 ++ n1) V k = mirror m n2 (mirror m n1 V) k.
Proof. unfold mirror. rewrite fold_right_app. reflexivity. Qed.

(* every kernel procedure, in the public form *)
Theorem reported_procedures m s :
  (forall k v, reported m s (set_store m s k v)) /\
  (forall k, reported m s (set_none_raw m s k)) /\
  (forall k x, reported m s (coll_remove_raw m s k x)) /\
  (forall x f y, reported m s (update_opposite_remove m s x f y)) /\
  (forall k v, reported m s (coll_remove_full m s k v)) /\
  (forall k, reported m s (set_none_full m s k)) /\
  (forall k y, reported m s (remove_or_unset m s k y)) /\
  (forall x f v p, reported m s (update_container m s x f v p)) /\
  (forall k x, reported m s (set_obj_raw m s k x)) /\
  (forall k x, reported m s (coll_append_raw m s k x)) /\
  (forall x f y, reported m s (update_opposite_add m s x f y)) /\
  (forall x f v, reported m s (link_elem m s x f v)) /\
  (forall x f v, reported m s (unlink_elem m s x f v)) /\
  (forall k v, reported m s (snd (set_full m s k v))) /\
  (forall k pos v, reported m s (snd (coll_add_full m s k pos v))) /\
  (forall k v, reported m s (snd (coll_remove_top m s k v))) /\
  (forall x f i, f_many (fd m f) = true -> reported m s (snd (fst (coll_pop_full m s (x, f) i)))) /\
  (forall x f, f_many (fd m f) = true -> reported m s (coll_clear_full m s (x, f))) /\
  (forall x f vs, f_many (fd m f) = true -> (f_unique (fd m f) = true -> wf_cont m) -> cont_wf m s ->
     reported m s (snd (coll_extend_full m s (x, f) vs))) /\
  (forall x f i v, f_many (fd m f) = true -> f_unique (fd m f) = true ->
     reported m s (snd (coll_setitem_full m s (x, f) i v))) /\
  (forall x f i, f_many (fd m f) = true -> f_unique (fd m f) = true ->
     reported m s (snd (coll_delitem_full m s (x, f) i))) /\
  (forall x f vs, f_many (fd m f) = true -> (f_unique (fd m f) = true -> wf_cont m) -> cont_wf m s ->
     reported m s (snd (assign_full m s (x, f) vs))) /\
  (forall x f, reported m s (snd (del_full m s (x, f)))) /\
  (forall x k, reported m s (delete_step m x s k)) /\
  (forall fuel x r, reported m s (delete_obj fuel m s x r)) /\
  (forall r o, reported m s (res_append m s r o)) /\
  (forall r o, reported m s (snd (res_remove s r o))).
Proof.
  repeat split; intros; apply rep_reported.
  - apply rep_set_store.
  - apply rep_set_none_raw.
  - apply rep_coll_remove_raw.
  - apply rep_update_opposite_remove.
  - apply rep_coll_remove_full.
  - apply rep_set_none_full.
  - apply rep_remove_or_unset.
  - apply rep_update_container.
  - apply rep_set_obj_raw.
  - apply rep_coll_append_raw.
  - apply rep_update_opposite_add.
  - apply rep_link_elem.
  - apply rep_unlink_elem.
  - apply rep_set_full.
  - apply rep_coll_add_full.
  - apply rep_coll_remove_top.
  - apply rep_coll_pop_full; assumption.
  - apply rep_coll_clear_full; assumption.
  - apply rep_coll_extend_full; assumption.
  - apply rep_coll_setitem_full; assumption.
  - apply rep_coll_delitem_full; assumption.
  - apply rep_assign_full; assumption.
  - apply rep_del_full.
  - apply rep_delete_step.
  - apply rep_delete_obj.
  - apply rep_res_append.
  - apply rep_res_remove.
Qed.

Theorem reported_op m s o : cont_wf m s -> op_ok m o -> reported m s (next m s o).
Proof. intros Hc Ho. apply rep_reported. apply rep_op; assumption. Qed.

(* the invariant used by the frame facts is established by the histories themselves *)
Theorem cont_wf_history m ops :
  Forall (op_ok m) ops -> cont_wf m (fold_left (next m) ops (init_state m)).
Proof.
  intros Hok. eapply cont_wf_keeps; [apply cont_wf_init|].
  exact (proj2 (rep_history m ops (init_state m) (cont_wf_init m) Hok)).
Qed.

Theorem reported_history m ops s :
  cont_wf m s -> Forall (op_ok m) ops -> reported m s (fold_left (next m) ops s).
Proof. intros Hc Hok. apply rep_reported. apply rep_history; assumption. Qed.

(* the mirror theorem *)
Theorem mirror_history m ops :
  Forall (op_ok m) ops ->
  let s := fold_left (next m) ops (init_state m) in
  forall k, same_content (vals s k) (mirror m (log s) (vals (init_state m)) k).
Proof.
  intros Hok s k.
  destruct (reported_history m ops (init_state m) (cont_wf_init m) Hok) as [news [Hl Hv]].
  fold s in Hl, Hv. cbn [log init_state] in Hl. rewrite app_nil_r in Hl. rewrite Hl. apply Hv.
Qed.

(* for unique features (sets) the comparison gives in particular the same members *)
Theorem same_content_members l1 l2 v : same_content l1 l2 -> vmem v l1 = vmem v l2.
Proof. intros H. apply sc_vmem. exact H. Qed.

Theorem same_content_length l1 l2 : same_content l1 l2 -> length l1 = length l2.
Proof.
  revert l2. induction l1 as [|a l1 IH]; intros l2 H.
  - destruct l2 as [|b l2]; [reflexivity|]. specialize (H b). rewrite cnt_nil, cnt_cons in H.
    unfold ind in H. rewrite veqb_refl in H. discriminate.
  - assert (Hm : vmem a l2 = true).
    { rewrite vmem_cnt, <- (H a), cnt_cons. unfold ind. rewrite veqb_refl. reflexivity. }
    assert (Hr : same_content l1 (raw_remove a l2)).
    { intros w. rewrite cnt_raw_remove, Hm, <- (H w), cnt_cons. lia. }
    simpl length. rewrite (IH _ Hr). unfold raw_remove.
    destruct (remove_first veqb a l2) as [l'|] eqn:E.
    + clear -E. revert l' E. induction l2 as [|y l2 IH2]; simpl; intros l' E; [discriminate|].
      destruct (veqb y a); [inversion E; reflexivity|].
      destruct (remove_first veqb a l2) as [r|]; [|discriminate]. inversion E; subst. simpl.
      f_equal. apply IH2. reflexivity.
    + apply remove_first_none in E. congruence.
Qed.

(* completeness read the other way: a slot that no new notification names kept its content *)
Theorem unreported_unchanged m s s' k news :
  reported m s s' -> log s' = news ++ log s -> Forall (fun n => ncell n <> k) news ->
  same_content (vals s' k) (vals s k).
Proof.
  intros Hr Hl Hq. apply reported_cells in Hr. destruct Hr as [n1 [L1 V1]].
  assert (E : n1 = news) by (apply (app_inv_tail (log s)); congruence). subst n1.
  specialize (V1 k). rewrite (mcell_quiet m news k _ Hq) in V1. exact V1.
Qed.

(* ------------------------------------------------------------------ *)
(* what is false of the model (and of the implementation)               *)
(* ------------------------------------------------------------------ *)
Definition run (m : mm) (ops : list op) : state := fold_left (next m) ops (init_state m).
Definition observed (m : mm) (ops : list op) (k : cell) : list value :=
  mirror m (log (run m ops)) (vals (init_state m)) k.

Definition mm_list : mm :=
  {| feats := [ {| f_owner := 0; f_isref := false; f_many := true; f_unique := false; f_cont := false;
                   f_opp := None; f_type := TInt; f_default := VNone |} ];
     conf := [(0, 0)]; ocls := [0]; enames := []; nres := 0 |}.

(* known finding F-C05-elist-item-write: del c[i] and c[i] = v on a list-based collection *)
Example item_write_refuted :
  let del := [OAppend 0 0 (VInt 7); ODelItem 0 0 0%Z] in
  let set := [OAppend 0 0 (VInt 7); OSetItem 0 0 0%Z (VInt 8)] in
  vals (run mm_list del) (0, 0) = [] /\ observed mm_list del (0, 0) = [VInt 7] /\
  vals (run mm_list set) (0, 0) = [VInt 8] /\ observed mm_list set (0, 0) = [VInt 7; VInt 8].
Proof. vm_compute. repeat split; reflexivity. Qed.

Definition rf (many cont : bool) (opp : option fid) : fdecl :=
  {| f_owner := 0; f_isref := true; f_many := many; f_unique := true; f_cont := cont;
     f_opp := opp; f_type := TClass 0; f_default := VNone |}.

(* a containment g whose opposite f is MANY-valued (wf_cont fails): x.f.extend([p, b]) with
   x contained in p.g moves x into b.g, which removes p from x.f between the silent write of
   the own slot and the ADD_MANY: the observer ends with [p; b], the object holds [b] *)
Definition mm_badcont : mm :=
  {| feats := [ rf true false (Some 1); rf true true (Some 0) ];
     conf := [(0, 0)]; ocls := [0; 0; 0]; enames := []; nres := 0 |}.

Example extend_needs_wf_cont_refuted :
  let ops := [OAppend 1 1 (VObj 0); OExtend 0 0 [VObj 1; VObj 2]] in
  vals (run mm_badcont ops) (0, 0) = [VObj 2] /\
  observed mm_badcont ops (0, 0) = [VObj 1; VObj 2] /\
  ~ wf_cont mm_badcont.
Proof.
  split; [vm_compute; reflexivity|]. split; [vm_compute; reflexivity|].
  intros H. destruct (H 0 1 eq_refl eq_refl) as [H1 _]. discriminate.
Qed.

(* non-vacuity: a bidirectional many-many reference, a containment with its container end and an
   attribute; the history moves a child, extends, pops and deletes; the mirror holds at every cell *)
Definition mm_ok : mm :=
  {| feats := [ rf true false (Some 1); rf true false (Some 0);       (* 0 <-> 1, many-many *)
                rf true true (Some 3); rf false false (Some 2) ];     (* 2 kids <-> 3 parent *)
     conf := [(0, 0)]; ocls := [0; 0; 0; 0]; enames := []; nres := 0 |}.

Example mirror_witness :
  let ops := [OAppend 0 2 (VObj 1); OExtend 2 2 [VObj 1; VObj 3]; OExtend 0 0 [VObj 1; VObj 2];
              OSet 3 3 (VObj 0); OPop 0 0 0%Z; OSetItem 2 2 0%Z (VObj 0); ODelete 1 true] in
  wf_cont mm_ok /\ Forall (op_ok mm_ok) ops /\
  map n_kind (log (run mm_ok ops)) <> [] /\
  forallb (fun k => match vals (run mm_ok ops) k, observed mm_ok ops k with
                    | l1, l2 => forallb (fun v => vmem v l2) l1 && forallb (fun v => vmem v l1) l2 end)
          (list_prod [0; 1; 2; 3] [0; 1; 2; 3]) = true.
Proof.
  assert (Hw : wf_cont mm_ok).
  { intros f g Hfg Hc. destruct f as [|[|[|[|f]]]]; destruct g as [|[|[|[|g]]]];
      try discriminate; try (split; reflexivity).
    all: try (destruct f as [|[|f]]; discriminate).
    all: try (destruct g as [|[|g]]; discriminate). }
  split; [exact Hw|]. split.
  { repeat (apply Forall_cons;
      [cbn [op_ok]; try exact I; try reflexivity;
       try (split; [reflexivity | try reflexivity; intros _; exact Hw])|]).
    apply Forall_nil. }
  split; [vm_compute; discriminate | vm_compute; reflexivity].
Qed.
