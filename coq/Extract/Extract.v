(* Extraction of the executable models (trusted base: ExtrOcamlBasic only;
   Z, positive and nat stay extracted inductive datatypes). *)
From Coq Require Import ExtrOcamlBasic.
From PyecoreV Require Import Model.Coll Model.KernelIO.
Extraction "modelgen.ml" run_coll run_kernel.
