(* Value round trip of the JSON attribute mapping (Model/JsonVal.v). *)
From Coq Require Import ZArith List Bool.
From PyecoreV Require Import Model.XmiAttr Model.JsonVal.
Import ListNotations.
Open Scope Z_scope.

Section RoundTrip.
  Variable O : Type.
  Variable to_string : O -> str.
  Variable from_string : str -> option O.
  (* the C17 statement for the non-native data types: from_string (to_string v) = v *)
  Hypothesis conv_roundtrip : forall o, from_string (to_string o) = Some o.

  Theorem json_value_roundtrip t (v : pyv O) :
    well_typed t v -> from_json from_string t (to_json to_string t v) = v.
  Proof.
    destruct v, t; simpl; intros H; try contradiction; try reflexivity.
    rewrite conv_roundtrip. reflexivity.
  Qed.

  Theorem json_values_roundtrip t (vs : list (pyv O)) :
    Forall (well_typed t) vs ->
    map (from_json from_string t) (map (to_json to_string t) vs) = vs.
  Proof.
    induction 1 as [|v vs Hv _ IH]; simpl; [reflexivity|].
    rewrite (json_value_roundtrip t v Hv), IH. reflexivity.
  Qed.

  (* values keep their JSON-native type: number / boolean / string, and only None becomes null *)
  Theorem json_native_kind t (v : pyv O) :
    well_typed t v -> v <> PNone ->
    kind_of (to_json to_string t v) = kind_of_tag t.
  Proof.
    destruct v, t; simpl; intros H N; try contradiction; try reflexivity; congruence.
  Qed.

  Theorem json_null_iff_none t (v : pyv O) :
    well_typed t v -> (to_json to_string t v = JNull <-> v = PNone).
  Proof.
    destruct v, t; simpl; intros H; try contradiction; split; intros E;
      try reflexivity; try discriminate.
  Qed.
End RoundTrip.

(* the extracted instance (an object is named by its canonical text) meets the hypothesis *)
Lemma text_instance_roundtrip : forall o : str, (fun s : str => Some s) ((fun s : str => s) o) = Some o.
Proof. reflexivity. Qed.
