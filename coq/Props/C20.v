(* C20 — declared operations are callable with their declared signature.
   Statements only; proofs are in Proofs/OperationsProofs.v and
   Proofs/MetaEditProofs.v.  Models: Model/Operations.v (the generated def
   header as data, Python's def, inspect.signature, Core._promote) and
   Model/MetaEdit.v (class namespaces, linearisation, lookup on instances).

   Full strength: the signature theorems hold for EVERY parameter list; the
   reflection theorem for every class body.  `_partial`: the theorems that a
   method is actually created assume names_ok -- names Python and
   RestrictedPython accept and defaults that are values (DLit).  What is
   missing there is exactly the known finding about names (operation /
   parameter names starting with an underscore or reserved by RestrictedPython),
   shown below as a `_refuted` example.  (Every default pyecore produces is a
   value since /repo fix 3896d2a -- enumeration literals included, the former
   finding F-C20-enum-default; a default pasted as non-expression text, DEnum,
   is kept in the model as the witness of why the old rendering failed.) *)
From Coq Require Import String Ascii ZArith Bool List.
From PyecoreV Require Import Lib.PyBase Lib.PyList Model.C3 Model.Operations Model.MetaEdit Proofs.OperationsProofs Proofs.MetaEditProofs.
Import ListNotations.
Open Scope Z_scope.

(* the method is named after the operation; Python keywords get one trailing underscore *)
Theorem C20_method_name :
  forall n ps,
    h_name (to_code n ps) = normalized_name n /\
    (is_keyword n = true -> normalized_name n = n ++ [95]) /\
    (is_keyword n = false -> normalized_name n = n).
Proof. exact method_name_spec. Qed.
Print Assumptions C20_method_name.

(* the generated header: self, then exactly the declared parameters in order,
   a parameter bare iff it is required *)
Theorem C20_header_is_declaration :
  forall ps, no_self ps ->
    map pc_name (sig_of ps) = SELF :: map p_name ps /\
    forall i p, nth_error ps i = Some p ->
      exists c, nth_error (sig_of ps) (S i) = Some c /\ pc_name c = p_name p /\
                (pc_default c = None <-> p_required p = true).
Proof. exact sig_of_declared. Qed.
Print Assumptions C20_header_is_declaration.

(* Python accepts the header iff no required parameter follows an optional one *)
Theorem C20_valid_iff_required_first :
  forall n ps, names_ok n ps ->
    ((exists s, py_def (to_code n ps) = inr s) <-> well_ordered false ps = true).
Proof. exact def_valid_iff. Qed.
Print Assumptions C20_valid_iff_required_first.

(* whenever the method exists, inspect.signature of the bound method is the declaration *)
Theorem C20_signature_is_declaration :
  forall n ps s, no_self ps -> py_def (to_code n ps) = inr s ->
    a_args s = SELF :: map p_name ps /\ bound_signature s = map view_of ps.
Proof. exact bound_signature_declared. Qed.
Print Assumptions C20_signature_is_declaration.

(* any number of required parameters followed by any number of optional ones *)
Theorem C20_required_then_optional_partial :
  forall n reqs opts,
    (forall p, In p reqs -> p_required p = true) ->
    (forall p, In p opts -> p_required p = false) ->
    names_ok n (reqs ++ opts) ->
    exists s, py_def (to_code n (reqs ++ opts)) = inr s /\
      h_name (to_code n (reqs ++ opts)) = normalized_name n /\
      bound_signature s =
        map (fun p => (p_name p, None)) reqs ++
        map (fun p => (p_name p, Some (match p_default p with DLit t => TLit t | DEnum t => TBare t end))) opts.
Proof. exact req_opt_signature. Qed.
Print Assumptions C20_required_then_optional_partial.

(* reflecting the generated function gives the declaration back: same names, same required/optional split *)
Theorem C20_reflection_roundtrip :
  forall n ps s, no_self ps -> py_def (to_code n ps) = inr s ->
    map decl_view (promote_spec s) = (SELF, true) :: map decl_view ps.
Proof. exact promote_roundtrip. Qed.
Print Assumptions C20_reflection_roundtrip.

(* static classes: a member is reflected iff it is a function whose first
   parameter is self and whose name does not start with two underscores; its
   parameters mirror the signature *)
Theorem C20_static_reflection :
  forall cls b n ps,
    In (n, ps) (promote cls b) <->
    exists s, In (n, MFunc s) b /\ starts_dunder n = false /\ first_is_self s = true /\ ps = promote_spec s.
Proof. exact promote_exactly. Qed.
Print Assumptions C20_static_reflection.

(* adding the operation to class c gives the stub to every class that reaches
   c in its linearisation before another provider of the name *)
Theorem C20_add_gives_method :
  forall st st' r c o s d l1 l2,
    step (AddOp c o) st = (st', r) -> getc st c <> None ->
    py_def (to_code (o_name o) (o_params o)) = inr s ->
    mro st d = Some (l1 ++ c :: l2) ->
    (forall x, In x l1 -> x <> c /\ ns_get (normalized_name (o_name o)) (ns_of st x) = None) ->
    r = ROk [] /\ mro st' d = Some (l1 ++ c :: l2) /\
    class_lookup st' d (normalized_name (o_name o)) = Some (EFun s).
Proof. exact add_op_lookup. Qed.
Print Assumptions C20_add_gives_method.

(* the stub shows the declared signature and raises NotImplementedError for an acceptable call *)
Theorem C20_stub_raises_NotImplementedError :
  forall st i n s k,
    getattr_m st i n = (st, GFun s) ->
    step (Sig i n) st = (st, ROk (0 :: enc_view (bound_signature s))) /\
    (accepts s (Z.to_nat k) = true -> step (Call i n k) st = (st, RErr XNotImpl)) /\
    (accepts s (Z.to_nat k) = false -> step (Call i n k) st = (st, RErr XType)).
Proof. exact stub_behaviour. Qed.
Print Assumptions C20_stub_raises_NotImplementedError.

Theorem C20_stub_arity :
  forall n ps s k, no_self ps -> py_def (to_code n ps) = inr s ->
    (accepts s k = true <-> (length (filter p_required ps) <= k <= length ps)%nat).
Proof. exact accepts_declared. Qed.
Print Assumptions C20_stub_arity.

(* removing the operation removes the method wherever c was its only provider *)
Theorem C20_remove_removes_method :
  forall st st' c n d l,
    Inv st -> step (RemoveOp c n) st = (st', ROk []) ->
    mro st d = Some l ->
    (forall x, In x l -> x <> c -> ns_get (normalized_name n) (ns_of st x) = None) ->
    mro st' d = Some l /\ class_lookup st' d (normalized_name n) = None.
Proof. exact remove_op_lookup. Qed.
Print Assumptions C20_remove_removes_method.

Theorem C20_no_method_raises_AttributeError :
  forall st i n k,
    getattr_m st i n = (st, GAbsent) ->
    step (Sig i n) st = (st, RErr XAttr) /\ step (Call i n k) st = (st, RErr XAttr).
Proof. exact absent_behaviour. Qed.
Print Assumptions C20_no_method_raises_AttributeError.

(* the namespace invariant used above is kept by every edit (shared with C12) *)
Theorem C20_edits_keep_the_mirror :
  forall o st st' r, Inv st -> step o st = (st', r) -> side_condition o r -> Inv st'.
Proof. exact step_preserves_Inv. Qed.
Print Assumptions C20_edits_keep_the_mirror.

(* ---------- witnesses ---------- *)

Local Open Scope string_scope.
Definition P (s : string) (rq : bool) (t : Z) : param := mkParam (of_string s) rq (DLit t).

(* non-vacuity: operation `class`(a, b, d=<lit 1>) declared on class 1 of A <- B <- C,
   seen from an instance of C created before: method class_, signature, NotImplementedError, removal *)
Example C20_witness :
  let o := mkOper (of_string "class") [P "a" true 0; P "b" true 0; P "d" false 1] in
  let h := [NewClass []; NewClass [1]; NewClass [2]; NewInst 3; AddOp 1 o] in
  let st := fold_left next h (empty_state false) in
  snd (step (Sig 0 (of_string "class_")) st)
    = ROk (0 :: enc_view [(of_string "a", None); (of_string "b", None); (of_string "d", Some (TLit 1))]) /\
  snd (step (Call 0 (of_string "class_") 2) st) = RErr XNotImpl /\
  snd (step (Call 0 (of_string "class_") 1) st) = RErr XType /\
  snd (step (Sig 0 (of_string "class")) st) = RErr XAttr /\
  snd (step (Sig 0 (of_string "class_")) (next st (RemoveOp 1 (of_string "class")))) = RErr XAttr.
Proof. vm_compute. repeat split; reflexivity. Qed.

(* known finding F-C20-restricted-name: an identifier that starts with an
   underscore is a legal operation name, but no method is created *)
Example C20_restricted_name_refuted :
  well_ordered false [P "a" true 0] = true /\
  py_def (to_code (of_string "_hidden") [P "a" true 0]) = inl SyntaxErr.
Proof. vm_compute. split; reflexivity. Qed.

(* a default pasted into the source as text that is not an expression (what pyecore did for an optional
   parameter typed by an EEnum before /repo fix 3896d2a) does not compile; no longer reachable from pyecore *)
Example C20_pasted_enum_default_does_not_compile :
  let ps := [P "a" true 0; mkParam (of_string "d") false (DEnum 7)] in
  well_ordered false ps = true /\ py_def (to_code (of_string "run") ps) = inl SyntaxErr.
Proof. vm_compute. split; reflexivity. Qed.

(* outside the property: a required parameter after an optional one *)
Example C20_ill_ordered :
  py_def (to_code (of_string "run") [P "d" false 1; P "a" true 0]) = inl SyntaxErr.
Proof. vm_compute. reflexivity. Qed.

(* the private method of a static class is not reflected; the plain ones are *)
Example C20_private_method_witness :
  let m (args : list string) := MFunc (mkSpec (map of_string args) []) in
  promote (of_string "A")
    [(of_string "__secret", m ["self"; "k"]); (of_string "run", m ["self"; "x"]);
     (of_string "__init__", m ["self"]); (of_string "helper", m ["x"]); (of_string "st", MStatic)]
  = [(of_string "run", [mkParam (of_string "self") true (DLit 0); mkParam (of_string "x") true (DLit 0)])].
Proof. vm_compute. reflexivity. Qed.
