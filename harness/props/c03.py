"""C03 — kernel property: see DESIGN.md section 5 and harness/kprop.py."""
from harness import common, kgen, kprop

PID = 'C03'


def gen_mixed_bulk_case(rng):
    """bulk writes (extend / update / += / whole-collection assignment) whose argument holds conforming values FIRST and a
    non-conforming value of the same Python class AFTER them (an enumeration literal of another enumeration, the name
    of no literal, an object of a class outside the hierarchy): the whole call must be refused"""
    t = rng.choice(['aes', 'aes', 'aes', 'ains', 'ainl', 'asl', 'rn', 'rl', 'rbag', 'pnn', 'cn', 'snn'])
    mm = kgen.make_mm([t])
    objs = ['A', 'B', 'B', 'B', 'B', 'A', 'A2']
    ff = kgen.flat_features(mm)
    cands = [(o, fi) for o in range(len(objs)) for fi in kgen.applicable(mm, objs[o]) if ff[fi][1]['many']]
    o, fi = rng.choice(cands)
    fd = ff[fi][1]
    hist = []
    for _ in range(rng.randrange(0, 3)):
        hist.append(['append', o, fi, kgen.conforming_values(mm, objs, fd, rng, False)])
    for _ in range(rng.randrange(1, 4)):
        goods = [kgen.conforming_values(mm, objs, fd, rng, False) for _ in range(rng.randrange(1, 4))]
        bad = None
        for _try in range(12):       # prefer a bad value with the tag (Python class) of one of the good ones
            b = kgen.conforming_values(mm, objs, fd, rng, True)
            if b is not None and any(g is not None and g[0] == b[0] for g in goods):
                bad = b
                break
            bad = bad or b
        vals = goods + ([bad] if bad is not None and rng.random() < 0.8 else []) + \
            ([kgen.conforming_values(mm, objs, fd, rng, False)] if rng.random() < 0.3 else [])
        k = rng.choice(['extend', 'iadd', 'assign'] + (['update'] if fd['unique'] else []))
        hist.append([k, o, fi, [v for v in vals if v is not None]])
        if rng.random() < 0.4:
            hist.append(['read', o, fi, 'attr'])
    return {'mm': mm, 'templates': [t], 'objs': objs, 'nres': 0, 'strings': kgen.STRINGS, 'history': hist}


def run(ctx, out):
    rng = common.rng_for(ctx.seed, 'C03:mixedbulk')
    extra = [gen_mixed_bulk_case(rng) for _ in range(300 if ctx.tier != 'thorough' else 6000)]
    kprop.run(ctx, out, PID, ['C03'], {'outcome','values','isset'}, 2000, 40000, pool=None, weights={'res':0.02,'delete':0.02}, p_wrong=0.3,
              extra_cases=extra)


def replay(ctx, rep):
    from harness import krun, common
    case = rep['case']
    if case.get('scenario'):
        return common.scenario_replay(ctx, rep, {'asym': asym_scenarios, 'hierarchy': hierarchy_scenarios,
                                                 'retype': retype_scenarios, 'generic': generic_retype_scenarios,
                                                 'enum': enum_edit_scenarios, 'slice': slice_scenarios,
                                                 'illtyped': illtyped_document_scenarios,
                                                 'homonym': homonym_document_scenarios})
    r = krun.Run(case, ['C03']).run()
    for s in r.steps:
        print(s['op'], '->', s['outcome'])
    if r.failure:
        print('REPRODUCED', r.failure['property'], r.failure['clause'], r.failure['detail'])
        return 1
    print('not reproduced')
    return 0


def retype_scenarios(ctx, out):
    """metamodel edits interleaved with stores: after `feature.eType = T2`, values are checked against T2
    on EVERY instance, also on slots that were already used (oracle on the implementation only)."""
    from harness import common
    common.use_repo()
    from pyecore import ecore as E
    rng = common.rng_for(ctx.seed, 'C03:retype')
    types = [('EInt', E.EInt, [3, -1], ['x']), ('EString', E.EString, ['a', ''], [4, 1.5]),
             ('EBoolean', E.EBoolean, [True], ['t', 7]), ('EDouble', E.EDouble, [1.5], [2, 'z'])]
    n = 60 if ctx.tier != 'thorough' else 1500
    cnt = 0
    for i in range(n):
        many = rng.random() < 0.4
        t1, t2 = rng.sample(types, 2)
        A = E.EClass('A')
        f = E.EAttribute('v', t1[1], upper=-1 if many else 1)
        A.eStructuralFeatures.append(f)
        used, fresh = A(), A()
        hist = []
        for _ in range(rng.randrange(0, 3)):          # the slot is used (type-checked) before the edit
            v = rng.choice(t1[2] + [None])
            try:
                if many:
                    if v is not None:
                        used.v.append(v)
                else:
                    used.v = v
                hist.append(['store', v])
            except Exception:   # noqa
                pass
        # an ordinary observer on the FEATURE being re-typed: it either writes (a migration: the new type is already in
        # force inside the callback) or vetoes by raising (the re-typing has happened all the same)
        mode = rng.choice([None, None, 'writes', 'raises'])
        inside = []
        if mode:
            from pyecore.notification import EObserver

            def cb(nf, mode=mode):
                if getattr(nf.feature, 'name', None) != 'eType':
                    return
                if mode == 'raises':
                    raise RuntimeError('veto')
                w = A()
                for v, conforming in [(t2[2][0], True), (t2[3][0], False)]:
                    try:
                        if many:
                            w.v.append(v)
                        else:
                            w.v = v
                        r = None
                    except E.BadValueError:
                        r = 'BadValueError'
                    except Exception as e:  # noqa
                        r = type(e).__name__
                    inside.append((v, conforming, r))
            EObserver(f, notifyChanged=cb)
        try:
            f.eType = t2[1]
        except RuntimeError:
            pass
        hist.append(['retype', t1[0], t2[0], mode])
        for v, conforming, r in inside:
            cnt += 1
            if (conforming and r is not None) or (not conforming and r != 'BadValueError'):
                out.fail({'property': 'C03', 'clause': 'accept-after-retype' if conforming else 'reject-after-retype', 'slot': 'inside-observer', 'many': many},
                         f'inside an observer of the feature while it is re-typed {t1[0]}->{t2[0]}: storing {v!r} gave {r}',
                         {'scenario': 'retype', 'seed': ctx.seed, 'tier': ctx.tier, 'many': many, 'history': hist + [['store-inside', repr(v)]]})
        for obj, who in ((used, 'used-slot'), (fresh, 'fresh-instance')):
            for v, conforming in [(x, True) for x in t2[2]] + [(x, False) for x in t2[3] + t1[2] if not _conf(x, t2[0])]:
                cnt += 1
                try:
                    if many:
                        obj.v.append(v)
                    else:
                        obj.v = v
                    raised = None
                except E.BadValueError:
                    raised = 'BadValueError'
                except Exception as e:  # noqa
                    raised = type(e).__name__
                case = {'scenario': 'retype', 'seed': ctx.seed, 'tier': ctx.tier, 'many': many, 'history': hist + [['store-on', who, repr(v)]]}
                if conforming and raised == 'BadValueError':
                    out.fail({'property': 'C03', 'clause': 'accept-after-retype', 'slot': who, 'many': many},
                             f'after retyping {t1[0]}->{t2[0]} the conforming value {v!r} is refused on a {who}', case)
                if not conforming and raised != 'BadValueError':
                    out.fail({'property': 'C03', 'clause': 'reject-after-retype', 'slot': who, 'many': many},
                             f'after retyping {t1[0]}->{t2[0]} the non-conforming value {v!r} gives {raised} on a {who}', case)
    out.coverage['retype_stores_checked'] = cnt


def _conf(v, tname):
    if tname == 'EInt':
        return isinstance(v, int)
    if tname == 'EString':
        return isinstance(v, str)
    if tname == 'EBoolean':
        return isinstance(v, bool)
    if tname == 'EDouble':
        return isinstance(v, float)
    return False


_kernel_run = run


def run(ctx, out):   # noqa: F811
    _kernel_run(ctx, out)
    retype_scenarios(ctx, out)


# ---------------------------------------------------------------------------
# class-level scenarios (oracle on the implementation only): the kernel model
# works on a fixed conformance table; these exercise what feeds that table.

def _dump(objs, feats):
    d = {}
    for i, o in enumerate(objs):
        for fn in feats:
            if o.eClass.findEStructuralFeature(fn) is None:
                continue
            v = o.eGet(fn)
            if hasattr(v, '__iter__') and not isinstance(v, str):
                d[f'{i}.{fn}'] = [objs.index(x) if x in objs else repr(x) for x in v]
            else:
                d[f'{i}.{fn}'] = None if v is None else (objs.index(v) if v in objs else repr(v))
            d[f'{i}.{fn}.set'] = bool(o.eIsSet(fn))
        c = o.eContainer()
        d[f'{i}.container'] = None if c is None else (objs.index(c) if c in objs else '?')
    return d


def _store(E, obj, fname, many, path, v, keep=True):
    """one public mutation path; returns None or the exception class name"""
    try:
        if many:
            coll = obj.eGet(fname)
            if path == 'append':
                coll.append(v)
            elif path == 'extend':
                coll.extend([v])
            elif path == 'insert':
                coll.insert(0, v)
            elif path == 'iadd':
                coll += [v]
            elif path == 'assign':
                setattr(obj, fname, (list(coll) if keep else []) + [v])
            elif path == 'setitem':
                if len(coll):
                    coll[0] = v
                else:
                    coll.append(v)
            else:
                raise AssertionError(path)
        else:
            if path == 'attr':
                setattr(obj, fname, v)
            elif path == 'eSet':
                obj.eSet(fname, v)
            elif path == 'eSetFeature':
                obj.eSet(obj.eClass.findEStructuralFeature(fname), v)
            else:
                raise AssertionError(path)
        return None
    except E.BadValueError:
        return 'BadValueError'
    except Exception as e:  # noqa
        return type(e).__name__


MANY_PATHS = ['append', 'extend', 'insert', 'iadd', 'assign', 'setitem']
ONE_PATHS = ['attr', 'eSet', 'eSetFeature']


def asym_scenarios(ctx, out, pid='C03'):
    """bidirectional references whose far end is typed by a SUBCLASS of the class declaring the near end
    (legal Ecore: the opposite is an inherited feature of the far end's type).  A store through the near end
    by an owner the far end cannot hold must raise BadValueError and change nothing; no slot may ever show
    a value outside its declared type."""
    from harness import common
    common.use_repo()
    from pyecore import ecore as E
    rng = common.rng_for(ctx.seed, f'{pid}:asym')
    n = 40 if ctx.tier != 'thorough' else 600
    cnt = rej = 0
    for it in range(n):
        near_many = rng.random() < 0.5
        far_many = rng.random() < 0.6
        unique = True       # many-valued ends of a bidirectional reference are unique (EMF's rule; wf_mm)
        rng.random()
        cont = rng.choice([None, None, 'far']) if not near_many else None   # far end containment => near end is the container end
        Node = E.EClass('Node')
        File = E.EClass('File', superclass=(Node,))
        Link = E.EClass('Link', superclass=(Node,))
        Holder = E.EClass('Holder')
        near = E.EReference('near', Holder, upper=-1 if near_many else 1, unique=unique)
        far = E.EReference('far', File, upper=-1 if far_many else 1, unique=unique, containment=(cont == 'far'),
                           eOpposite=near)
        Node.eStructuralFeatures.append(near)
        Holder.eStructuralFeatures.append(far)
        objs = [Holder(), Holder(), File(), File(), Link(), Node()]
        classes = ['Holder', 'Holder', 'File', 'File', 'Link', 'Node']
        feats = ['near', 'far']
        hist = []
        conf = {'near_many': near_many, 'far_many': far_many, 'unique': unique, 'containment': cont}
        for step in range(rng.randrange(3, 9)):
            oi = rng.randrange(2, 6)          # a Node of some kind stores through the near end ...
            hi = rng.randrange(0, 2)
            if not near_many and rng.random() < 0.2:
                # None is a value of every single-valued reference, whoever the owner is (also one the far end
                # could never hold): unsetting is always accepted
                how = rng.choice(['attr', 'eset', 'del'])
                try:
                    if how == 'attr':
                        objs[oi].near = None
                    elif how == 'eset':
                        objs[oi].eSet('near', None)
                    else:
                        del objs[oi].near
                    r0 = None
                except Exception as e:  # noqa
                    r0 = type(e).__name__
                hist.append([oi, 'near', 'unset-' + how, None, r0])
                cnt += 1
                if r0 is not None:
                    out.fail({'property': pid, 'clause': 'none-refused', 'near_many': near_many, 'far_many': far_many},
                             f'{hist[-1]}: unsetting the single-valued near end of a {classes[oi]} gave {r0}',
                             {'scenario': 'asym', 'seed': ctx.seed, 'tier': ctx.tier, 'conf': conf, 'history': [list(h) for h in hist]})
                    break
                continue
            through_far = rng.random() < 0.25  # ... or a Holder stores directly into the far end
            if through_far:
                obj, fname, many, v = objs[hi], 'far', far_many, objs[oi]
                ok = classes[oi] == 'File'
            else:
                obj, fname, many, v = objs[oi], 'near', near_many, objs[hi]
                ok = classes[oi] == 'File'
            path = rng.choice(MANY_PATHS if many else ONE_PATHS)
            before = _dump(objs, feats)
            raised = _store(E, obj, fname, many, path, v)
            reps = 0
            while not ok and raised == 'BadValueError' and reps < 2 and _dump(objs, feats) == before:
                # a refused call is refused again, however often it is repeated on the same slot
                reps += 1
                raised = _store(E, obj, fname, many, path, v)
            after = _dump(objs, feats)
            hist.append([objs.index(obj), fname, path, objs.index(v), raised] + ([f'x{reps + 1}'] if reps else []))
            cnt += 1
            case = {'scenario': 'asym', 'seed': ctx.seed, 'tier': ctx.tier, 'conf': conf, 'history': [list(h) for h in hist]}
            sig = {'property': pid, 'clause': None, 'near_many': near_many, 'far_many': far_many}
            # (0) the two ends agree, whatever happened
            asym = None
            for hi_, h in enumerate(objs):
                if classes[hi_] != 'Holder':
                    continue
                hf = list(h.far) if far_many else ([h.far] if h.far is not None else [])
                for ni_, nd in enumerate(objs):
                    if classes[ni_] == 'Holder':
                        continue
                    nn = list(nd.near) if near_many else ([nd.near] if nd.near is not None else [])
                    if (nd in hf) != (h in nn):
                        asym = f'obj{ni_} in obj{hi_}.far is {nd in hf} but obj{hi_} in obj{ni_}.near is {h in nn}'
            if asym:
                sig['clause'] = 'ends-disagree'
                out.fail(sig, f'after {hist[-1]} (raised: {raised}): {asym}', case)
                break
            # (1) nothing outside its type, anywhere
            for i, o in enumerate(objs):
                if classes[i] == 'Holder':
                    vs = o.far if far_many else ([o.far] if o.far is not None else [])
                    bad = [objs.index(x) for x in vs if not isinstance(x, File.python_class)]
                    if bad:
                        sig['clause'] = 'nonconforming-value-stored'
                        out.fail(sig, f'Holder.far (typed File) holds objects {bad} of classes {[classes[b] for b in bad]} '
                                      f'after {hist[-1]} (raised: {raised})', case)
                        break
            else:
                if not ok:
                    rej += 1
                    if raised != 'BadValueError':
                        sig['clause'] = 'not-rejected'
                        out.fail(sig, f'{hist[-1]}: the far end cannot hold a {classes[oi]} but the call gave {raised}', case)
                    elif before != after:
                        ch = sorted(k for k in after if before.get(k) != after[k])
                        sig['clause'] = 'rejected-but-changed'
                        out.fail(sig, f'{hist[-1]} raised BadValueError but changed {ch}', case)
                    else:
                        continue
                    break
                elif raised == 'BadValueError':
                    sig['clause'] = 'conforming-refused'
                    out.fail(sig, f'{hist[-1]}: conforming store refused', case)
                    break
                continue
            break
    out.coverage['asym_opposite_stores'] = cnt
    out.coverage['asym_opposite_expected_rejections'] = rej


def _linearizable(supers, n):
    """would Python accept this class graph?  (C3 conflicts are C12's subject; they are not generated here)"""
    built = {}

    def mk(i, seen=()):
        if i in built:
            return built[i]
        if i in seen:
            raise TypeError('cycle')
        bases = tuple(mk(j, seen + (i,)) for j in supers[i]) or (object,)
        built[i] = type(f'K{i}', bases, {})
        return built[i]
    try:
        for i in range(n):
            mk(i)
        return True
    except TypeError:
        return False


def hierarchy_scenarios(ctx, out):
    """eSuperTypes edited at run time (several super types, removal of one of them, re-adding), interleaved
    with stores: a candidate conforms to a feature typed T iff T is its class or in the transitive closure of
    the CURRENT eSuperTypes, for instances created before and after the edit, on used and fresh slots."""
    from harness import common
    common.use_repo()
    from pyecore import ecore as E
    rng = common.rng_for(ctx.seed, 'C03:hierarchy')
    n = 40 if ctx.tier != 'thorough' else 600
    NK = 5
    cnt = edits = 0
    for it in range(n):
        K = [E.EClass(f'K{i}') for i in range(NK)]
        Holder = E.EClass('Holder')
        for i in range(NK):
            Holder.eStructuralFeatures.append(E.EReference(f'r{i}', K[i]))
            Holder.eStructuralFeatures.append(E.EReference(f'm{i}', K[i], upper=-1))
        supers = {i: [] for i in range(NK)}
        for i in range(NK):                      # an initial DAG, often with two super types
            for j in rng.sample(range(i + 1, NK), min(NK - i - 1, rng.choice([0, 1, 2, 2]))):
                trial = {k: list(v) for k, v in supers.items()}
                trial[i].append(j)
                if _linearizable(trial, NK):
                    K[i].eSuperTypes.append(K[j])
                    supers = trial
        inst = {i: [K[i]()] for i in range(NK)}
        holders = [Holder()]
        hist = [['init', {str(k): v for k, v in supers.items()}]]
        failed = False

        def closure_of(ki):
            closure, todo = set(), [ki]
            while todo:
                c = todo.pop()
                if c not in closure:
                    closure.add(c)
                    todo += supers[c]
            return closure

        def store(ti, ki, many, path, h, v, as_proxy=False):
            nonlocal cnt, failed
            ok = ti in closure_of(ki)
            real = v
            if as_proxy:
                # the value offered is a RESOLVED proxy of the instance (what a followed cross-resource reference is):
                # it conforms exactly when its target does
                v = E.EProxy(wrapped=v)
            # (values stored before an edit may no longer conform: whole-collection assignment replaces them)
            raised = _store(E, h, f'{"m" if many else "r"}{ti}', many, path, v, keep=False)
            hist.append(['store', holders.index(h), f'{"m" if many else "r"}{ti}', path, ki, inst[ki].index(real), raised] +
                        (['through-resolved-proxy'] if as_proxy else []))
            cnt += 1
            case = {'scenario': 'hierarchy', 'seed': ctx.seed, 'tier': ctx.tier, 'history': [list(x) for x in hist]}
            sig = {'property': 'C03', 'clause': None, 'many': many}
            if ok and raised is not None:
                sig['clause'] = 'conforming-refused-after-hierarchy-edit'
                out.fail(sig, f'K{ki} conforms to K{ti} (super types {supers}) but the store gave {raised}', case)
                failed = True
            if not ok and raised != 'BadValueError':
                sig['clause'] = 'nonconforming-accepted-after-hierarchy-edit'
                out.fail(sig, f'K{ki} does not conform to K{ti} (super types {supers}) but the store gave {raised}', case)
                failed = True
            hist.pop()

        for step in range(rng.randrange(3, 9)):
            r = rng.random()
            if r < 0.7:
                i = rng.randrange(NK)
                if supers[i] and rng.random() < 0.6:
                    j = rng.choice(supers[i])
                    trial = {k: list(v) for k, v in supers.items()}
                    trial[i].remove(j)
                    how = rng.choice(['remove', 'pop'])
                    if how == 'remove':
                        K[i].eSuperTypes.remove(K[j])
                    else:
                        K[i].eSuperTypes.pop(supers[i].index(j))
                    supers = trial
                    hist.append(['unsuper', i, j, how])
                else:
                    j = rng.randrange(NK)
                    trial = {k: list(v) for k, v in supers.items()}
                    if j == i or j in trial[i]:
                        continue
                    trial[i].append(j)
                    if not _linearizable(trial, NK):
                        continue
                    K[i].eSuperTypes.append(K[j])
                    supers = trial
                    hist.append(['super', i, j])
                edits += 1
            elif r < 0.85:
                i = rng.randrange(NK)
                inst[i].append(K[i]())
                hist.append(['new', i])
            else:
                holders.append(Holder())
                hist.append(['newholder'])
            # after every step: every (feature type, candidate class) pair through one path each
            for ti in range(NK):
                for ki in range(NK):
                    many = rng.random() < 0.5
                    store(ti, ki, many, rng.choice(MANY_PATHS if many else ONE_PATHS), rng.choice(holders), rng.choice(inst[ki]),
                          as_proxy=rng.random() < 0.25)
                    if failed:
                        break
                if failed:
                    break
            if failed:
                break
    out.coverage['hierarchy_stores_checked'] = cnt
    out.coverage['hierarchy_edits'] = edits


_run2 = run


def run(ctx, out):   # noqa: F811
    _run2(ctx, out)
    asym_scenarios(ctx, out)
    hierarchy_scenarios(ctx, out)


def generic_retype_scenarios(ctx, out):
    """features re-typed through generic types at run time: `f.eType = None; f.eGenericType = EGenericType(eClassifier=K)`
    or a type parameter bounded by K, back to a plain eType, and from one generic type to another; candidates conform
    exactly when they conform to the CURRENT declared type, on used and fresh slots, old and new instances."""
    from harness import common
    common.use_repo()
    from pyecore import ecore as E
    rng = common.rng_for(ctx.seed, 'C03:generic')
    n = 40 if ctx.tier != 'thorough' else 600
    NK = 4
    cnt = 0
    for it in range(n):
        K = [E.EClass(f'K{i}') for i in range(NK)]
        K[1].eSuperTypes.append(K[0])                 # K1 < K0 ; K2, K3 unrelated
        Holder = E.EClass('Holder')
        T = E.ETypeParameter('T')
        Holder.eTypeParameters.append(T)
        many = rng.random() < 0.5
        f = E.EReference('r', K[0], upper=-1 if many else 1)
        Holder.eStructuralFeatures.append(f)
        cur = 0                                       # index of the class the feature currently accepts
        inst = {i: [K[i]()] for i in range(NK)}
        used, hist = Holder(), []
        conf = lambda ki, ti: ki == ti or (ki == 1 and ti == 0)   # noqa
        failed = False
        for step in range(rng.randrange(2, 7)):
            # store a few values first (the slot's caches get filled), then re-type
            for _ in range(rng.randrange(0, 3)):
                ki = rng.randrange(NK)
                h = used if rng.random() < 0.6 else Holder()
                v = rng.choice(inst[ki])
                path = rng.choice(MANY_PATHS if many else ONE_PATHS)
                raised = _store(E, h, 'r', many, path, v, keep=False)
                cnt += 1
                hist.append(['store', 'used' if h is used else 'fresh', path, ki, raised])
                ok = conf(ki, cur)
                case = {'scenario': 'generic', 'seed': ctx.seed, 'tier': ctx.tier, 'many': many, 'history': [list(x) for x in hist]}
                sig = {'property': 'C03', 'clause': None, 'many': many}
                if ok and raised is not None:
                    sig['clause'] = 'conforming-refused-after-generic-retype'
                    out.fail(sig, f'K{ki} conforms to the current type K{cur} but the store gave {raised}', case)
                    failed = True
                if not ok and raised != 'BadValueError':
                    sig['clause'] = 'nonconforming-accepted-after-generic-retype'
                    out.fail(sig, f'K{ki} does not conform to the current type K{cur} but the store gave {raised}', case)
                    failed = True
                if failed:
                    break
            if failed:
                break
            new = rng.randrange(NK)
            # (setting eGenericType while eType is still set leaves eType the declared type in pyecore: the generic forms
            #  first unset eType, as the seed of this scenario and EMF's own loader do)
            how = rng.choice(['plain', 'generic-classifier-via-none', 'generic-classifier-via-none', 'type-parameter'])
            try:
                if how == 'plain':
                    f.eGenericType = None
                    f.eType = K[new]
                elif how == 'generic-classifier':
                    f.eGenericType = E.EGenericType(eClassifier=K[new])
                elif how == 'generic-classifier-via-none':
                    f.eType = None
                    f.eGenericType = E.EGenericType(eClassifier=K[new])
                else:
                    T.eBounds.clear()
                    T.eBounds.append(E.EGenericType(eClassifier=K[new]))
                    f.eType = None
                    f.eGenericType = E.EGenericType(eTypeParameter=T)
            except Exception as e:  # noqa
                hist.append(['retype', how, new, type(e).__name__])
                break                                  # an edit the metamodel API refuses: not this property's subject
            cur = new
            hist.append(['retype', how, new])
            if rng.random() < 0.5:
                for i in range(NK):
                    inst[i].append(K[i]())
            if many:
                used.r.clear()
            else:
                used.r = None
    out.coverage['generic_retype_stores_checked'] = cnt


_run3 = run


def run(ctx, out):   # noqa: F811
    _run3(ctx, out)
    generic_retype_scenarios(ctx, out)


def enum_edit_scenarios(ctx, out):
    """enumerations edited at run time (literal renamed in place, literals appended / extended / removed / cleared):
    a name (or a literal object) conforms exactly when the enumeration CURRENTLY has a literal of that name (holds
    that literal); and a name redefined in a subclass with another type: every write route checks against the
    feature the name denotes on the object."""
    from harness import common
    common.use_repo()
    from pyecore import ecore as E
    rng = common.rng_for(ctx.seed, 'C03:enum')
    n = 40 if ctx.tier != 'thorough' else 600
    cnt = 0
    NAMES = ['RED', 'GREEN', 'BLUE', 'AMBER', 'PINK', 'red']
    enum_model = common.Model()
    model_cases = 0
    for it in range(n):
        En = E.EEnum('En', literals=['RED', 'GREEN'])
        Other = E.EEnum('Other', literals=['RED', 'BIG'])
        A = E.EClass('A')
        A.eStructuralFeatures.append(E.EAttribute('one', En))
        A.eStructuralFeatures.append(E.EAttribute('many', En, upper=-1, unique=rng.random() < 0.5))
        used = A()
        hist = []
        failed = False
        removed_literals = []
        # the same history for the Coq model (Model/EnumEdit.v, run_enum): literal ids, interned names
        lid = {id(l): i for i, l in enumerate(En.eLiterals)}
        keep_alive = list(En.eLiterals)
        nid = lambda x: (NAMES + ['ZZ', 'YY']).index(x)   # noqa: E731
        items, impl_bits, what = [], [], []

        def lit_id(l):
            if id(l) not in lid:
                lid[id(l)] = len(lid) + 50
                keep_alive.append(l)
            return lid[id(l)]
        for step in range(rng.randrange(2, 7)):
            k = rng.choice(['rename', 'append', 'extend', 'remove', 'clear', 'none'])
            try:
                cur = list(En.eLiterals)
                if k == 'rename' and cur:
                    lit = rng.choice(cur)
                    new = rng.choice([x for x in NAMES if x not in [c.name for c in cur]] or ['ZZ'])
                    items += [1, lit_id(lit), nid(new)]
                    lit.name = new
                elif k == 'append':
                    nm = rng.choice([x for x in NAMES if x not in [c.name for c in cur]] or ['YY'])
                    nl = E.EEnumLiteral(name=nm, value=len(cur) + 10)
                    items += [2, lit_id(nl), nid(nm)]
                    En.eLiterals.append(nl)
                elif k == 'extend':
                    free = [x for x in NAMES if x not in [c.name for c in cur]][:2]
                    nls = [E.EEnumLiteral(name=x, value=20 + i) for i, x in enumerate(free)]
                    for nl in nls:
                        items += [2, lit_id(nl), nid(nl.name)]
                    En.eLiterals.extend(nls)
                elif k == 'remove' and len(cur) > 1:
                    lit = rng.choice(cur)
                    removed_literals.append(lit)
                    items += [3, lit_id(lit)]
                    impl_bits.append(None)
                    what.append(('remove', lit.name))
                    En.eLiterals.remove(lit)
                elif k == 'clear' and rng.random() < 0.3:
                    removed_literals += cur
                    items += [4]
                    En.eLiterals.clear()
            except Exception as e:  # noqa  (an edit that raises is not this property's subject; what the
                hist.append(['edit', k, type(e).__name__])   # enumeration holds afterwards still decides conformance)
            hist.append(['edit', k, [c.name for c in En.eLiterals]])
            names_now = [c.name for c in En.eLiterals]
            # EEnum.__contains__ asked directly, for every name and every literal object seen so far
            for x in NAMES:
                items += [5, nid(x)]
                impl_bits.append(1 if x in En else 0)
                what.append(('name in enum', x))
            for l in list(keep_alive):
                items += [6, lit_id(l)]
                impl_bits.append(1 if l in En else 0)
                what.append(('literal in enum', l.name))
            cands = [('name', x) for x in NAMES] + [('literal', c) for c in En.eLiterals] + \
                [('literal-of-other-enum', Other.eLiterals[0])] + [('removed-literal', c) for c in removed_literals[-2:]]
            rng.shuffle(cands)
            for kind, v in cands[:8]:
                many = rng.random() < 0.5
                h = used if rng.random() < 0.6 else A()
                path = rng.choice(MANY_PATHS if many else ONE_PATHS)
                ok = (v in names_now) if kind == 'name' else (kind == 'literal')
                raised = _store(E, h, 'many' if many else 'one', many, path, v, keep=False)
                cnt += 1
                items += ([5, nid(v)] if kind == 'name' else [6, lit_id(v)])
                impl_bits.append(1 if raised is None else 0)
                what.append(('store', path, v if kind == 'name' else v.name))
                shown = v if kind == 'name' else f'<{kind} {v.name}>'
                hist.append(['store', 'used' if h is used else 'fresh', path, shown, raised])
                case = {'scenario': 'enum', 'seed': ctx.seed, 'tier': ctx.tier, 'history': [list(x) for x in hist]}
                sig = {'property': 'C03', 'clause': None, 'many': many, 'value': kind}
                if ok and raised is not None:
                    sig['clause'] = 'conforming-refused-after-enum-edit'
                    out.fail(sig, f'{shown} is a literal of the enumeration {names_now} but the store gave {raised}', case)
                    failed = True
                if not ok and raised != 'BadValueError':
                    sig['clause'] = 'nonconforming-accepted-after-enum-edit'
                    out.fail(sig, f'{shown} is no literal of the enumeration {names_now} but the store gave {raised}', case)
                    failed = True
                if failed:
                    break
                if many:
                    used.many.clear()
            if failed:
                break
        if not failed:
            mo = enum_model.ask('enum', [2, nid('RED'), nid('GREEN')] + items)
            model_cases += 1
            if len(mo) != len(impl_bits) or any(b is not None and b != m for b, m in zip(impl_bits, mo)):
                j = next((i for i, (b, m) in enumerate(zip(impl_bits, mo)) if b is not None and b != m), None)
                out.diff(f'enum model vs implementation: answer {j} ({what[j] if j is not None else "length"}) differs: '
                         f'model {mo} implementation {impl_bits}',
                         {'scenario': 'enum', 'seed': ctx.seed, 'tier': ctx.tier, 'history': [list(x) for x in hist]})
    enum_model.close()
    out.coverage['enum_histories_compared_with_model'] = model_cases
    # a name redefined in a subclass with another type
    shadow = 0
    for it in range(12 if ctx.tier != 'thorough' else 200):
        Base, Sub = E.EClass('Base'), E.EClass('Sub')
        Sub.eSuperTypes.append(Base)
        many = rng.random() < 0.4
        t1, t2 = rng.sample([(E.EInt, 5, 'int'), (E.EString, 'x', 'str'), (E.EBoolean, True, 'bool')], 2)
        fb = E.EAttribute('code', t1[0], upper=-1 if many else 1)
        fs = E.EAttribute('code', t2[0], upper=-1 if many else 1)
        Base.eStructuralFeatures.append(fb)
        Sub.eStructuralFeatures.append(fs)
        for v, vn in ((t1[1], t1[2]), (t2[1], t2[2])):
            for route in ('attr', 'eSet-name', 'eSet-own-feature', 'eSet-inherited-feature'):
                o = Sub()
                try:
                    val = [v] if many else v
                    if route == 'attr':
                        setattr(o, 'code', val)
                    elif route == 'eSet-name':
                        o.eSet('code', val)
                    elif route == 'eSet-own-feature':
                        o.eSet(fs, val)
                    else:
                        o.eSet(fb, val)
                    raised = None
                except E.BadValueError:
                    raised = 'BadValueError'
                except Exception as e:  # noqa
                    raised = type(e).__name__
                shadow += 1
                pyt = {'int': int, 'str': str, 'bool': bool}[t2[2]]
                ok = isinstance(v, pyt)        # the name denotes Sub.code on an instance of Sub (a bool is an int)
                got = list(o.code) if many else o.code
                case = {'scenario': 'enum', 'seed': ctx.seed, 'tier': ctx.tier,
                        'history': [['shadow', t1[2], t2[2], many, route, vn, raised]]}
                sig = {'property': 'C03', 'clause': None, 'many': many, 'value': 'redefined-name'}
                if (ok and raised is not None) or (not ok and raised != 'BadValueError'):
                    sig['clause'] = 'redefined-name-checked-against-another-feature'
                    out.fail(sig, f'Sub redefines code: {t1[2]} -> {t2[2]}; storing a {vn} through {route} gave {raised}; '
                                  f'the object now reads {got!r}', case)
                    break
    out.coverage['enum_edit_stores_checked'] = cnt
    out.coverage['redefined_name_stores_checked'] = shadow


_run4 = run


def run(ctx, out):   # noqa: F811
    _run4(ctx, out)
    enum_edit_scenarios(ctx, out)


def slice_scenarios(ctx, out):
    """slice assignment on list-based (non-unique) many-valued ATTRIBUTES: what is stored are the items of the
    right-hand side (a list, a tuple, a bare str or bytes - which Python iterates item by item); if any item is outside
    the feature's type the call raises BadValueError and stores nothing; afterwards every stored element conforms."""
    from harness import common
    common.use_repo()
    from pyecore import ecore as E
    rng = common.rng_for(ctx.seed, 'C03:slice')
    n = 60 if ctx.tier != 'thorough' else 1500
    cnt = 0
    En = E.EEnum('Col', literals=['RED', 'BLUE', 'B'])
    TYPES = {
        'enum': (En, lambda v: v in ('RED', 'BLUE', 'B') or v in list(En.eLiterals), ['RED', 'BLUE', 'B']),
        'int': (E.EInt, lambda v: isinstance(v, int), [1, 2, 97]),
        'str': (E.EString, lambda v: isinstance(v, str), ['a', 'bc', '']),
        'byte': (E.EByte, lambda v: isinstance(v, bytes), [b'a', b'xy']),
    }
    RHS = [['RED'], ['BLUE', 'RED'], 'BLUE', 'B', 'RED', b'ab', b'', [1, 2], (3,), ['a', 'b'], 'ab', [b'q'], [1, 'a'], ['RED', 5], []]
    for it in range(n):
        tn = rng.choice(sorted(TYPES))
        et, conf, goods = TYPES[tn]
        A = E.EClass('A')
        A.eStructuralFeatures.append(E.EAttribute('xs', et, upper=-1, unique=False, ordered=rng.random() < 0.8))
        a = A()
        for _ in range(rng.randrange(0, 4)):
            a.xs.append(rng.choice(goods))
        hist = [['type', tn], ['start', [repr(x) for x in a.xs]]]
        for step in range(rng.randrange(1, 5)):
            rhs = rng.choice(RHS)
            i = rng.randrange(0, len(a.xs) + 1)
            j = rng.randrange(i, len(a.xs) + 1)
            before = list(a.xs)
            items = list(rhs)
            ok = all(conf(x) for x in items)
            try:
                a.xs[i:j] = rhs
                raised = None
            except E.BadValueError:
                raised = 'BadValueError'
            except Exception as e:  # noqa
                raised = type(e).__name__
            cnt += 1
            hist.append(['slice', i, j, repr(rhs), raised])
            after = list(a.xs)
            case = {'scenario': 'slice', 'seed': ctx.seed, 'tier': ctx.tier, 'history': [list(h) for h in hist]}
            sig = {'property': 'C03', 'clause': None, 'many': True, 'value': 'slice:' + type(rhs).__name__}
            bad = [repr(x) for x in after if not conf(x)]
            if bad:
                sig['clause'] = 'nonconforming-value-stored'
                out.fail(sig, f'a.xs[{i}:{j}] = {rhs!r} on a list of {tn}: the feature now holds {bad}', case)
                break
            if not ok and raised != 'BadValueError':
                sig['clause'] = 'not-rejected'
                out.fail(sig, f'a.xs[{i}:{j}] = {rhs!r} on a list of {tn}: items {items!r} are not all of the type but the call gave {raised}', case)
                break
            if not ok and after != before:
                sig['clause'] = 'rejected-but-changed'
                out.fail(sig, f'a.xs[{i}:{j}] = {rhs!r} raised BadValueError but the list went from {before!r} to {after!r}', case)
                break
            if ok and raised is not None:
                sig['clause'] = 'conforming-refused'
                out.fail(sig, f'a.xs[{i}:{j}] = {rhs!r} on a list of {tn}: every item conforms but the call gave {raised}', case)
                break
            if ok:
                want = before[:i] + items + before[j:]
                if after != want:
                    sig['clause'] = 'slice-stored-something-else'
                    out.fail(sig, f'a.xs[{i}:{j}] = {rhs!r}: the list is {after!r}, a Python list would be {want!r}', case)
                    break
    out.coverage['slice_assignments_checked'] = cnt


_run5 = run


def run(ctx, out):   # noqa: F811
    _run5(ctx, out)
    slice_scenarios(ctx, out)


def illtyped_document_scenarios(ctx, out):
    """the loaders are a mutation path too: a document (XMI / JSON) in which a reference into the same document names an
    object of the WRONG class either fails to load, or - whatever the loader did - the feature never shows an object
    outside its type once the reference is followed (single- and many-valued references, both reference spellings)"""
    import os
    import re
    import tempfile
    from harness import common
    common.use_repo()
    from pyecore import ecore as E
    from pyecore.resources import ResourceSet, URI
    from pyecore.resources.json import JsonResource
    rng = common.rng_for(ctx.seed, 'C03:illtyped')
    n = 24 if ctx.tier != 'thorough' else 400
    cnt = loaded = 0
    for it in range(n):
        fmt = 'json' if it % 2 else 'xmi'
        pkg = E.EPackage('p', nsURI=f'http://verif/c03/ill/{it}', nsPrefix='p')
        B, C = E.EClass('B'), E.EClass('C')
        A = E.EClass('A')
        R = E.EClass('R')
        for c in (A, B, C, R):
            c.eStructuralFeatures.append(E.EAttribute('name', E.EString))
        A.eStructuralFeatures.append(E.EReference('r', B))
        A.eStructuralFeatures.append(E.EReference('rs', B, upper=-1, unique=rng.random() < 0.5))
        R.eStructuralFeatures.append(E.EReference('as_', A, upper=-1, containment=True))
        R.eStructuralFeatures.append(E.EReference('bs', B, upper=-1, containment=True))
        R.eStructuralFeatures.append(E.EReference('cs', C, upper=-1, containment=True))
        pkg.eClassifiers.extend([A, B, C, R])

        def new_rset():
            rs = ResourceSet()
            rs.metamodel_registry[pkg.nsURI] = pkg
            rs.resource_factory['json'] = lambda uri: JsonResource(uri)
            return rs
        root = R(name='root')
        for i in range(2):
            root.as_.append(A(name=f'a{i}'))
            root.bs.append(B(name=f'b{i}'))
            root.cs.append(C(name=f'c{i}'))
        which = rng.choice(['single', 'many', 'both'])
        if which in ('single', 'both'):
            root.as_[0].r = root.bs[1]
        if which in ('many', 'both'):
            root.as_[1].rs.extend([root.bs[0], root.bs[1]])
        with tempfile.TemporaryDirectory() as tmp:
            path = os.path.join(tmp, 'm.' + fmt)
            rs = new_rset()
            res = rs.create_resource(URI(path))
            res.append(root)
            res.save()
            text = open(path, encoding='utf-8').read()
            spelled = rng.choice(['plain', 'hash'])
            # the target of every reference into bs is re-pointed to the object at the same position of cs
            bad = text.replace('//@bs.1', ('#' if spelled == 'hash' else '') + '//@cs.1')
            if rng.random() < 0.5:
                bad = bad.replace('//@bs.0', ('#' if spelled == 'hash' else '') + '//@cs.0')
            bad = re.sub(r'("\$ref": "#?//@cs\.\d",\s*"eClass": "[^"]*#//)B"', r'\1C"', bad) if rng.random() < 0.5 else bad
            if bad == text:
                continue
            open(path, 'w', encoding='utf-8').write(bad)
            cnt += 1
            hist = [['format', fmt, 'references', which, 'spelling', spelled]]
            case = {'scenario': 'illtyped', 'seed': ctx.seed, 'tier': ctx.tier, 'history': hist}
            try:
                lr = new_rset().get_resource(URI(path)).contents[0]
            except Exception as e:  # noqa
                hist.append(['load', type(e).__name__])
                continue                      # refused: fine
            loaded += 1
            wrong = []
            for a in lr.as_:
                try:
                    vals = ([a.r] if a.r is not None else []) + list(a.rs)
                    for v in vals:
                        v.name                # follow the reference
                        tgt = v.force_resolve() if hasattr(v, 'force_resolve') else v
                        if not isinstance(tgt, B.python_class):
                            wrong.append(f'{a.name} holds {tgt.name} of class {tgt.eClass.name}')
                except Exception as e:  # noqa
                    hist.append(['follow', a.name, type(e).__name__])
            if wrong:
                out.fail({'property': 'C03', 'clause': 'nonconforming-value-stored', 'many': which != 'single', 'value': 'loaded-' + fmt},
                         f'a {fmt} document whose reference typed B names an object of class C loads, and the feature shows it: {wrong[:2]}', case)
    out.coverage['illtyped_documents'] = {'offered': cnt, 'loaded_without_error': loaded}


_run6 = run


def run(ctx, out):   # noqa: F811
    _run6(ctx, out)
    illtyped_document_scenarios(ctx, out)


def homonym_document_scenarios(ctx, out):
    """the loaders as a mutation path, on metamodels where classifier names repeat across packages (legal: names are
    unique per package only): two or three packages each declare a class of the SAME name whose same-named features
    are typed differently (another data type, an enumeration of the same name with other literals, a containment /
    reference to the package's own child class, an attribute in one and a reference in the other).  One document
    (XMI / JSON) written by pyecore holds instances of several of them, each with values that conform to the features
    of its OWN class.  Every conforming value is accepted: the load does not raise; and every value then observable
    conforms to the feature of the object's own class."""
    import os
    import tempfile
    from harness import common
    common.use_repo()
    from pyecore import ecore as E
    from pyecore.resources import ResourceSet, URI
    from pyecore.resources.json import JsonResource
    rng = common.rng_for(ctx.seed, 'C03:homonym')
    n = 48 if ctx.tier != 'thorough' else 600
    docs = values = mixed = 0
    DT = {'EInt': (E.EInt, [42, -7, 1], int), 'EString': (E.EString, ['42', 'true', 'x y', '1.5', 'RED'], str),
          'EBoolean': (E.EBoolean, [True, False], bool), 'EDouble': (E.EDouble, [2.5, 42.0], float)}
    FNAMES = ['value', 'part', 'more']
    for it in range(n):
        fmt = 'json' if rng.random() < 0.5 else 'xmi'
        npk = rng.choice([2, 2, 3])
        cname = rng.choice(['Entry', 'Item', 'Node'])
        pkgs, entry, child, enum, feats = [], [], [], [], []
        for k in range(npk):
            p = E.EPackage(f'pk{k}', nsURI=f'http://verif/c03/homonym/{it}/{k}', nsPrefix=f'pk{k}')
            En = E.EEnum('Kind', literals=[['RED', 'BLUE'], ['SMALL', 'BIG', 'RED'], ['BLUE', 'x']][k])
            Ch = E.EClass(rng.choice(['Text', 'Num', 'Leaf']))
            dn = rng.choice(sorted(DT))
            Ch.eStructuralFeatures.append(E.EAttribute('v', DT[dn][0]))
            Cl = E.EClass(cname)
            fd = {}
            for fn in FNAMES:
                kind = rng.choice(['attr', 'attr', 'enum', 'cont', 'cont', 'ref'])
                many = rng.random() < 0.3
                if kind == 'attr':
                    tn = rng.choice(sorted(DT))
                    Cl.eStructuralFeatures.append(E.EAttribute(fn, DT[tn][0], upper=-1 if many else 1, unique=False))
                    fd[fn] = ('attr', tn, many)
                elif kind == 'enum':
                    Cl.eStructuralFeatures.append(E.EAttribute(fn, En, upper=-1 if many else 1, unique=False))
                    fd[fn] = ('enum', 'Kind', many)
                else:
                    Cl.eStructuralFeatures.append(E.EReference(fn, Ch, upper=-1 if many else 1, containment=kind == 'cont'))
                    fd[fn] = (kind, Ch.name, many)
            p.eClassifiers.extend([Cl, Ch, En])
            pkgs.append(p), entry.append(Cl), child.append((Ch, dn)), enum.append(En), feats.append(fd)
        Root = E.EClass('Root')
        Root.eStructuralFeatures.append(E.EReference('entries', E.EObject.eClass, upper=-1, containment=True))
        Root.eStructuralFeatures.append(E.EReference('pool', E.EObject.eClass, upper=-1, containment=True))
        pkgs[0].eClassifiers.append(Root)

        def new_child(k):
            Ch, dn = child[k]
            c = Ch()
            c.v = rng.choice(DT[dn][1])
            return c
        root = Root()
        for k in range(npk):                      # targets of the plain references live in the document too
            for _ in range(2):
                root.pool.append(new_child(k))
        order = [rng.randrange(npk) for _ in range(rng.randrange(2, 6))]
        if rng.random() < 0.25:
            order = [order[0]] * len(order)       # a document using one of the classes only
        for k in order:
            e = entry[k]()
            for fn, (kind, tn, many) in feats[k].items():
                if rng.random() < 0.15:
                    continue
                m = rng.randrange(1, 3) if many else 1
                if kind == 'attr':
                    vs = [rng.choice(DT[tn][1]) for _ in range(m)]
                elif kind == 'enum':
                    vs = [rng.choice(list(enum[k].eLiterals)) for _ in range(m)]
                elif kind == 'cont':
                    vs = [new_child(k) for _ in range(m)]
                else:
                    vs = rng.sample([c for c in root.pool if c.eClass is child[k][0]], m)
                if many:
                    getattr(e, fn).extend(vs)
                else:
                    setattr(e, fn, vs[0])
            root.entries.append(e)
        hist = [['format', fmt], ['class', cname, 'children', [c.name for c, _ in child]],
                ['features', [sorted([fn] + list(d) for fn, d in fd.items()) for fd in feats]],
                ['entries-of-packages', order]]
        case = {'scenario': 'homonym', 'seed': ctx.seed, 'tier': ctx.tier, 'history': hist}
        sig = {'property': 'C03', 'clause': None, 'many': None, 'value': 'loaded-' + fmt}

        def new_rset():
            rs = ResourceSet()
            for p in pkgs:
                rs.metamodel_registry[p.nsURI] = p
            rs.resource_factory['json'] = lambda uri: JsonResource(uri)
            return rs
        with tempfile.TemporaryDirectory() as tmp:
            path = os.path.join(tmp, 'm.' + fmt)
            try:
                res = new_rset().create_resource(URI(path))
                res.append(root)
                res.save()
            except Exception as e:  # noqa   (writing is not this property's subject)
                hist.append(['save', type(e).__name__])
                continue
            docs += 1
            mixed += len(set(order)) > 1
            try:
                lr = new_rset().get_resource(URI(path)).contents[0]
            except Exception as e:  # noqa
                sig['clause'] = 'conforming-refused-by-load'
                hist.append(['load', type(e).__name__])
                out.fail(sig, f'a {fmt} document written by pyecore, in which every value conforms to the feature of its own '
                              f'class ({npk} classes named {cname}, entries of packages {order}), is refused: '
                              f'{type(e).__name__}: {str(e)[:160]}', case)
                continue
            wrong = []
            todo = list(lr.entries) + list(lr.pool)
            while todo:
                o = todo.pop()
                for f in o.eClass.eAllStructuralFeatures():
                    got = o.eGet(f)
                    vs = list(got) if f.many else ([] if got is None else [got])
                    for v in vs:
                        values += 1
                        et = f.eType
                        if isinstance(f, E.EReference):
                            v = v.force_resolve() if hasattr(v, 'force_resolve') else v
                            good = isinstance(v, et.python_class)
                            if f.containment:
                                todo.append(v)
                            shown = f'an instance of {v.eClass.ePackage.name}.{v.eClass.name}'
                        elif isinstance(et, E.EEnum):
                            good = any(v is l for l in et.eLiterals) or (isinstance(v, str) and v in [l.name for l in et.eLiterals])
                            shown = repr(v)
                        else:
                            good = isinstance(v, et.eType)
                            shown = repr(v)
                        if not good:
                            wrong.append(f'{o.eClass.ePackage.name}.{o.eClass.name}.{f.name} (declared '
                                         f'{getattr(et.ePackage, "name", "?")}.{et.name}) holds {shown}')
            if wrong:
                sig['clause'] = 'nonconforming-value-stored'
                out.fail(sig, f'after loading a {fmt} document with {npk} classes named {cname}: {wrong[:3]}', case)
    out.coverage['homonym_documents'] = {'loaded': docs, 'mixing_same_named_classes': mixed, 'values_checked': values}


_run7 = run


def run(ctx, out):   # noqa: F811
    _run7(ctx, out)
    homonym_document_scenarios(ctx, out)
