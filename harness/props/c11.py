"""C11 — an object's URI fragment always resolves back to that object.
Kernel histories biased to containment/resource moves; after every call the
implementation's eURIFragment()/resource.resolve() are evaluated for every
object under a resource (oracle) and compared with Model/Fragment.v
(correspondence on the fragment text and on what it resolves to)."""
import copy
import re

from harness import common, kgen, kmodel, kprop, krun

PID = 'C11'
POOL = kgen.CONT_TEMPLATES + ['ai', 'rn', 'p1n']


def render(case, pre, segs):
    ff = kgen.flat_features(case['mm'])
    s = '/' if pre < 0 else f'/{pre}'
    for f, i in segs:
        name = ff[f][1]['name']
        s += f'/@{name}' if i < 0 else f'/@{name}.{i}'
    if s.startswith('//') and pre >= 0:
        s = s
    return s


def model_frags(model, case):
    toks = kmodel.encode_mm(case)
    for op in case['history']:
        toks += kmodel.encode_op(op)
    out = model.ask('frag', toks)
    r = kmodel.Reader(out)
    res = {}
    for oi in range(len(case['objs'])):
        tag = r.get()
        if tag == 0:
            continue
        if tag == 2:
            res[oi] = ('exn', None)
            continue
        pre = r.get()
        n = r.get()
        segs = [(r.get(), r.get()) for _ in range(n)]
        back = r.get()
        res[oi] = (pre, segs, back)
    assert r.i == len(out)
    return res


def canon(frag):
    """'/' , '//@a.0' and '/2/@a.0' -> (root number or -1, [(name, idx or -1)])"""
    parts = [p for p in frag.split('/') if p]
    pre = -1
    if parts and re.fullmatch(r'\d+', parts[0]):
        pre = int(parts[0])
        parts = parts[1:]
    segs = []
    for p in parts:
        m = re.fullmatch(r'@([A-Za-z_]\w*)(?:\.(\d+))?', p)
        if not m:
            return None
        segs.append((m.group(1), int(m.group(2)) if m.group(2) is not None else -1))
    return pre, segs


def ids_after_load(ctx, out, cases):
    """save with xmi:id, reload in a fresh resource set: ids and positional fragments resolve to the very objects"""
    import os
    import tempfile
    common.use_repo()
    from pyecore.resources import ResourceSet, URI
    from harness import kimpl
    n = 0
    for case in cases:
        c2 = dict(case)
        c2['history'] = [op for op in case['history'] if op[0] in kmodel.MODELLED]
        c2, _ = kprop.clean_case(c2, [], False)
        w = kimpl.World(c2, observers=False)
        for op in c2['history']:
            w.apply(op)
        roots = [o for o in w.objs if o.eContainer() is None and o.eResource is None][:2] + \
                [o for r in w.res for o in r.contents]
        if not roots:
            continue
        with tempfile.TemporaryDirectory() as td:
            rs = ResourceSet()
            res = rs.create_resource(URI(os.path.join(td, 'm.xmi')))
            res.use_uuid = True
            for o in roots:
                res.append(o)
            try:
                res.save()
            except Exception:   # noqa  (references leaving the resource etc.: not this check's business)
                continue
            rs2 = ResourceSet()
            rs2.metamodel_registry[w.pkg.nsURI] = w.pkg
            try:
                r2 = rs2.get_resource(URI(os.path.join(td, 'm.xmi')))
            except Exception:   # noqa
                continue
            n += 1
            todo = list(r2.contents)
            while todo:
                o = todo.pop()
                todo += list(o.eContents)
                for what, frag in (('id', o._internal_id), ('fragment', o.eURIFragment())):
                    try:
                        back = r2.resolve(frag) if frag else o
                    except Exception as e:  # noqa
                        back = 'raised ' + type(e).__name__
                    if back is not o:
                        out.fail({'property': PID, 'clause': f'after-load-{what}', 'roots': min(len(r2.contents), 2)},
                                 f'after a load with xmi:id, {what} {frag!r} resolves to {back!r}', c2)
                        todo = []
                        break
    out.coverage['ids_after_load_models'] = n


def run(ctx, out):
    # oracle + kernel correspondence on ownership through the common runner
    focus = [kgen.gen_focus_case(ctx.rng, t, nops=ctx.rng.randrange(4, 12))
             for t in ('cn', 'ckn', 'ctree0', 'ctree') for _ in range(150 if ctx.tier != 'thorough' else 3000)]
    for j, c in enumerate(focus):
        c['uuid'] = (j % 2 == 1)        # resources that work with xmi:id must still resolve positional fragments
    ids_after_load(ctx, out, focus[:40 if ctx.tier != 'thorough' else 600])
    st = kprop.run(ctx, out, PID, ['C11'], {'outcome', 'values', 'ownership'}, 900, 25000, pool=POOL,
                   weights={'res': 0.25, 'delete': 0.04}, p_wrong=0.03, extra_cases=focus)
    # fragment correspondence: final state of fresh histories (prefixes are covered by varying lengths)
    n = 400 if ctx.tier != 'thorough' else 6000
    model = common.Model()
    compared = 0
    from harness import kimpl
    for i in range(n):
        case = kgen.gen_case(ctx.rng, nops=ctx.rng.randrange(2, 14), pool=POOL,
                             weights={'res': 0.3, 'delete': 0.03}, p_wrong=0.02)
        case['history'] = [op for op in case['history'] if op[0] in kmodel.MODELLED]
        case, r = kprop.clean_case(case, [], False)
        w = kimpl.World(case, observers=False)
        for op in case['history']:
            w.apply(op)
        impl = w.fragments()
        ff = kgen.flat_features(case['mm'])
        mf = model_frags(model, case)
        for oi, (frag, back) in impl.items():
            compared += 1
            mo = mf.get(oi)
            if mo is None:
                out.diff(f'obj{oi}: implementation has a resource, model has none', case)
                break
            if frag.startswith('exn:'):
                if mo[0] != 'exn':
                    out.diff(f'obj{oi}: implementation raised {frag}, model gives {mo}', case)
                    break
                continue
            if mo[0] == 'exn':
                out.diff(f'obj{oi}: model raised, implementation gives {frag!r}', case)
                break
            c = canon(frag)
            want = (mo[0], [(ff[f][1]['name'], idx) for f, idx in mo[1]])
            if c != want:
                out.diff(f'obj{oi}: fragment impl={frag!r} model={want}', case)
                break
            mb = mo[2] if mo[2] != kmodel.NONE_TOK else kmodel.NONE_TOK
            ib = back if isinstance(back, int) else 'exn'
            if ib != mb and not (ib == 'exn' and mb == kmodel.NONE_TOK):
                out.diff(f'obj{oi}: resolve impl={back} model={mo[2]}', case)
                break
    model.close()
    out.coverage['fragment_objects_compared'] = compared
    out.coverage['fragment_cases'] = n


def replay(ctx, rep):
    case = rep['case']
    r = krun.Run(case, ['C11']).run()
    for s in r.steps:
        print(s['op'], '->', s['outcome'], s.get('frags'))
    if r.failure:
        print('REPRODUCED', r.failure['clause'], r.failure['detail'])
        return 1
    print('not reproduced')
    return 0
