"""C13 — static and dynamic definitions of a metamodel are interchangeable.
One description (harness/kgen.py) is rendered three ways — dynamic EClass API,
static classes with MetaEClass, static classes with @EMetaclass (generated
source, as pyecoregen would write it) — and the same history is run on each.
Oracle: the three traces (outcome class, full dump, notifications, reflective
views) coincide call by call, the reflective descriptions coincide, and a
document saved by one rendering loads into an isomorphic model with another.
Correspondence: every rendering against the one kernel model run."""
import copy
import os
import tempfile

from harness import common, kgen, kmodel, kprop, krun

PID = 'C13'
RENDERINGS = ['dynamic', 'static-meta', 'static-decorator', 'mixed']
OPS_A = [{'name': 'describe', 'params': []}, {'name': 'scale', 'params': [{'name': 'k', 'required': True}, {'name': 'unit', 'required': False}]}]
OPS_A2 = [{'name': 'describe', 'params': [{'name': 'verbose', 'required': False}]}]
OPS_B = [{'name': 'ping', 'params': []}]
PROJ = {'outcome', 'values', 'isset', 'ownership', 'log', 'views'}


def set_render(case, render):
    if render == 'mixed':
        case['render'] = 'dynamic'
        case['render_mixed'] = True
    else:
        case['render'] = render


def canon_step(case, step):
    op = step['op']
    log = [(n, f, k, old, new) for (who, n, f, k, old, new) in step['log'] if who[0] == 'o']
    rlog = sorted((who[1], n, f, k, repr(old), repr(new)) for (who, n, f, k, old, new) in step['log'] if who[0] == 'r')
    if op[0] in kmodel.UNORDERED_LOG_OPS:
        log = sorted(map(repr, kmodel.flatten_log(log)))
        rlog = []
    views = [{'econtents': sorted(v['econtents']), 'eallcontents': sorted(v['eallcontents']), 'eroot': v['eroot']}
             for v in step.get('views', [])]
    return {'outcome': step['outcome'], 'dump': step['dump'], 'log': log, 'rlog': rlog, 'views': views}


def description(world):
    """reflective description of every class of a rendering"""
    d = {}
    for name, c in world.classes.items():
        ec = c.eClass if not hasattr(c, 'eStructuralFeatures') else c
        feats = []
        for f in ec.eStructuralFeatures:
            opp = getattr(f, 'eOpposite', None)
            tn = None if f.eType is None else (f.eType.eClass.name if isinstance(f.eType, type) else f.eType.name)
            feats.append((f.name, type(f).__name__, tn, f.many,
                          f.ordered, f.unique, getattr(f, 'containment', None),
                          (opp.eContainingClass.name, opp.name) if opp is not None else None, f.lowerBound, f.upperBound))
        def sig(op):
            ps = [(p.name, bool(p.required)) for p in op.eParameters]
            if ps and ps[0][0] == 'self':
                ps = ps[1:]          # static reflection lists the receiver; the declaration does not
            return (op.name, tuple(ps))
        fd_ = ec.findEOperation('describe')
        d[name] = {'name': ec.name, 'abstract': bool(ec.abstract), 'supers': [s.name for s in ec.eSuperTypes],
                   'operations': sorted(sig(o) for o in ec.eOperations),
                   'all_operations': sorted(sig(o) for o in ec.eAllOperations()),
                   'find_describe': sig(fd_) if fd_ is not None else None,
                   'all_supers': sorted(s.name for s in ec.eAllSuperTypes()),
                   'features': sorted(feats),
                   'all_features': sorted(f.name for f in ec.eAllStructuralFeatures())}
    return d


def model_dump_of(world):
    return world.dump()


def cross_load(case, src_render, dst_render):
    """save the final model of one rendering, load it against another rendering's package; compare dumps"""
    common.use_repo()
    from pyecore.resources import ResourceSet, URI
    from harness import kimpl
    c1 = copy.deepcopy(case)
    c1['render'] = src_render
    w1 = kimpl.World(c1, observers=False)
    for op in case['history']:
        w1.apply(op)
    roots = [o for o in w1.objs if o.eContainer() is None]
    with tempfile.TemporaryDirectory() as td:
        rs = ResourceSet()
        r = rs.create_resource(URI(os.path.join(td, 'm.xmi')))
        for o in roots:
            r.append(o)
        r.save()
        def reload(render):
            c2 = copy.deepcopy(case)
            c2['render'] = render
            c2['history'] = []
            w2 = kimpl.World(c2, observers=False)
            rs2 = ResourceSet()
            rs2.metamodel_registry['http://p'] = w2.pkg
            try:
                return rs2.get_resource(URI(os.path.join(td, 'm.xmi')))
            except Exception as e:  # noqa
                return 'raised ' + type(e).__name__

        def canon(res):
            out = []

            def walk(o):
                ec = o.eClass
                item = {'cls': ec.name, 'attrs': {}, 'refs': {}, 'kids': {}}
                for f in sorted(ec.eAllStructuralFeatures(), key=lambda f: f.name):
                    v = o.eGet(f)
                    if f.is_attribute:
                        item['attrs'][f.name] = [repr(x) for x in v] if f.many else repr(v)
                    elif f.containment:
                        ch = list(v) if f.many else ([v] if v is not None else [])
                        item['kids'][f.name] = [walk(c) for c in ch]
                    else:
                        ts = list(v) if f.many else ([v] if v is not None else [])
                        item['refs'][f.name] = [t.eURIFragment() if t.eResource is res else 'external' for t in ts]
                return item
            if isinstance(res, str):
                return res
            for root in res.contents:
                out.append(walk(root))
            return out
        # the document is loaded against the saving rendering's own package and against the other one
        return canon(reload(src_render)), canon(reload(dst_render))


def run(ctx, out):
    thorough = ctx.tier == 'thorough'
    n = 250 if not thorough else 4000
    model = common.Model()
    stats = {'cases': 0, 'calls': 0, 'cross_loads': 0, 'ops': {}}
    samples = []
    distinct = set()
    from harness import kimpl
    for i in range(n):
        case = kgen.gen_case(ctx.rng, nops=10 if not thorough else 14)
        case['history'] = [op for op in case['history'] if op[0] in kmodel.MODELLED]
        for c in case['mm']['classes']:
            c['operations'] = {'A': OPS_A, 'A2': OPS_A2, 'B': OPS_B}.get(c['name'], [])
        case, r0 = kprop.clean_case(case, [], True)
        stats['cases'] += 1
        distinct.add(repr((case['templates'], case['history'])))
        runs = {'dynamic': r0}
        for render in RENDERINGS[1:]:
            c2 = copy.deepcopy(case)
            set_render(c2, render)
            try:
                runs[render] = krun.Run(c2, [], observe_views=True).run()
            except Exception as e:  # noqa
                out.fail({'property': PID, 'clause': 'static-rendering-raised', 'render': render},
                         f'{render}: {type(e).__name__}: {e}', case)
                runs[render] = None
        try:
            ms = kmodel.run_model(model, case)
        except Exception as e:  # noqa
            out.diff(f'model run failed: {e!r}', case)
            ms = []
        for render, r in runs.items():
            if r is None:
                continue
            # correspondence: each rendering against the common model
            for j, (s, mst) in enumerate(zip(r.steps, ms)):
                d = kmodel.compare_step(case, s['op'], s, mst, PROJ)
                if d:
                    cut = copy.deepcopy(case)
                    cut['history'] = cut['history'][:j + 1]
                    cut['render'] = render
                    out.diff(f'{render} step {j} {s["op"]}: ' + '; '.join(d[:2]), cut)
                    break
        # oracle: traces coincide
        base = [canon_step(case, s) for s in r0.steps]
        for render in RENDERINGS[1:]:
            r = runs.get(render)
            if r is None:
                continue
            other = [canon_step(case, s) for s in r.steps]
            for j, (a, b) in enumerate(zip(base, other)):
                if a != b:
                    what = next(k for k in a if a[k] != b[k])
                    cut = copy.deepcopy(case)
                    cut['history'] = cut['history'][:j + 1]
                    out.fail({'property': PID, 'clause': 'trace-' + what, 'render': render,
                              'culprit': case['history'][j][0]},
                             f'{render} differs from dynamic at step {j} {case["history"][j]} in {what}: '
                             f'{str(a[what])[:200]} vs {str(b[what])[:200]}', cut)
                    break
        for s in r0.steps:
            stats['calls'] += 3
            stats['ops'][s['op'][0]] = stats['ops'].get(s['op'][0], 0) + 1
        # reflective descriptions
        descs = {}
        for render in RENDERINGS:
            c2 = copy.deepcopy(case)
            set_render(c2, render)
            c2['history'] = []
            descs[render] = description(kimpl.World(c2, observers=False))
        for render in RENDERINGS[1:]:
            if descs[render] != descs['dynamic']:
                cn = next(k for k in descs['dynamic'] if descs['dynamic'][k] != descs[render].get(k))
                out.fail({'property': PID, 'clause': 'reflective-description', 'render': render},
                         f'class {cn}: dynamic {descs["dynamic"][cn]} vs {render} {descs[render].get(cn)}', case)
        # cross loading (a fraction of the cases: it touches the file system)
        if i % (5 if not thorough else 3) == 0:
            for src, dst in (('dynamic', 'static-meta'), ('static-meta', 'dynamic'), ('static-decorator', 'dynamic')):
                try:
                    a, b = cross_load(case, src, dst)
                    stats['cross_loads'] += 1
                    if a != b:
                        out.fail({'property': PID, 'clause': 'cross-load', 'render': f'{src}->{dst}'},
                                 f'document saved by {src} loads differently against {dst}: {str(a)[:200]} vs {str(b)[:200]}', case)
                except Exception as e:  # noqa
                    out.fail({'property': PID, 'clause': 'cross-load-raised', 'render': f'{src}->{dst}',
                              'exception': type(e).__name__},
                             f'{src}->{dst}: {type(e).__name__}: {e}', case)
        if len(samples) < 3 and len(case['history']) > 3:
            samples.append({'templates': case['templates'], 'history': case['history']})
    model.close()
    out.coverage.update({
        'evaluations': stats['cases'] * 3, 'distinct_nontrivial': len(distinct),
        'rule': 'a case = generated metamodel description + history, rendered 3 ways (dynamic, MetaEClass, '
                '@EMetaclass); evaluations = cases x renderings; distinct = distinct (templates, history)',
        'traces_validated_against_impl': stats['cases'] * 3, 'calls_executed': stats['calls'],
        'cross_loads': stats['cross_loads'], 'ops_by_kind': stats['ops'], 'samples': samples,
    })
    out.assumptions += ['static classes are generated source text executed in a fresh module (pyecoregen layout)',
                        'delete(): notification order compared as a multiset of individual changes']


def replay(ctx, rep):
    case = rep['case']
    res = {}
    for render in RENDERINGS:
        c2 = copy.deepcopy(case)
        set_render(c2, render)
        r = krun.Run(c2, [], observe_views=True).run()
        res[render] = [canon_step(case, s) for s in r.steps]
        print(render, [s['outcome'] for s in r.steps])
    bad = any(res[r] != res['dynamic'] for r in RENDERINGS[1:])
    print('REPRODUCED' if bad else 'not reproduced')
    return 1 if bad else 0
