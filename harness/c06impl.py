"""C06: drive pyecore.commands (real code from /repo) with a word over
{exec(cmd), undo, redo} starting from the state a kernel history builds.

case = kernel case (harness/kimpl.py) + 'word': [sop, ...]
sop  := ['exec', cmd] | ['exec*', [cmd, ...]] (one stack.execute(c1, c2, ...) call) | ['undo'] | ['redo']
cmd  := ['Set', x, fi, v] | ['Add', x, fi, v, index|None] | ['Remove', x, fi, v|None, index|None]
      | ['Move', x, fi, v|None, from|None, to] | ['Delete', x] | ['Compound', [cmd, ...]]
Observation: kimpl.World.dump / take_log (public API only)."""
from harness import kimpl


class CmdWorld:
    def __init__(self, case, observers=True):
        self.case = case
        self.w = kimpl.World(case, observers=observers)
        from pyecore import commands as C
        self.C = C
        self.skipped_history = []
        for op in case['history']:
            self.w.apply(op)
        self.w.take_log()
        self.stack = C.CommandStack()

    def build(self, cmd):
        C, w = self.C, self.w
        k = cmd[0]
        if k == 'Compound':
            return C.Compound(*[self.build(c) for c in cmd[1]])
        o = w.objs[cmd[1]]
        if k == 'Delete':
            return C.Delete(owner=o)
        f = w.feat(cmd[2])
        if k == 'Set':
            return C.Set(owner=o, feature=f, value=w.val(cmd[3]))
        if k == 'Add':
            return C.Add(owner=o, feature=f, value=w.val(cmd[3]), index=cmd[4])
        if k == 'Remove':
            return C.Remove(owner=o, feature=f, value=w.val(cmd[3]), index=cmd[4])
        if k == 'Move':
            return C.Move(owner=o, feature=f, value=w.val(cmd[3]), from_index=cmd[4], to_index=cmd[5])
        raise AssertionError(cmd)

    def do(self, sop):
        """-> outcome code (0 = returned, otherwise kimpl.EXN code of the exception)"""
        try:
            if sop[0] == 'exec':
                self.stack.execute(self.build(sop[1]))
            elif sop[0] == 'exec*':
                # ONE call stack.execute(c1, c2, ...)
                self.stack.execute(*[self.build(c) for c in sop[1]])
            elif sop[0] == 'undo':
                self.stack.undo()
            elif sop[0] == 'redo':
                self.stack.redo()
            else:
                raise AssertionError(sop)
            return 0
        except AssertionError:
            raise
        except Exception as e:  # noqa
            return kimpl.exn_code(e)

    def dump(self):
        return self.w.dump()

    def run_word(self, word=None):
        """[{'op', 'outcome': (code, None), 'dump', 'log', 'views'}] after every stack operation"""
        steps = []
        for sop in (self.case['word'] if word is None else word):
            code = self.do(sop)
            steps.append({'op': sop, 'outcome': (code, None), 'dump': self.w.dump(), 'log': self.w.take_log(),
                          'views': self.w.views()})
        return steps
