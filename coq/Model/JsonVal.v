(* The value mapping of the JSON resource for attributes
   (pyecore/resources/json.py: JsonResource.to_dict, the last three branches
   and the `obj is None` test; JsonResource.process_inst, attribute cases).

   save:  None -> null ; a type whose Python type is int/float/bool/str -> the
          value itself (JSON number / boolean / string) ; any other type ->
          the JSON string eType.to_string(value)
   load:  null -> None ; anything else -> eType.from_string(x), x being the
          JSON value (for lists: element-wise)

   json.dumps / json.loads are outside (assumption A-json: they map int,
   float, bool, str, None, list to themselves).  Floats are named by their
   IEEE-754 bit pattern.  Values of the non-native types (Decimal, datetime,
   enumeration literals ...) are abstract: a type O with its to_string and
   from_string; the extracted instance takes O := the canonical text.

   No proofs here. *)
From Coq Require Import ZArith List Bool.
From PyecoreV Require Import Model.XmiAttr.
Import ListNotations.
Open Scope Z_scope.

(* feature._eType.eType in (int, float, bool, str), or something else *)
Inductive etag : Type := TInt | TFloat | TBool | TStr | TOther.

Inductive pyv (O : Type) : Type :=
| PNone
| PInt (z : Z)
| PFloat (bits : Z)
| PBool (b : bool)
| PStr (s : str)
| PObj (o : O)
| PRaise.          (* the conversion raises / is outside the model *)
Arguments PNone {O}.
Arguments PInt {O} z.
Arguments PFloat {O} bits.
Arguments PBool {O} b.
Arguments PStr {O} s.
Arguments PObj {O} o.
Arguments PRaise {O}.

Inductive jv : Type :=
| JNull
| JInt (z : Z)
| JFloat (bits : Z)
| JBool (b : bool)
| JStr (s : str)
| JBad.            (* not JSON-serialisable by the default encoder *)

Definition native (t : etag) : bool :=
  match t with TOther => false | _ => true end.

Section Conv.
  Variable O : Type.
  Variable to_string : O -> str.            (* eType.to_string on the type's own values *)
  Variable from_string : str -> option O.   (* eType.from_string on a text; None = raises *)

  (* to_dict for one attribute value *)
  Definition to_json (t : etag) (v : pyv O) : jv :=
    match v with
    | PNone => JNull
    | PRaise => JBad
    | _ =>
      if native t then
        match v with
        | PInt z => JInt z | PFloat f => JFloat f | PBool b => JBool b | PStr s => JStr s
        | _ => JBad
        end
      else
        match v with
        | PObj o => JStr (to_string o)
        | PStr s => JStr s                 (* an enumeration literal given by name: str(name) *)
        | _ => JBad
        end
    end.

  Definition str_True : str := [84; 114; 117; 101].
  Definition str_true : str := [116; 114; 117; 101].

  (* eType.from_string applied to a JSON value, per Python type of the data type:
       int   -> int(x)          float -> float(x)
       bool  -> x in ['True','true'] or x is True
       str   -> x (EDataType.from_string is the identity)
       other -> the type's from_string *)
  Definition conv (t : etag) (j : jv) : pyv O :=
    match t, j with
    | TInt, JInt z => PInt z
    | TInt, JBool b => PInt (if b then 1 else 0)
    | TFloat, JFloat f => PFloat f
    | TBool, JBool b => PBool b
    | TBool, JStr s => PBool (str_eqb s str_True || str_eqb s str_true)
    | TBool, (JInt _ | JFloat _) => PBool false
    | TStr, JInt z => PInt z
    | TStr, JFloat f => PFloat f
    | TStr, JBool b => PBool b
    | TStr, JStr s => PStr s
    | TOther, JStr s => match from_string s with Some o => PObj o | None => PRaise end
    | _, _ => PRaise
    end.

  (* process_inst for one attribute value *)
  Definition from_json (t : etag) (j : jv) : pyv O :=
    match j with
    | JNull => PNone
    | _ => conv t j
    end.

  (* the value belongs to the data type (None is always accepted) *)
  Definition well_typed (t : etag) (v : pyv O) : Prop :=
    match v, t with
    | PNone, _ => True
    | PInt _, TInt | PFloat _, TFloat | PBool _, TBool | PStr _, TStr | PObj _, TOther => True
    | _, _ => False
    end.

  (* JSON type of a value *)
  Inductive jkind : Type := KNull | KNumberInt | KNumberFloat | KBoolean | KString | KBad.
  Definition kind_of (j : jv) : jkind :=
    match j with
    | JNull => KNull | JInt _ => KNumberInt | JFloat _ => KNumberFloat
    | JBool _ => KBoolean | JStr _ => KString | JBad => KBad
    end.
  Definition kind_of_tag (t : etag) : jkind :=
    match t with
    | TInt => KNumberInt | TFloat => KNumberFloat | TBool => KBoolean | TStr => KString
    | TOther => KString
    end.
End Conv.
Arguments to_json {O} to_string t v.
Arguments conv {O} from_string t j.
Arguments from_json {O} from_string t j.
Arguments well_typed {O} t v.

(* ---------- token codec (O := canonical text) ---------- *)
Definition tag_of (c : Z) : etag :=
  if c =? 0 then TInt else if c =? 1 then TFloat else if c =? 2 then TBool
  else if c =? 3 then TStr else TOther.

(* value: 0 | 1 z | 2 bits | 3 b | 4 <str> | 5 <str> (object named by its text) | 9 *)
Definition get_pyv (t : list Z) : pyv str :=
  match t with
  | 1 :: z :: _ => PInt z
  | 2 :: f :: _ => PFloat f
  | 3 :: b :: _ => PBool (b =? 1)
  | 4 :: r => PStr (unsome (fst (get_ostr r)))
  | 5 :: r => PObj (unsome (fst (get_ostr r)))
  | 0 :: _ => PNone
  | _ => PRaise
  end.
Definition put_pyv (v : pyv str) : list Z :=
  match v with
  | PNone => [0]
  | PInt z => [1; z]
  | PFloat f => [2; f]
  | PBool b => [3; if b then 1 else 0]
  | PStr s => 4 :: put_ostr (Some s)
  | PObj s => 5 :: put_ostr (Some s)
  | PRaise => [9]
  end.
Definition put_jv (j : jv) : list Z :=
  match j with
  | JNull => [0]
  | JInt z => [1; z]
  | JFloat f => [2; f]
  | JBool b => [3; if b then 1 else 0]
  | JStr s => 4 :: put_ostr (Some s)
  | JBad => [9]
  end.

(* request: tag value -> the JSON value written, then the value read back from it *)
Definition run_jsonval (t : list Z) : list Z :=
  match t with
  | c :: r =>
    let tg := tag_of c in
    let j := to_json (fun s : str => s) tg (get_pyv r) in
    put_jv j ++ put_pyv (from_json (fun s : str => Some s) tg j)
  | [] => []
  end.
