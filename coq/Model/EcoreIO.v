(* Executable face of the Ecore table for the correspondence (harness/props/c10.py):
   which signature features the model predicts a serialiser walking `_isset`
   cannot reach.  Answer: indices into EcoreTable.signature_features. *)
From Coq Require Import String List Bool ZArith.
From PyecoreV Require Import Model.EcoreTable Gen.EcoreMM.
Import ListNotations.

Fixpoint indices_where {A} (p : A -> bool) (i : Z) (l : list A) : list Z :=
  match l with
  | [] => []
  | x :: r => if p x then i :: indices_where p (i + 1)%Z r else indices_where p (i + 1)%Z r
  end.

Definition run_ecoremm (_ : list Z) : list Z :=
  indices_where
    (fun cn => match lookup_feature ecore_classes ecore_features (fst cn) (snd cn) with
               | Some f => negb (written f)
               | None => true
               end) 0%Z signature_features.
