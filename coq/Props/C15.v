(* C15 — unset features read as their default, privately, and reading is free.
   Statements only; proofs in Proofs/C15Proofs.v over Model/Defaults.v
   (EAttribute.get_default_value with its three sources, the data type's
   factory defaults, materialisation on first access, __set__, __delete__;
   containers built by a factory have identity = a heap location).
   For every declaration (literal / explicit default / type default / factory
   type), every number of objects and attributes, every history of reads,
   writes, deletes and in-place mutations:
   * a never-set feature reads as its declared default (literal, else explicit,
     else the type's; an empty container for factory types);
   * a read changes no eIsSet flag and no value any read would return (so
     nothing a save writes: the writer only walks isset features and values);
   * deleting a feature makes it read as its default again;
   * no container location is held by two slots, in every reachable state,
     hence mutating the value obtained from one object never changes what any
     other (object, feature) reads.
   Multi-valued attributes: theorems at the end of this file over the KERNEL
   model (Model/Kernel.v, Proofs/C15Many.v), tied to /repo by the kernel
   correspondence on values AND eIsSet flags (harness/props/c15.py, part M).
   The bytes of save() before/after reads are decided by the oracle. *)
From Coq Require Import ZArith List Bool Arith.
From PyecoreV Require Import Lib.PyBase Model.Defaults Proofs.C15Proofs Model.Kernel Proofs.C15Many.
Import ListNotations.

Theorem C15_never_set_reads_default :
  forall decl s o a, slot s o a = None -> dview_at decl s o a = default_view (decl a).
Proof. exact never_set_reads_default. Qed.
Print Assumptions C15_never_set_reads_default.

Theorem C15_read_keeps_isset :
  forall decl s o a, dset (snd (dread decl s o a)) = dset s.
Proof. exact read_keeps_isset. Qed.
Print Assumptions C15_read_keeps_isset.

Theorem C15_read_changes_no_value :
  forall decl s o a o' a', dwf s ->
    dview_at decl (snd (dread decl s o a)) o' a' = dview_at decl s o' a'.
Proof. exact read_keeps_every_view. Qed.
Print Assumptions C15_read_changes_no_value.

Theorem C15_delete_restores_default :
  forall decl s o a, dview_at decl (ddel decl s o a) o a = default_view (decl a).
Proof. exact del_restores_default. Qed.
Print Assumptions C15_delete_restores_default.

Theorem C15_state_is_private_in_every_reachable_state :
  forall decl ops, dwf (fold_left (dstep decl) ops dinit).
Proof. intros decl ops. apply dwf_history. apply dwf_init. Qed.
Print Assumptions C15_state_is_private_in_every_reachable_state.

Theorem C15_mutation_is_private :
  forall decl s o a x o' a', dwf s -> (o, a) <> (o', a') ->
    dview_at decl (dmutate decl s o a x) o' a' = dview_at decl s o' a'.
Proof. exact mutation_is_private. Qed.
Print Assumptions C15_mutation_is_private.

(* non-vacuity: a map-typed attribute on two instances *)
Example C15_witness :
  let decl := fun _ => {| a_literal := None; a_explicit := None; a_tdefault := TDFactory |} in
  let s := fold_left (dstep decl) [DRead 0 0; DRead 1 0; DMutate 0 0 7%Z] dinit in
  dview_at decl s 0 0 = WList [7%Z] /\ dview_at decl s 1 0 = WList [] /\ dset s 0 0 = false.
Proof. vm_compute. repeat split; reflexivity. Qed.


(* ---------------- multi-valued attributes, on the kernel model ---------------- *)
Theorem C15_many_valued_never_written_reads_empty :
  forall m x f, f_many (fd m f) = true ->
  vals (init_state m) (x, f) = [] /\ isset (init_state m) (x, f) = false.
Proof. exact many_never_written. Qed.
Print Assumptions C15_many_valued_never_written_reads_empty.

Theorem C15_many_valued_read_is_free :
  forall m s x f, next m s (ORead x f) = s /\ fst (step m s (ORead x f)) = (None, s).
Proof. exact read_is_free. Qed.
Print Assumptions C15_many_valued_read_is_free.

Theorem C15_many_valued_delete_restores_empty :
  forall m f, f_isref (fd m f) = false -> f_many (fd m f) = true ->
  forall s x,
  fst (fst (step m s (ODel x f))) = None /\
  vals (next m s (ODel x f)) (x, f) = [] /\
  (forall k, k <> (x, f) -> vals (next m s (ODel x f)) k = vals s k).
Proof. exact del_restores_empty. Qed.
Print Assumptions C15_many_valued_delete_restores_empty.

(* every call on x.f leaves every other slot (other objects, other features) as it was *)
Theorem C15_many_valued_state_is_private :
  forall m f, f_isref (fd m f) = false -> f_many (fd m f) = true ->
  forall s x k, k <> (x, f) ->
  (forall v, vals (next m s (OAppend x f v)) k = vals s k) /\
  (forall i v, vals (next m s (OInsert x f i v)) k = vals s k) /\
  (forall v, vals (next m s (ORemove x f v)) k = vals s k) /\
  (forall vs, vals (next m s (OExtend x f vs)) k = vals s k) /\
  (forall vs, vals (next m s (OAssign x f vs)) k = vals s k) /\
  vals (next m s (OClear x f)) k = vals s k /\
  vals (next m s (ODel x f)) k = vals s k.
Proof. exact many_attr_calls_private. Qed.
Print Assumptions C15_many_valued_state_is_private.

(* writing nothing is a write: the feature is set afterwards, and still empty / unchanged *)
Theorem C15_many_valued_empty_writes :
  forall m f, f_isref (fd m f) = false -> f_many (fd m f) = true ->
  forall s x,
  (vals (next m s (OExtend x f [])) (x, f) = vals s (x, f) /\ isset (next m s (OExtend x f [])) (x, f) = true) /\
  (vals (next m s (OAssign x f [])) (x, f) = [] /\ isset (next m s (OAssign x f [])) (x, f) = true).
Proof.
  intros m f Ha Hm s x. split.
  - destruct (empty_extend_marks_set m f s x) as [H1 [H2 _]]. split; assumption.
  - destruct (empty_assign_marks_set m f Ha Hm s x) as [H1 [H2 _]]. split; assumption.
Qed.
Print Assumptions C15_many_valued_empty_writes.
