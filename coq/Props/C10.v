(* C10 — a metamodel survives a trip through an .ecore file.
   Statements only; proofs are in Proofs/EcoreProofs.v.

   What is proved here is the part of C10 that is a fact about pyecore's Ecore
   SELF-DESCRIPTION (Gen/EcoreMM.v, regenerated from pyecore/ecore.py on every
   check): (1) the Ecore metamodel is itself a well-formed metamodel in the sense
   the kernel theorems (C01/C02) assume of any metamodel, so those theorems apply
   to metamodel elements as instances of Ecore; (2) every meta-feature the
   structural signature of a metamodel is made of is a declared, non-derived,
   non-transient feature whose value is recorded in `_isset` when assigned
   through its name — the precondition under which the generic serialiser
   (xmi.py:_go_across walks `_isset`) can write it.
   NOT proved here (rests on the correspondence/oracle of harness/props/c10.py):
   that the XMI writer and reader are inverse on those features, name-based
   fragments resolve, instances of reloaded classes behave like the originals. *)
From Coq Require Import String List Bool ZArith.
From PyecoreV Require Import Model.EcoreTable Gen.EcoreMM Proofs.EcoreProofs.
Import ListNotations.
Open Scope string_scope.

(* the translator recognised every statement of the self-description, and no
   subclass hides an inherited feature behind a Python property *)
Theorem ecore_table_complete : ecore_unrecognised = [] /\ ecore_subclass_shadows = [].
Proof. exact table_complete. Qed.
Print Assumptions ecore_table_complete.

(* eOpposite (as completed by the setter: the declared partner, or the feature
   that declares me) is an involution between references, and a declared
   partner exists *)
Theorem ecore_opposites_involutive :
  forall f, In f ecore_features ->
    (forall k, f_opposite f = Some k -> exists g, eff_opp ecore_features f = Some g) /\
    (forall g, eff_opp ecore_features f = Some g ->
       is_ref f = true /\ is_ref g = true /\
       exists f', eff_opp ecore_features g = Some f' /\ key f' = key f).
Proof. exact (involutive_of_chk ecore_features chk_involutive_ok). Qed.
Print Assumptions ecore_opposites_involutive.

(* the type of each end is the class that owns the other end *)
Theorem ecore_opposite_types_agree :
  forall f g, In f ecore_features -> eff_opp ecore_features f = Some g ->
    f_type f = f_owner g /\ f_type g = f_owner f.
Proof. exact (types_of_chk ecore_features chk_types_ok). Qed.
Print Assumptions ecore_opposite_types_agree.

(* the end opposite to a containment is single-valued and is not a containment (C02's shape) *)
Theorem ecore_container_ends_single :
  forall f g, In f ecore_features -> eff_opp ecore_features f = Some g -> f_containment g = true ->
    f_many f = false /\ f_containment f = false.
Proof. exact (container_of_chk ecore_features chk_container_ok). Qed.
Print Assumptions ecore_container_ends_single.

(* a many-valued end of a bidirectional reference is unique (C01's wf_opp) *)
Theorem ecore_many_bidirectional_unique :
  forall f g, In f ecore_features -> eff_opp ecore_features f = Some g -> f_many f = true -> f_unique f = true.
Proof. exact (many_unique_of_chk ecore_features chk_many_ok). Qed.
Print Assumptions ecore_many_bidirectional_unique.

(* references are typed by classes, attributes by declared data types, owners are classes;
   no class declares two features under one name *)
Theorem ecore_typed_and_named :
  chk_typed ecore_classes ecore_datatypes ecore_features = true /\
  chk_own_names_unique ecore_features = true.
Proof. exact (conj chk_typed_ok chk_names_ok). Qed.
Print Assumptions ecore_typed_and_named.

(* Every meta-feature of the structural signature is reachable by a serialiser
   that walks `_isset`: declared by the metaclass or a supertype, recorded in
   `_isset` when assigned through its name, neither derived nor transient. *)
Theorem C10_written :
  forall c n, In (c, n) signature_features ->
    exists f, lookup_feature ecore_classes ecore_features c n = Some f /\
              In f ecore_features /\ f_name f = n /\
              reaches_isset f = true /\ f_derived f = false /\ f_transient f = false.
Proof. exact C10_written_proof. Qed.
Print Assumptions C10_written.

(* non-vacuity: the table is the real thing *)
Example C10_witness :
  length ecore_features = 66%nat /\
  length (filter (fun f => match eff_opp ecore_features f with Some _ => true | None => false end) ecore_features) = 16%nat /\
  not_written ecore_classes ecore_features signature_features = [].
Proof. vm_compute. repeat split; reflexivity. Qed.

(* ---- name-based fragments of classifiers and sub-packages (Model/NameFrag.v: the walk of
   Resource._navigate_from, sub-packages first; tied to the running resolver by the
   correspondence of harness/props/c10.py, family nsprefix, through run_namefrag) ---- *)
From PyecoreV Require Import Model.NameFrag Proofs.NameFragProofs.

(* PARTIAL: a package is found at its fragment; a classifier is found at its fragment provided no
   sub-package of its package bears its name.  Missing: the members of classifiers (features,
   operations: C11's subject) and the namesake case, which is refuted below. *)
Theorem C10_name_fragment_partial :
  forall root path q,
    package_at root path = Some q ->
    resolve root (fragment (TPackage path)) = Some (TPackage path) /\
    (forall n, In n (pkg_classifiers q) -> kinds_disjoint_at q = true ->
       resolve root (fragment (TClassifier path n)) = Some (TClassifier path n)).
Proof. exact name_fragment_partial. Qed.
Print Assumptions C10_name_fragment_partial.

(* a classifier named like a sub-package of its package: its fragment designates the sub-package *)
Theorem C10_namesake_designates_subpackage :
  forall root path q n s,
    package_at root path = Some q -> find_sub n (pkg_subs q) = Some s ->
    resolve root (fragment (TClassifier path n)) = Some (TPackage (path ++ [n])).
Proof. exact namesake_takes_the_subpackage. Qed.
Print Assumptions C10_namesake_designates_subpackage.

(* known finding F-C10-namesake-classifier-referenced: class 7 next to sub-package 7 (holding class 2):
   '#//7' meant for the class gives the package, while '#//7/2' (into the sub-package) is right *)
Example C10_namesake_classifier_refuted :
  let root := Pkg 0%Z [7%Z; 1%Z] [Pkg 7%Z [2%Z] []] in
  In 7%Z (pkg_classifiers root) /\
  resolve root (fragment (TClassifier [] 7%Z)) = Some (TPackage [7%Z]) /\
  resolve root (fragment (TClassifier [] 7%Z)) <> Some (TClassifier [] 7%Z) /\
  resolve root (fragment (TClassifier [7%Z] 2%Z)) = Some (TClassifier [7%Z] 2%Z) /\
  run_namefrag [0;2;7;1;1; 7;1;2;0; 1;7]%Z = [1;7]%Z.
Proof. vm_compute. repeat split; try reflexivity; try (left; reflexivity); discriminate. Qed.
