(* C18 — a load that fails leaves no trace, and whatever loads is well-formed.
   Statements only; proofs are in Proofs/ResourceSetProofs.v.

   What is proved here is the REGISTRY half of the property, on the model of
   ResourceSet.create_resource / get_resource / remove_resource and
   Resource._try_resource_autoload (Model/ResourceSet.v), for every load script,
   i.e. for every finite tree of nested autoloads with arbitrary outcomes:
     - failure: no key (URI or alias) is bound to the failed resource, the URI is
       unbound, every earlier binding is intact and in place; what was added are
       bindings of OTHER resources that were created and loaded successfully on
       the way (nested autoloads that succeeded stay registered: the property asks
       for "no entry for that URI" and "previously loaded resources unchanged",
       both hold);
     - success: the URI is bound to the new resource, earlier bindings intact;
     - asking twice returns the same resource and changes nothing;
     - without nested requests get_resource IS the finite-map operation;
     - "never hangs": get_resource is a structural recursion over the script and
       decode a structural recursion over the element tree.
   Named _partial because the second half of the property — the objects of a
   model that did load satisfy C01-C03, and the OBJECTS of previously loaded
   resources are unchanged after a failure — is about the decoders (xmi.py /
   json.py on top of the kernel), which this model abstracts to `decode` (a fold
   with an oracle per element).  That half is checked on the implementation only
   (harness/props/c18.py) and has known findings (known_findings.json, C18). *)
From Coq Require Import ZArith List Bool.
From PyecoreV Require Import Lib.PyBase Model.ResourceSet Proofs.ResourceSetProofs.
From PyecoreV Require Model.Kernel Proofs.C01Proofs Proofs.C01Full Proofs.C03Proofs Proofs.WFBase Proofs.OwnAll Proofs.WFCorollaries.
Import ListNotations.
Open Scope Z_scope.

Theorem C18_failure_leaves_no_entry_partial :
  forall uri sc s s',
    wf s -> rlookup uri (resources s) = None -> get_resource uri sc s = (LErr, s') ->
    wf s' /\
    rlookup uri (resources s') = None /\
    (forall k v, In (k, v) (resources s') -> v <> next_rid s) /\
    exists added, resources s' = resources s ++ added /\ forall k v, In (k, v) added -> next_rid s < v.
Proof. exact get_failure. Qed.
Print Assumptions C18_failure_leaves_no_entry_partial.

Theorem C18_failure_without_nested_loads_restores_registry_partial :
  forall uri s,
    wf s -> rlookup uri (resources s) = None ->
    resources (snd (get_resource uri (Script [] false) s)) = resources s /\
    fst (get_resource uri (Script [] false) s) = LErr.
Proof. exact get_failure_leaf. Qed.
Print Assumptions C18_failure_without_nested_loads_restores_registry_partial.

Theorem C18_success_binds_exactly_partial :
  forall uri sc s s' r,
    wf s -> rlookup uri (resources s) = None -> get_resource uri sc s = (LOk r, s') ->
    wf s' /\ r = next_rid s /\
    rlookup uri (resources s') = Some r /\
    exists more, resources s' = resources s ++ (uri, r) :: more /\ forall k v, In (k, v) more -> r <= v.
Proof. exact get_success. Qed.
Print Assumptions C18_success_binds_exactly_partial.

Theorem C18_asking_twice_same_resource_partial :
  forall uri sc sc' s s' r,
    wf s -> get_resource uri sc s = (LOk r, s') -> get_resource uri sc' s' = (LOk r, s').
Proof. exact get_twice. Qed.
Print Assumptions C18_asking_twice_same_resource_partial.

Theorem C18_earlier_bindings_survive_partial :
  forall uri sc s k v,
    wf s -> rlookup k (resources s) = Some v ->
    rlookup k (resources (snd (get_resource uri sc s))) = Some v.
Proof. exact get_preserves. Qed.
Print Assumptions C18_earlier_bindings_survive_partial.

Theorem C18_refines_finite_map_partial :
  forall uri ok s,
    wf s ->
    let (res, s') := get_resource uri (Script [] ok) s in
    let (res_spec, m') := spec_get uri ok (next_rid s) (as_map s) in
    res = res_spec /\ forall k, as_map s' k = m' k.
Proof. exact get_refines_map. Qed.
Print Assumptions C18_refines_finite_map_partial.

(* the invariant the theorems assume holds initially and after every operation *)
Theorem C18_registry_invariant_partial :
  wf rs_empty /\
  (forall uri sc s, wf s -> wf (snd (get_resource uri sc s))) /\
  (forall r s, wf s -> wf (remove_resource r s)).
Proof. exact (conj wf_empty (conj get_wf wf_remove)). Qed.
Print Assumptions C18_registry_invariant_partial.

(* decode is total and all-or-nothing: a count of built objects, or the exception
   of the first rejected element *)
Theorem C18_decode_all_or_nothing_partial :
  forall d n, decode d n = if all_accepted d then Ok (n + doc_size d) else Err ValueErr.
Proof. exact decode_spec. Qed.
Print Assumptions C18_decode_all_or_nothing_partial.

(* non-vacuity.  Keys: 10 = m2.xmi, 20 = ext.xmi, 30 = main.xmi (the strings "ext.xmi" = 21 and
   "main.xmi" = 31 as written in the hrefs; relative hrefs normalise to 20 / 30, so no alias is kept).
   m2 asks for ext, ext asks for main; then m2 fails: ext and main stay, m2 is gone.
   Second scenario: the nested load fails, nothing stays.  Third: a cycle back to the requester is
   answered from the registry.  Fourth: a MAPPED uri (string 41 normalises to 42 but is loaded from 40)
   keeps its alias, which survives the failure of the requester and answers the next request. *)
Example C18_witness :
  get_resource 10 (Script [(21, 20, 20, Script [(31, 30, 30, Script [] true)] true)] false) rs_empty
    = (LErr, {| resources := [(20, 1); (30, 2)]; next_rid := 3 |}) /\
  get_resource 10 (Script [(21, 20, 20, Script [] false)] true) rs_empty
    = (LErr, {| resources := []; next_rid := 2 |}) /\
  get_resource 10 (Script [(21, 20, 20, Script [(11, 10, 10, Script [] true)] true)] true) rs_empty
    = (LOk 0, {| resources := [(10, 0); (20, 1)]; next_rid := 2 |}) /\
  get_resource 10 (Script [(41, 42, 40, Script [] true); (41, 42, 40, Script [] false)] false) rs_empty
    = (LErr, {| resources := [(40, 1); (41, 1)]; next_rid := 2 |}) /\
  decode (El true [El true []; El false [El true []]; El true []]) 0 = Err ValueErr /\
  decode (El true [El true []; El true [El true []]]) 0 = Ok 4.
Proof. vm_compute. repeat split; reflexivity. Qed.

(* ---------- "whatever loads is well-formed", as far as the kernel theorems reach ----------
   The decoders (xmi.py / json.py) build the loaded model by calling the public operations of the kernel
   (attribute assignment, eSet, append/extend on collections, Resource.append).  The kernel theorems quantify
   over EVERY sequence of such operations, so they apply to whatever sequence a decoder issues for whatever
   document: the state it reaches satisfies the global invariant (C01 symmetry, C02 ownership) and C03's typing.
   That the decoders use only these operations is not a theorem (it is the modelling of the loaders as clients of
   the kernel); the oracle of harness/props/c18.py re-checks C01-C03 on every model that loads. *)
Theorem C18_whatever_the_public_operations_build_is_well_formed :
  forall m, WFBase.wf_mm m -> C01Full.ref_defaults_none m ->
  forall ops, Forall (OwnAll.op_many m) ops ->
    WFBase.WF m (WFCorollaries.reach m ops).
Proof. exact WFCorollaries.reach_WF. Qed.
Print Assumptions C18_whatever_the_public_operations_build_is_well_formed.

Theorem C18_whatever_the_public_operations_build_is_well_typed :
  forall m ops s,
    C03Proofs.typed m s -> Forall (C03Proofs.op_ok m) ops ->
    C03Proofs.typed m (fold_left (Kernel.next m) ops s).
Proof. exact C03Proofs.typed_history. Qed.
Print Assumptions C18_whatever_the_public_operations_build_is_well_typed.
