"""The kernel properties restated as predicates over public observations of the
implementation (dumps produced by kimpl.World).  Independent of the Coq model:
used to exhibit failing inputs and to give replays their content."""
from harness import kgen

NONE_TOK = -99999


def objs_of(vals):
    return [p for (t, p) in vals if t == 1]


class MM:
    def __init__(self, case):
        self.mm = case['mm']
        self.ff = kgen.flat_features(self.mm)
        self.opp = kgen.opposite_index(self.mm)
        self.sup = kgen.supers_closure(self.mm)
        self.objs = case['objs']
        self.case = case

    def fd(self, fi):
        return self.ff[fi][1]

    def conforms_cls(self, cls, typ):
        return cls == typ or typ in self.sup[cls]


# ---------------- C01 ----------------
def c01_sym(m, d):
    out = []
    for x, od in enumerate(d['objs']):
        for fi, vals in od['feats'].items():
            g = m.opp.get(fi)
            if g is None:
                continue
            for y in objs_of(vals):
                back = d['objs'][y]['feats'].get(g)
                if back is None or x not in objs_of(back):
                    out.append(('sym', f'obj{y} in obj{x}.{m.fd(fi)["name"]} but obj{x} not in obj{y}.{m.fd(g)["name"]}'))
    return out


# ---------------- C02 ----------------
def owners(m, d):
    """child -> list of owners, each ('c', parent, fi) or ('r', rid), with multiplicity"""
    own = {i: [] for i in range(len(d['objs']))}
    for p, od in enumerate(d['objs']):
        for fi, vals in od['feats'].items():
            if m.fd(fi)['kind'] == 'ref' and m.fd(fi)['containment']:
                for c in objs_of(vals):
                    own[c].append(('c', p, fi))
    for r, cont in enumerate(d['res']):
        for c in cont:
            if c >= 0:
                own[c].append(('r', r))
    return own


def c02_own(m, d):
    out = []
    own = owners(m, d)
    for c, lst in own.items():
        od = d['objs'][c]
        if len(lst) > 1:
            out.append(('single-owner', f'obj{c} has owners {lst}'))
            continue
        cont = [o for o in lst if o[0] == 'c']
        if cont:
            _, p, fi = cont[0]
            if od['container'] != p or od['cfeature'] != fi:
                out.append(('back-pointer', f'obj{c} held by obj{p}.{m.fd(fi)["name"]} but eContainer/eContainmentFeature say {od["container"]}/{od["cfeature"]}'))
        else:
            if od['container'] != NONE_TOK or od['cfeature'] != NONE_TOK:
                out.append(('back-pointer', f'obj{c} is in no containment slot but eContainer()={od["container"]} feature={od["cfeature"]}'))
    if out:
        return out
    # resource of every object = resource holding its root
    for c, od in enumerate(d['objs']):
        root, seen = c, set()
        while d['objs'][root]['container'] not in (NONE_TOK,) and root not in seen:
            seen.add(root)
            root = d['objs'][root]['container']
        rr = [o[1] for o in own[root] if o[0] == 'r']
        want = rr[0] if rr else NONE_TOK
        if od['resource'] != want:
            out.append(('resource', f'obj{c}.eResource={od["resource"]} but its root obj{root} is in resource {want}'))
    return out


def ownership_projection(m, d):
    return ([(od['container'], od['cfeature'], od['resource']) for od in d['objs']],
            [[(fi, tuple(objs_of(v))) for fi, v in sorted(od['feats'].items())
              if m.fd(fi)['kind'] == 'ref' and m.fd(fi)['containment']] for od in d['objs']],
            d['res'])


# ---------------- C03 ----------------
def conforms(m, fd, tokv, single_none_ok=True):
    t, p = tokv
    if t == 0:
        return True
    if fd['kind'] == 'ref':
        return t == 1 and m.conforms_cls(m.objs[p], fd['type'])
    ty = fd['type']
    if ty == 'EInt':
        return t in (2, 4)
    if ty == 'EString':
        return t == 3
    if ty == 'EBoolean':
        return t == 4
    if ty == 'EDouble':
        return t == 6
    if ty == 'EJavaObject':
        return True
    # enumeration: literal of that enum, or the name of one
    ei = next(i for i, e in enumerate(m.mm['enums']) if e['name'] == ty)
    if t == 5:
        return p // 100 == ei
    if t == 3:
        return m.case['strings'][p] in m.mm['enums'][ei]['literals']
    return False


def c03_typed(m, d):
    out = []
    for x, od in enumerate(d['objs']):
        for fi, vals in od['feats'].items():
            fd = m.fd(fi)
            for v in vals:
                if fd['many'] and v[0] == 0 and fd['kind'] == 'ref':
                    out.append(('none-in-collection', f'obj{x}.{fd["name"]} holds None'))
                elif not conforms(m, fd, v):
                    out.append(('typed', f'obj{x}.{fd["name"]} holds {v}, not a {fd["type"]}'))
    return out


def c03_op(m, op, outcome, pre, post):
    """reject/accept clauses for the single-value operations"""
    out = []
    k = op[0]
    if k not in ('set', 'append', 'add', 'insert', 'setitem'):
        return out
    fd = m.fd(op[2])
    v = op[3] if k in ('set', 'append', 'add') else op[4]
    tv = tokv(v)
    if fd['many'] and tv[0] == 0:
        return out      # None into a collection: outside the claim (DESIGN appendix D)
    ok = conforms(m, fd, tv)
    if not ok:
        if outcome[0] != 4:
            out.append(('reject', f'{op} stores a non-conforming value but outcome is {outcome[0]} (BadValueError expected)'))
        if pre != post:
            out.append(('rejected-op-changed-state', f'{op} was rejected but the state changed'))
    else:
        if outcome[0] == 4:
            out.append(('accept', f'{op} has a conforming value but BadValueError was raised'))
    return out


def tokv(v):
    if v is None:
        return (0, 0)
    t = v[0]
    if t == 'k':
        return (2, 777)       # a classifier object offered as a value: like any non-object, never conforms to a reference
    return {'o': (1, v[1]), 'i': (2, v[1]), 's': (3, v[1]), 'b': (4, v[1]), 'f': (6, v[1]),
            'e': (5, v[1] * 100 + (v[2] if len(v) > 2 else 0))}[t]


# ---------------- C05 ----------------
def pyeq(t):
    """token normalised for Python equality (True == 1 == 1.0)"""
    t = tuple(t)
    if t[0] == 4:
        return (2, t[1])
    if t[0] == 6 and t[1] % 2 == 0:
        return (2, t[1] // 2)
    return t


class Mirror:
    """An observer that starts from the initial values and applies each reported change."""

    def __init__(self, m, d0):
        self.m = m
        self.view = {(x, fi): [pyeq(v) for v in vals if tuple(v) != (0, 0) or m.fd(fi)['many']]
                     for x, od in enumerate(d0['objs']) for fi, vals in od['feats'].items()}
        for (x, fi), v in list(self.view.items()):
            if not m.fd(fi)['many']:
                self.view[(x, fi)] = [pyeq(d0['objs'][x]['feats'][fi][0])]

    def apply(self, log):
        problems = []
        seen = set()
        for who, notifier, fi, kind, old, new in log:
            old = (old[0], pyeq(old[1]) if old[0] == 'one' else [pyeq(t) for t in old[1]])
            new = (new[0], pyeq(new[1]) if new[0] == 'one' else [pyeq(t) for t in new[1]])
            if who[0] != 'o':
                continue         # resource listeners get copies; the object's own observers define the mirror
            if who[1] != notifier:
                problems.append(('wrong-notifier', f'observer of obj{who[1]} received a change of obj{notifier}'))
                continue
            key = (notifier, fi)
            if key not in self.view:
                problems.append(('unknown-feature', f'notification for obj{notifier} feature {fi}'))
                continue
            many = self.m.fd(fi)['many']
            cur = self.view[key]
            if kind in (5, 6):          # SET / UNSET
                if many:
                    problems.append(('kind', f'SET/UNSET on many-valued feature {fi}'))
                else:
                    if old[0] == 'one' and [old[1]] != cur:
                        problems.append(('old-payload', f'obj{notifier}.{self.m.fd(fi)["name"]} SET old={old[1]} but observer had {cur}'))
                    self.view[key] = [new[1]] if new[0] == 'one' else list(new[1])
            elif kind in (0, 1):        # ADD / ADD_MANY (a set for unique features)
                items = [new[1]] if new[0] == 'one' else list(new[1])
                uniq = self.m.fd(fi)['unique']
                for it in items:
                    if not (uniq and it in cur):
                        cur.append(it)
            elif kind == 3:             # REMOVE
                items = [old[1]] if old[0] == 'one' else list(old[1])
                for it in items:
                    if it in cur:
                        cur.remove(it)
                    else:
                        problems.append(('remove-absent', f'REMOVE of {it} which the observer does not have in obj{notifier}.{self.m.fd(fi)["name"]}'))
            elif kind == 4:             # REMOVE_MANY
                items = list(old[1]) if old[0] == 'many' else [old[1]]
                for it in items:
                    if it in cur:
                        cur.remove(it)
                    else:
                        problems.append(('remove-absent', f'REMOVE_MANY of {it} not held'))
        return problems

    def compare(self, d):
        out = []
        for (x, fi), cur in self.view.items():
            fd = self.m.fd(fi)
            real = [pyeq(v) for v in d['objs'][x]['feats'][fi]]
            if fd['many'] and fd['unique']:
                ok = set(real) == set(cur) and len(set(cur)) == len(cur) if False else set(real) == set(cur)
            else:
                ok = sorted(real) == sorted(cur)
            if not ok:
                out.append(('mirror', f'obj{x}.{fd["name"]}: really {real}, observer reconstructed {cur}'))
        return out


# ---------------- C07 ----------------
def subtree(m, d, x):
    seen = []
    todo = [x]
    while todo:
        c = todo.pop()
        if c in seen:
            continue
        seen.append(c)
        for fi, vals in d['objs'][c]['feats'].items():
            fd = m.fd(fi)
            if fd['kind'] == 'ref' and fd['containment']:
                todo.extend(objs_of(vals))
    return seen


def c07_delete(m, pre, post, x, recursive):
    out = []
    dead = set(subtree(m, pre, x)) if recursive else {x}
    for y, od in enumerate(post['objs']):
        for fi, vals in od['feats'].items():
            fd = m.fd(fi)
            if fd['kind'] != 'ref':
                if [tuple(v) for v in vals] != [tuple(v) for v in pre['objs'][y]['feats'][fi]]:
                    out.append(('attr-changed', f'obj{y}.{fd["name"]} changed by delete'))
                continue
            now = objs_of(vals)
            if y in dead:
                if now:
                    out.append(('deleted-still-refers', f'deleted obj{y}.{fd["name"]} still holds {now}'))
            else:
                bad = [t for t in now if t in dead]
                if bad:
                    # bag-like references without opposite: the inverse bookkeeping is a set (known finding)
                    bag = fd['many'] and not fd['unique'] and m.opp.get(fi) is None
                    out.append(('dangling-in-nonunique-reference' if bag else 'dangling',
                                f'surviving obj{y}.{fd["name"]} still holds deleted {bad}'))
                want = [t for t in objs_of(pre['objs'][y]['feats'][fi]) if t not in dead]
                if not bad and now != want:
                    out.append(('collateral', f'obj{y}.{fd["name"]} was {objs_of(pre["objs"][y]["feats"][fi])}, expected {want}, is {now}'))
    for y in dead:
        if post['objs'][y]['container'] != NONE_TOK:
            out.append(('deleted-has-container', f'deleted obj{y} still has container {post["objs"][y]["container"]}'))
    return out


# ---------------- C19 ----------------
def c19_views(m, d, views):
    out = []
    for x, vw in enumerate(views):
        kids = []
        for fi in sorted(d['objs'][x]['feats']):
            fd = m.fd(fi)
            if fd['kind'] == 'ref' and fd['containment']:
                kids += objs_of(d['objs'][x]['feats'][fi])
        if sorted(vw['econtents']) != sorted(kids):
            out.append(('econtents', f'obj{x}.eContents={vw["econtents"]} but containment slots hold {kids}'))
        desc = [c for c in subtree(m, d, x) if c != x]
        if sorted(vw['eallcontents']) != sorted(desc) or len(set(vw['eallcontents'])) != len(vw['eallcontents']):
            out.append(('eallcontents', f'obj{x}.eAllContents={vw["eallcontents"]} but descendants are {desc}'))
        root, seen = x, set()
        while d['objs'][root]['container'] != NONE_TOK and root not in seen:
            seen.add(root)
            root = d['objs'][root]['container']
        if vw['eroot'] != root:
            out.append(('eroot', f'obj{x}.eRoot()={vw["eroot"]} but the container chain ends at {root}'))
    return out


# ---------------- C11 ----------------
def c11_fragments(m, d, frags):
    out = []
    byres = {}
    for x, (frag, back) in frags.items():
        if back != x:
            out.append(('resolve', f'obj{x} fragment {frag!r} resolves to {back}'))
        key = (d['objs'][x]['resource'], frag)
        if key in byres:
            out.append(('distinct', f'obj{x} and obj{byres[key]} share fragment {frag!r}'))
        byres[key] = x
    return out
