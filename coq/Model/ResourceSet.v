(* C18 — the registry machine of pyecore.resources.resource.ResourceSet.

   State: `resources` = the dict ResourceSet.resources as an association list in
   insertion order (key = normalised URI or alias string, interned as Z; value =
   resource identity, a fresh number per create_resource), and the counter that
   names the next resource object.

   Operations follow the source statement by statement:

     create_resource(uri)            resource = factory(uri); self.resources[uri.normalize()] = resource
     remove_resource(resource)       for key, value in dict(self.resources).items():
                                         if value is resource: del self.resources[key]
     get_resource(uri)               if uri.normalize() in self.resources: return it
                                     resource = self.create_resource(uri)
                                     try: resource.load()
                                     except Exception: self.remove_resource(resource); raise
                                     return resource

   `resource.load()` is abstracted to a SCRIPT: the sequence of cross-document
   requests the load makes before it ends (Resource.resolve_object ->
   _get_href_decoder -> _try_resource_autoload), each with the script of the
   nested load, and the final outcome of the load itself.  One request:
     - the decoders are asked first; the resource set is one of them
       (ResourceSet.can_resolve: the path normalised against the referring
       resource in self.resources, else the raw string in self.resources): then
       nothing is loaded and nothing registered;
     - otherwise _try_resource_autoload: rset.get_resource(external_uri) and, when
       external_uri.plain != original_uri and the original URI still cannot be
       found through can_resolve (mapped / converted URIs only), the alias entry
       rset.resources[original_uri] = resource;  any exception is re-raised as
       TypeError and ends the requesting load.
   A script is a finite tree, so get_resource is structurally recursive: cyclic
   references between documents terminate because the requesting resource is
   registered BEFORE it is loaded and a request for it is answered from the
   registry.

   `decode` is the shape of the document decoders (_decode_eobject / to_obj): a
   fold over the element tree that stops at the first element it rejects.
   No proofs here. *)
From Coq Require Import ZArith List Bool.
From PyecoreV Require Import Lib.PyBase.
Import ListNotations.
Open Scope Z_scope.

Record rset : Type := { resources : list (Z * Z); next_rid : Z }.

Definition rs_empty : rset := {| resources := []; next_rid := 0 |}.

Fixpoint rlookup (k : Z) (m : list (Z * Z)) : option Z :=
  match m with
  | [] => None
  | (k', v) :: m' => if k' =? k then Some v else rlookup k m'
  end.

Definition rmem (k : Z) (m : list (Z * Z)) : bool :=
  match rlookup k m with Some _ => true | None => false end.

(* d[k] = v : in place when the key exists, appended otherwise *)
Fixpoint rset_key (k v : Z) (m : list (Z * Z)) : list (Z * Z) :=
  match m with
  | [] => [(k, v)]
  | (k', v') :: m' => if k' =? k then (k', v) :: m' else (k', v') :: rset_key k v m'
  end.

(* delete every key bound to resource r *)
Definition rdel_rid (r : Z) (m : list (Z * Z)) : list (Z * Z) :=
  filter (fun kv => negb (snd kv =? r)) m.

Definition create_resource (uri : Z) (s : rset) : Z * rset :=
  let r := next_rid s in
  (r, {| resources := rset_key uri r (resources s); next_rid := r + 1 |}).

Definition remove_resource (r : Z) (s : rset) : rset :=
  {| resources := rdel_rid r (resources s); next_rid := next_rid s |}.

Definition alias (orig r : Z) (s : rset) : rset :=
  {| resources := rset_key orig r (resources s); next_rid := next_rid s |}.

(* ResourceSet.can_resolve(path, from_resource): the path taken relatively to the referring
   resource is looked up first, the raw string only as a fallback *)
Definition can_resolve (orig onorm : Z) (s : rset) : bool :=
  rmem onorm (resources s) || rmem orig (resources s).

(* end of _try_resource_autoload: the alias  rset.resources[original_uri] = resource  is kept
   only when the loaded URI differs from the original one and the original one still cannot be
   found through can_resolve (a mapped or converted URI) *)
Definition keep_alias (orig onorm norm r : Z) (s : rset) : rset :=
  if (orig =? norm) || can_resolve orig onorm s then s else alias orig r s.

(* what a load does, as far as the registry can see *)
Inductive script : Type :=
| Script (requests : list (Z * Z * Z * script)) (ok : bool).
(* a request = (original uri string as written in the document,
                the original uri normalised against the requesting resource,
                the normalised uri that is actually loaded (after URI mapping / conversion),
                script of the nested load);
   without URI mapper or converter the last two are equal *)

Inductive lres : Type := LOk (r : Z) | LErr.

Fixpoint get_resource (uri : Z) (sc : script) (s : rset) {struct sc} : lres * rset :=
  match rlookup uri (resources s) with
  | Some r => (LOk r, s)
  | None =>
    let (r, s1) := create_resource uri s in
    match sc with
    | Script reqs ok =>
      let fix run (l : list (Z * Z * Z * script)) (s : rset) {struct l} : bool * rset :=
        match l with
        | [] => (true, s)
        | (orig, onorm, norm, sc') :: rest =>
          if can_resolve orig onorm s || rmem norm (resources s) then run rest s
          else
            match get_resource norm sc' s with
            | (LOk r', s') => run rest (keep_alias orig onorm norm r' s')
            | (LErr, s') => (false, s')
            end
        end in
      match run reqs s1 with
      | (true, s2) => if ok then (LOk r, s2) else (LErr, remove_resource r s2)
      | (false, s2) => (LErr, remove_resource r s2)
      end
    end
  end.

(* the same loop as a top-level function (the proofs relate the two) *)
Fixpoint run_requests (l : list (Z * Z * Z * script)) (s : rset) : bool * rset :=
  match l with
  | [] => (true, s)
  | (orig, onorm, norm, sc') :: rest =>
    if can_resolve orig onorm s || rmem norm (resources s) then run_requests rest s
    else
      match get_resource norm sc' s with
      | (LOk r', s') => run_requests rest (keep_alias orig onorm norm r' s')
      | (LErr, s') => (false, s')
      end
  end.

(* ---------- the abstract specification: a finite map uri -> resource ---------- *)

(* a load that asks for nothing else: the map gains the binding or stays as it is *)
Definition spec_get (uri : Z) (ok : bool) (fresh : Z) (m : Z -> option Z) : lres * (Z -> option Z) :=
  match m uri with
  | Some r => (LOk r, m)
  | None =>
    if ok then (LOk fresh, fun k => if k =? uri then Some fresh else m k)
    else (LErr, m)
  end.

(* ---------- decode: a fold over the element tree ---------- *)

Inductive doc : Type := El (accepted : bool) (children : list doc).

(* number of objects built, or the exception of the first rejected element *)
Fixpoint decode (d : doc) (built : Z) {struct d} : res Z :=
  match d with
  | El acc children =>
    if acc then
      (fix over (l : list doc) (n : Z) {struct l} : res Z :=
         match l with
         | [] => Ok n
         | c :: rest => match decode c n with Ok n' => over rest n' | Err e => Err e end
         end) children (built + 1)
    else Err ValueErr
  end.

(* parse (lxml / json.loads: outside the model) then decode *)
Definition load (parsed : option doc) : res Z :=
  match parsed with None => Err ValueErr | Some d => decode d 0 end.

Definition load_ok (parsed : option doc) : bool :=
  match load parsed with Ok _ => true | Err _ => false end.

Fixpoint doc_size (d : doc) : Z :=
  match d with
  | El _ children => 1 + (fix sum (l : list doc) : Z := match l with [] => 0 | c :: r => doc_size c + sum r end) children
  end.

Fixpoint all_accepted (d : doc) : bool :=
  match d with
  | El acc children => acc && (fix all (l : list doc) : bool := match l with [] => true | c :: r => all_accepted c && all r end) children
  end.

(* ---------- token codec for the correspondence ----------
   ops:  1 uri                       create_resource
         2 uri <script>              get_resource
         3 rid                       remove_resource
   <script> ::= nreq (orig onorm norm <script>)^nreq ok
   answer per op: outcome (0 ok / 1 raised) ; rid (or -1) ; n ; (key value)^n *)

Fixpoint parse_script (fuel : nat) (t : list Z) : option (script * list Z) :=
  match fuel with
  | O => None
  | S f =>
    match t with
    | nreq :: rest =>
      let fix reqs (n : nat) (t : list Z) : option (list (Z * Z * Z * script) * list Z) :=
        match n with
        | O => Some ([], t)
        | S n' =>
          match t with
          | orig :: onorm :: norm :: t1 =>
            match parse_script f t1 with
            | Some (sc, t2) =>
              match reqs n' t2 with
              | Some (l, t3) => Some ((orig, onorm, norm, sc) :: l, t3)
              | None => None
              end
            | None => None
            end
          | _ => None
          end
        end in
      match reqs (Z.to_nat nreq) rest with
      | Some (l, ok :: t') => Some (Script l (ok =? 1), t')
      | _ => None
      end
    | [] => None
    end
  end.

Definition dump_registry (s : rset) : list Z :=
  Z.of_nat (length (resources s)) :: flat_map (fun kv => [fst kv; snd kv]) (resources s).

Fixpoint run_rset_ops (fuel : nat) (t : list Z) (s : rset) : list Z :=
  match fuel with
  | O => []
  | S f =>
    match t with
    | 1 :: uri :: rest =>
      let (r, s') := create_resource uri s in
      [0; r] ++ dump_registry s' ++ run_rset_ops f rest s'
    | 2 :: uri :: rest =>
      match parse_script (length rest) rest with
      | Some (sc, rest') =>
        match get_resource uri sc s with
        | (LOk r, s') => [0; r] ++ dump_registry s' ++ run_rset_ops f rest' s'
        | (LErr, s') => [1; -1] ++ dump_registry s' ++ run_rset_ops f rest' s'
        end
      | None => [-1]
      end
    | 3 :: r :: rest =>
      let s' := remove_resource r s in
      [0; r] ++ dump_registry s' ++ run_rset_ops f rest s'
    | _ => []
    end
  end.

Definition run_rset (t : list Z) : list Z := run_rset_ops (length t) t rs_empty.
