(* Whole XMI documents: the writer XMIResource.save / _go_across and the reader
   XMIResource.load / _init_modelroot / _decode_eobject / _decode_node /
   _decode_ereferences (pyecore/resources/xmi.py) together with Resource.resolve /
   extract_rootnum_and_frag / _navigate_from and EObject.eURIFragment
   (resource.py, ecore.py), as two total functions

       encode_doc : mmodel -> opts -> forest -> xml
       decode_doc : mmodel -> xml -> option forest          (None = the load raises, or the
                                                              document is outside the modelled fragment)

   MODELLED
     * a metamodel = ONE package: classes (abstract flag, table of all supertypes) each with its
       attribute, reference and containment features (own + inherited), many / unique flags,
       declared type, default text of single-valued attributes;
     * a model = a containment forest in one resource (any number of roots, any depth and width):
       per object its class, the features in `_isset`, per attribute feature the to_string'ed
       values (None allowed), per non-containment reference the targets as positions in the
       forest (root number, then (containment feature, index) steps), and its children;
     * the writer: root element named after the class, wrapper xmi:XMI iff the resource does not
       have exactly one root, child elements named after the containment feature, xsi:type (or
       xmi:type under OPTION_USE_XMI_TYPE) iff the class of the child is not the declared type,
       only features in _isset are visited, attribute values through XmiAttr.encode_many /
       encode_single (SERIALIZE_DEFAULT_VALUES, xsi:nil for None), references as ' '.join of the
       positional URI fragments ('/', '/<n>', '/@name.<i>', '/@name') through XmiAttr.encode_refs,
       xsi:nil for a single reference / containment that is set to None under
       SERIALIZE_DEFAULT_VALUES;
     * the reader, in its two phases: (1) the tree is built from the elements (class from xsi:type,
       else xmi:type, else the declared type; abstract classes cannot be instantiated; children are
       type checked; XML attributes / value elements / nil elements are read per feature with
       XmiAttr.decode_many / decode_single, an absent single attribute reads as its default) while the
       reference texts are kept aside (`_later`); (2) every reference text is split
       (XmiAttr.decode_refs = _split_references + skip-empty + normalize), every fragment is parsed
       (extract_rootnum_and_frag, split('/'), split('.'), int()) and navigated on the tree built in
       phase 1, the target is type checked and appended (unique collections: once).

   ABSTRACTIONS (validated by the correspondence in harness/props/c08.py)
     * names are identifiers: a class / feature name is a number (the harness keeps the table; a feature
       named 'href' is NOT such an identifier: pyecore reads an un-prefixed href attribute as the mark of a
       proxy, see notes/c08_href_feature_name.py);
       inside a fragment text a feature name is ONE symbol (code point 0x110000 + id, outside
       Unicode, so it is neither white space nor '/', '.', '#', '@' nor a digit);
     * the infoset is what lxml hands to the reader after namespace processing: per element its tag
       (xmi:XMI | {nsURI}Class | feature), xsi:type / xmi:type as a class id, xsi:nil, the
       un-prefixed attributes in a list with distinct names, child elements in order, the text (None
       for ''; the white space of pretty printing is not text).  xmi:version and the nsmap are not
       represented (assumption: the root binds xsi and the package prefix whenever a type attribute
       occurs -- checked on every document by the harness);
     * the order in which _go_across visits `_isset` (insertion order) is not modelled: the model emits
       attributes first, then references, then children, and the reader model is insensitive to the
       order between DIFFERENT features (the harness sorts child elements stably by feature).

   OUT OF SCOPE (decode_doc answers None on such documents, encode_doc never produces them)
     several packages / prefix maps, uuid mode (xmi:id), id attributes used as fragments (iD), href
     elements and proxies into other resources, derived / transient features, EClass / EAnnotation
     special cases of _decode_node (metamodel files: C10), fragments that walk through
     non-containment features or use names instead of indices, a single-valued feature given
     twice in one element (pyecore: the last one wins).  The container end of a containment pair is
     a function of the nesting and is not a feature of the model.  Opposite handshakes are not
     part of the reader model: pyecore holds symmetric states only, the document lists both ends,
     and each end reads back its own list (Props/C08.v, C08_reference_order_partial); the
     correspondence runs on metamodels with opposites.

   No proofs here. *)
From Coq Require Import ZArith List Bool.
From PyecoreV Require Import Model.XmiAttr Model.Text.
Import ListNotations.
Open Scope Z_scope.

(* names are numbers (only-parsing notations: no alias constant gets in the way of rewrite / lia) *)
Notation fid := Z (only parsing).
Notation cid := Z (only parsing).

(* ---------------------------------------------------------------- metamodel *)
Record feat : Type := mkFeat {
  f_id : fid;
  f_many : bool;
  f_unique : bool;
  f_type : cid;          (* references: the declared class (attributes: unused) *)
  f_dflt : ostr          (* single-valued attributes: to_string(get_default_value()), None for None *)
}.

Record class : Type := mkClass {
  c_id : cid;
  c_abstract : bool;
  c_supers : list cid;   (* every proper supertype (transitive) *)
  c_attrs : list feat;   (* eAllStructuralFeatures, by kind *)
  c_refs : list feat;    (* non-containment references (container ends excluded) *)
  c_conts : list feat    (* containment references *)
}.

Definition mmodel := list class.

Definition all_feats (k : class) : list feat := c_attrs k ++ c_refs k ++ c_conts k.
Definition find_class (mm : mmodel) (c : cid) : option class := find (fun k => c_id k =? c) mm.
Definition find_feat (l : list feat) (f : fid) : option feat := find (fun d => f_id d =? f) l.
Definition dummy_feat : feat := mkFeat (-1) false false (-1) None.
Definition feat_in (l : list feat) (f : fid) : feat :=
  match find_feat l f with Some d => d | None => dummy_feat end.

(* isinstance(obj, declared type): the class itself or one of its supertypes *)
Definition conforms (mm : mmodel) (c t : cid) : bool :=
  (c =? t) || match find_class mm c with Some k => existsb (Z.eqb t) (c_supers k) | None => false end.

(* ---------------------------------------------------------------- models *)
Definition step := (fid * nat)%type.            (* containment feature, position among its children (0 when single) *)
Definition path := (nat * list step)%type.      (* root number, steps *)

(* R: what a reference slot holds (phase 1: the text of the XML attribute, if any; afterwards: targets) *)
Inductive tree (R : Type) : Type :=
| Node (cls : cid) (iss : list fid) (attrs : list (fid * list ostr)) (refs : list (fid * R))
       (kids : list (fid * tree R)).
Arguments Node {R} cls iss attrs refs kids.

Notation obj := (tree (list path)) (only parsing).
Notation forest := (list (tree (list path))) (only parsing).

Definition t_cls {R} (t : tree R) : cid := match t with Node c _ _ _ _ => c end.

(* what the property observes: everything but `_isset` *)
Fixpoint forget {R} (t : tree R) : tree R :=
  match t with
  | Node c _ a r ks => Node c [] a r (map (fun p => (fst p, forget (snd p))) ks)
  end.

(* the state in which every feature of every object was assigned (everything is in `_isset`) *)
Fixpoint set_all {R} (ids : Z -> list Z) (t : tree R) : tree R :=
  match t with
  | Node c _ a r ks => Node c (ids c) a r (map (fun p => (fst p, set_all ids (snd p))) ks)
  end.

(* classes and nesting only: what fragments are computed from and resolved against *)
Inductive sk : Type := Sk (cls : cid) (kids : list (fid * sk)).

Fixpoint skel {R} (t : tree R) : sk :=
  match t with
  | Node c _ _ _ ks => Sk c (map (fun p => (fst p, skel (snd p))) ks)
  end.

Definition kids_of {A} (f : fid) (kids : list (fid * A)) : list A :=
  map snd (filter (fun p => fst p =? f) kids).

Definition isset (iss : list fid) (f : fid) : bool := existsb (Z.eqb f) iss.

(* ---------------------------------------------------------------- the infoset *)
Inductive xtag : Type := TXmi | TRoot (c : cid) | TFeat (f : fid).

Inductive xml : Type :=
| Elem (tag : xtag)
       (xtype : option (bool * cid))     (* Some (true, c): xmi:type=c ; Some (false, c): xsi:type=c *)
       (nil : bool)                      (* xsi:nil present *)
       (attrs : list (fid * str))        (* attributes without namespace: feature, text *)
       (kids : list xml)
       (text : option str).

Definition x_tag (x : xml) := match x with Elem t _ _ _ _ _ => t end.
Definition x_type (x : xml) := match x with Elem _ t _ _ _ _ => t end.
Definition x_nil (x : xml) := match x with Elem _ _ n _ _ _ => n end.
Definition x_text (x : xml) := match x with Elem _ _ _ _ _ t => t end.
Definition tag_fid (x : xml) : option fid := match x_tag x with TFeat f => Some f | _ => None end.

Record opts : Type := mkOpts {
  o_sd : bool;      (* XMIOptions.SERIALIZE_DEFAULT_VALUES *)
  o_xt : bool       (* XMIOptions.OPTION_USE_XMI_TYPE *)
}.

(* ---------------------------------------------------------------- generic helpers *)
Section Traverse.
  Context {A B : Type} (f : A -> option B).
  Fixpoint traverse (l : list A) : option (list B) :=
    match l with
    | [] => Some []
    | x :: r =>
      match f x with
      | None => None
      | Some y => match traverse r with Some ys => Some (y :: ys) | None => None end
      end
    end.
End Traverse.

(* f x = None: failure; Some None: x is skipped; Some (Some y): y is kept *)
Section Collect.
  Context {A B : Type} (f : A -> option (option B)).
  Fixpoint collect (l : list A) : option (list B) :=
    match l with
    | [] => Some []
    | x :: r =>
      match f x with
      | None => None
      | Some o =>
        match collect r with
        | Some ys => Some (match o with Some y => y :: ys | None => ys end)
        | None => None
        end
      end
    end.
End Collect.

Definition is_nil {A} (l : list A) : bool := match l with [] => true | _ => false end.

(* ---------------------------------------------------------------- fragments as text *)
(* a feature name inside a fragment: one symbol outside Unicode *)
Definition NB : Z := 1114112.
Definition name_cp (f : fid) : Z := NB + f.

(* a step as it is written: '/@name.<i>' (many) or '/@name' (single) *)
Definition pstep := (fid * option nat)%type.

Definition pstep_text (p : pstep) : str :=
  47 :: 64 :: name_cp (fst p) ::
  match snd p with Some i => 46 :: str_of_Z (Z.of_nat i) | None => [] end.
Definition psteps_text (l : list pstep) : str := flat_map pstep_text l.

(* EObject.eURIFragment of a root: '/' when the resource has one root, '/<n>' otherwise *)
Definition root_text (nroots r : nat) : str :=
  47 :: (if (nroots =? 1)%nat then [] else str_of_Z (Z.of_nat r)).

(* s.split(c) for a one-character separator *)
Fixpoint split_on_aux (c : Z) (cur : str) (s : str) : list str :=
  match s with
  | [] => [cur]
  | x :: r => if x =? c then cur :: split_on_aux c [] r else split_on_aux c (cur ++ [x]) r
  end.
Definition split_on (c : Z) (s : str) : list str := split_on_aux c [] s.

(* s[:s.index(c)], s[s.index(c):]  (the whole of s, '' without c) *)
Fixpoint break_at (c : Z) (s : str) : str * str :=
  match s with
  | [] => ([], [])
  | x :: r => if x =? c then ([], s) else let p := break_at c r in (x :: fst p, snd p)
  end.

(* key of a segment: '@' + name *)
Definition parse_key (key : str) : option fid :=
  match key with
  | [a; n] => if (a =? 64) && (NB <=? n) then Some (n - NB) else None
  | _ => None
  end.

(* _navigate_from, one segment: `key, index = x.split('.')` or `key, None`; `int(index) if index` *)
Definition parse_piece (p : str) : option pstep :=
  match split_on 46 p with
  | [key] => match parse_key key with Some f => Some (f, None) | None => None end
  | [key; idx] =>
    match parse_key key with
    | None => None
    | Some f =>
      if is_empty idx then Some (f, None)
      else match int_of_text idx with
           | Some z => if 0 <=? z then Some (f, Some (Z.to_nat z)) else None
           | None => None
           end
    end
  | _ => None
  end.

(* `(x for x in path.split('/') if x)`, each segment parsed *)
Definition parse_steps (s : str) : option (list pstep) :=
  traverse parse_piece (filter (fun x => negb (is_empty x)) (split_on 47 s)).

(* extract_rootnum_and_frag (a leading '/' followed by digits is the root number) then the segments; a fragment that does not start with
   '/' is an id / uuid: outside the model *)
Definition parse_frag (s : str) : option (nat * list pstep) :=
  match s with
  | 47 :: r =>
    if match r with d :: _ => is_digit d | [] => false end
    then let p := break_at 47 r in
         match int_of_text (fst p) with
         | Some z => match parse_steps (snd p) with
                     | Some ps => Some (Z.to_nat z, ps)
                     | None => None
                     end
         | None => None
         end
    else match parse_steps s with Some ps => Some (O, ps) | None => None end
  | _ => None
  end.

(* ---------------------------------------------------------------- navigation on the nesting *)
Section Nav.
  Variable mm : mmodel.

  (* from canonical steps to the steps as written, and the class of the object reached *)
  Fixpoint abs_steps (n : sk) (steps : list step) : option (list pstep * cid) :=
    match steps with
    | [] => Some ([], match n with Sk c _ => c end)
    | (f, i) :: r =>
      match n with
      | Sk c kids =>
        match find_class mm c with
        | None => None
        | Some k =>
          match find_feat (c_conts k) f with
          | None => None
          | Some d =>
            if f_many d || (i =? 0)%nat then
              match nth_error (kids_of f kids) i with
              | Some ch =>
                match abs_steps ch r with
                | Some (ps, tc) => Some ((f, if f_many d then Some i else None) :: ps, tc)
                | None => None
                end
              | None => None
              end
            else None
          end
        end
      end
    end.

  (* _navigate_from over the written steps: obj.<name>[index] for a collection, obj.<name> otherwise;
     yields the canonical steps and the class reached *)
  Fixpoint nav (n : sk) (ps : list pstep) : option (list step * cid) :=
    match ps with
    | [] => Some ([], match n with Sk c _ => c end)
    | (f, oi) :: r =>
      match n with
      | Sk c kids =>
        match find_class mm c with
        | None => None
        | Some k =>
          match find_feat (c_conts k) f with
          | None => None
          | Some d =>
            let i := match oi with Some i => i | None => O end in
            if Bool.eqb (f_many d) (match oi with Some _ => true | None => false end) then
              match nth_error (kids_of f kids) i with
              | Some ch =>
                match nav ch r with
                | Some (st, tc) => Some ((f, i) :: st, tc)
                | None => None
                end
              | None => None
              end
            else None
          end
        end
      end
    end.

  (* the URI fragment of the object at path p (EObject.eURIFragment) *)
  Definition render_path (S : list sk) (p : path) : option str :=
    match nth_error S (fst p) with
    | Some n =>
      match abs_steps n (snd p) with
      | Some (ps, _) => Some (root_text (length S) (fst p) ++ psteps_text ps)
      | None => None
      end
    | None => None
    end.

  (* Resource.resolve on a positional fragment: the path of the object found and its class *)
  Definition resolve_frag (S : list sk) (frag : str) : option (path * cid) :=
    match parse_frag frag with
    | None => None
    | Some (rn, ps) =>
      match nth_error S rn with
      | None => None
      | Some n =>
        match nav n ps with
        | Some (st, tc) => Some ((rn, st), tc)
        | None => None
        end
      end
    end.
End Nav.

(* ---------------------------------------------------------------- the writer *)
Definition nil_elem (f : fid) : xml := Elem (TFeat f) None true [] [] None.
(* SubElement(node, name).text = v ; _build_none_node *)
Definition value_elem (f : fid) (o : ostr) : xml :=
  match o with
  | None => nil_elem f
  | Some t => Elem (TFeat f) None false [] [] (lxml_text t)
  end.

(* what an `enc` adds to the node of its object *)
Definition enc_xattrs (p : fid * enc) : list (fid * str) :=
  match snd p with EAttr t => [(fst p, t)] | _ => [] end.
Definition enc_xelems (p : fid * enc) : list xml :=
  match snd p with EElems l => map (value_elem (fst p)) l | _ => [] end.

Section Enc.
  Variable mm : mmodel.
  Variable o : opts.
  Variable S : list sk.          (* the nesting of the whole resource *)

  (* _go_across, `feat.is_attribute` (value None: the nil branch of encode_single) *)
  Definition enc_attr (d : feat) (set : bool) (vs : list ostr) : enc :=
    if negb set then EAbsent
    else if f_many d then encode_many vs
    else encode_single (o_sd o) (f_dflt d) (match vs with v :: _ => v | [] => None end).

  Definition frag_of (p : path) : str :=
    match render_path mm S p with Some s => s | None => [] end.

  (* _go_across, `not feat.containment` (every target inside the resource) *)
  Definition enc_ref (d : feat) (set : bool) (ps : list path) : enc :=
    if negb set then EAbsent
    else if f_many d then encode_refs (map frag_of ps)
    else match ps with
         | [] => if o_sd o then EElems [None] else EAbsent
         | p :: _ => EAttr (frag_of p)
         end.

  (* a single-valued containment reference that is set to None *)
  Definition cont_nils {A} (k : class) (iss : list fid) (kids : list (fid * A)) : list xml :=
    flat_map (fun d => if o_sd o && isset iss (f_id d) && negb (f_many d) && is_nil (kids_of (f_id d) kids)
                       then [nil_elem (f_id d)] else []) (c_conts k).

  Definition type_attr (d : feat) (c : cid) : option (bool * cid) :=
    if f_type d =? c then None else Some (o_xt o, c).

  Fixpoint enc_tree (tag : xtag) (xty : option (bool * cid)) (t : obj) : xml :=
    match t with
    | Node c iss attrs refs kids =>
      match find_class mm c with
      | None => Elem tag xty false [] [] None
      | Some k =>
        let es := map (fun p => (fst p, enc_attr (feat_in (c_attrs k) (fst p)) (isset iss (fst p)) (snd p))) attrs
               ++ map (fun p => (fst p, enc_ref (feat_in (c_refs k) (fst p)) (isset iss (fst p)) (snd p))) refs in
        Elem tag xty false
          (flat_map enc_xattrs es)
          (flat_map enc_xelems es ++ cont_nils k iss kids
           ++ map (fun p => enc_tree (TFeat (fst p))
                                     (type_attr (feat_in (c_conts k) (fst p)) (t_cls (snd p)))
                                     (snd p)) kids)
          None
      end
    end.

  Definition enc_root (t : obj) : xml := enc_tree (TRoot (t_cls t)) None t.
End Enc.

(* XMIResource.save *)
Definition encode_doc (mm : mmodel) (o : opts) (F : forest) : xml :=
  let S := map skel F in
  match F with
  | [t] => enc_root mm o S t
  | _ => Elem TXmi None false [] (map (enc_root mm o S) F) None
  end.

(* ---------------------------------------------------------------- the reader *)
Definition has_tag (f : fid) (x : xml) : bool :=
  match tag_fid x with Some g => g =? f | None => false end.
Definition elems_tagged (f : fid) (l : list xml) : list xml := filter (has_tag f) l.
Definition attrs_named (f : fid) (l : list (fid * str)) : list (fid * str) := filter (fun p => fst p =? f) l.
Definition lookup_attr (f : fid) (l : list (fid * str)) : option str :=
  match attrs_named f l with p :: _ => Some (snd p) | [] => None end.

(* _decode_node: nil -> None, a data type element -> `node.text if node.text else ''` *)
Definition elem_value (x : xml) : ostr := if x_nil x then None else Some (text_or_empty (x_text x)).

(* what the element holds for feature f, as an `enc` *)
Definition read_enc (f : fid) (xa : list (fid * str)) (xk : list xml) : enc :=
  match lookup_attr f xa with
  | Some t => EAttr t
  | None => match elems_tagged f xk with
            | [] => EAbsent
            | l => EElems (map elem_value l)
            end
  end.

(* the values of attribute d after the element was decoded: the XML attribute is decoded first
   (split, extend), then the child elements in order (append); a single attribute is assigned *)
Definition read_attr (d : feat) (xa : list (fid * str)) (xk : list xml) : list ostr :=
  if f_many d then
    decode_many (match lookup_attr (f_id d) xa with Some t => EAttr t | None => EAbsent end)
    ++ decode_many (EElems (map elem_value (elems_tagged (f_id d) xk)))
  else [decode_single (f_dflt d) (read_enc (f_id d) xa xk)].

Definition occurrences (f : fid) (xa : list (fid * str)) (xk : list xml) : nat :=
  length (attrs_named f xa) + length (elems_tagged f xk).

(* a single-valued feature is given at most once (else pyecore: the last one wins -- outside the model) *)
Definition singles_ok (k : class) (xa : list (fid * str)) (xk : list xml) : bool :=
  forallb (fun d => f_many d || (occurrences (f_id d) xa xk <=? 1)%nat) (all_feats k).

(* _decode_attribute: an unknown feature raises; a containment feature as an attribute: outside *)
Definition attrs_ok (k : class) (xa : list (fid * str)) : bool :=
  forallb (fun p => match find_feat (c_attrs k ++ c_refs k) (fst p) with Some _ => true | None => false end) xa.

(* _decode_node on a child element: unknown feature raises; nil appends None / assigns None (None
   in a collection of objects raises BadValueError); a non-nil element of a non-containment
   reference is an href or a misplaced object: outside *)
Definition elem_ok (k : class) (x : xml) : bool :=
  match tag_fid x with
  | None => false
  | Some f =>
    match find_feat (c_attrs k) f with
    | Some _ => true
    | None =>
      match find_feat (c_refs k) f with
      | Some d => x_nil x && negb (f_many d)
      | None =>
        match find_feat (c_conts k) f with
        | Some d => negb (x_nil x) || negb (f_many d)
        | None => false
        end
      end
    end
  end.

Section Dec.
  Variable mm : mmodel.

  Section Kid.
    Variable dec : cid -> xml -> option (tree (option str)).
    (* a child element of a containment feature: the class is xsi:type / xmi:type, else the
       declared type; the new object must conform to the declared type *)
    Definition dec_kid (k : class) (x : xml) : option (option (fid * tree (option str))) :=
      match tag_fid x with
      | None => None
      | Some f =>
        match find_feat (c_conts k) f with
        | None => Some None
        | Some d =>
          if x_nil x then Some None
          else
            let c' := match x_type x with Some (_, c) => c | None => f_type d end in
            if conforms mm c' (f_type d) then
              match dec c' x with
              | Some t => Some (Some (f, t))
              | None => None
              end
            else None
        end
      end.
  End Kid.

  (* phase 1: _init_modelroot / _decode_eobject, the references kept as texts *)
  Fixpoint dec_obj (c : cid) (x : xml) {struct x} : option (tree (option str)) :=
    match x with
    | Elem _ _ _ xa xk _ =>
      match find_class mm c with
      | None => None
      | Some k =>
        if c_abstract k then None
        else if attrs_ok k xa && forallb (elem_ok k) xk && singles_ok k xa xk then
          match collect (dec_kid dec_obj k) xk with
          | Some ks =>
            Some (Node c []
                       (map (fun d => (f_id d, read_attr d xa xk)) (c_attrs k))
                       (map (fun d => (f_id d, lookup_attr (f_id d) xa)) (c_refs k))
                       ks)
          | None => None
          end
        else None
      end
    end.

  Definition steps_eqb (a b : list step) : bool :=
    (fix go (a b : list step) : bool :=
       match a, b with
       | [], [] => true
       | (f, i) :: a', (g, j) :: b' => (f =? g) && (i =? j)%nat && go a' b'
       | _, _ => false
       end) a b.
  Definition path_eqb (p q : path) : bool := (fst p =? fst q)%nat && steps_eqb (snd p) (snd q).

  (* appending to a unique collection (OrderedSet): an element that is present is not added *)
  Fixpoint dedup (l : list path) : list path :=
    match l with
    | [] => []
    | p :: r => p :: filter (fun q => negb (path_eqb p q)) (dedup r)
    end.

  (* _resolve_nonhref + the type check of the collection *)
  Definition resolve_one (S : list sk) (d : feat) (frag : str) : option path :=
    if has_hash frag then None
    else match resolve_frag mm S frag with
         | Some (p, c) => if conforms mm c (f_type d) then Some p else None
         | None => None
         end.

  (* _decode_ereferences for one (object, reference, text) of `_later` *)
  Definition link_ref (S : list sk) (d : feat) (ot : option str) : option (list path) :=
    match ot with
    | None => Some []
    | Some t =>
      let frags := if f_many d then decode_refs (fun _ => true) (EAttr t)
                   else (if is_empty t then [] else [normalize t]) in
      match traverse (resolve_one S d) frags with
      | Some ps => Some (if f_many d && f_unique d then dedup ps else ps)
      | None => None
      end
    end.

  (* phase 2 over one tree *)
  Fixpoint link_tree (S : list sk) (t : tree (option str)) : option obj :=
    match t with
    | Node c iss attrs refs kids =>
      match find_class mm c with
      | None => None
      | Some k =>
        match traverse (fun p => match find_feat (c_refs k) (fst p) with
                                 | Some d => match link_ref S d (snd p) with
                                             | Some ps => Some (fst p, ps)
                                             | None => None
                                             end
                                 | None => None
                                 end) refs with
        | None => None
        | Some refs' =>
          match traverse (fun p => match link_tree S (snd p) with
                                   | Some t' => Some (fst p, t')
                                   | None => None
                                   end) kids with
          | Some kids' => Some (Node c iss attrs refs' kids')
          | None => None
          end
        end
      end
    end.

  Definition root_elems (x : xml) : list xml :=
    match x with Elem TXmi _ _ _ ks _ => ks | _ => [x] end.
  Definition dec_root (x : xml) : option (tree (option str)) :=
    match x_tag x with TRoot c => dec_obj c x | _ => None end.

  (* XMIResource.load *)
  Definition decode_doc (x : xml) : option forest :=
    match traverse dec_root (root_elems x) with
    | None => None
    | Some G => traverse (link_tree (map skel G)) G
    end.
End Dec.

(* ---------------------------------------------------------------- well-formedness *)
Fixpoint nodup_z (l : list Z) : bool :=
  match l with [] => true | x :: r => negb (existsb (Z.eqb x) r) && nodup_z r end.

(* per class: the features have distinct non-negative ids *)
Definition wf_mm (mm : mmodel) : bool :=
  forallb (fun k => nodup_z (map f_id (all_feats k)) && forallb (fun d => 0 <=? f_id d) (all_feats k)) mm.

Section Wf.
  Variable mm : mmodel.
  Variable S : list sk.

  Fixpoint nodup_paths (l : list path) : bool :=
    match l with [] => true | p :: r => negb (existsb (path_eqb p) r) && nodup_paths r end.

  (* the target exists in the resource and is an instance of the declared type *)
  Definition path_ok (d : feat) (p : path) : bool :=
    match nth_error S (fst p) with
    | Some n => match abs_steps mm n (snd p) with
                | Some (_, c) => conforms mm c (f_type d)
                | None => false
                end
    | None => false
    end.

  (* the state of an object as pyecore can hold it, in the normal form of an observation:
     - a concrete class of the metamodel;
     - one slot per attribute / reference feature of the class, in the order of the class;
     - a single-valued attribute holds exactly one value (None allowed), a single-valued reference at
       most one target, a single-valued containment at most one child;
     - targets exist and conform; a unique many-valued reference holds no target twice;
     - children sit under containment features of the class and conform to the declared type;
     - a feature that is not in _isset reads as unset: its default / no value. *)
  Fixpoint wf_tree (t : obj) : bool :=
    match t with
    | Node c iss attrs refs kids =>
      match find_class mm c with
      | None => false
      | Some k =>
        negb (c_abstract k)
        && str_eqb (map fst attrs) (map f_id (c_attrs k))
        && forallb (fun p =>
             let d := feat_in (c_attrs k) (fst p) in
             (f_many d || (length (snd p) =? 1)%nat)
             && (isset iss (fst p)
                 || (if f_many d then is_nil (snd p)
                     else match snd p with [v] => ostr_eqb v (f_dflt d) | _ => false end))) attrs
        && str_eqb (map fst refs) (map f_id (c_refs k))
        && forallb (fun p =>
             let d := feat_in (c_refs k) (fst p) in
             (f_many d || (length (snd p) <=? 1)%nat)
             && forallb (path_ok d) (snd p)
             && (negb (f_many d && f_unique d) || nodup_paths (snd p))
             && (isset iss (fst p) || is_nil (snd p))) refs
        && forallb (fun p =>
             match find_feat (c_conts k) (fst p) with
             | Some d => conforms mm (t_cls (snd p)) (f_type d) && wf_tree (snd p)
             | None => false
             end) kids
        && forallb (fun d =>
             (f_many d || (length (kids_of (f_id d) kids) <=? 1)%nat)
             && (isset iss (f_id d) || is_nil (kids_of (f_id d) kids))) (c_conts k)
      end
    end.
End Wf.

Definition wf_forest (mm : mmodel) (F : forest) : bool := forallb (wf_tree mm (map skel F)) F.

Definition all_ids (mm : mmodel) (c : cid) : list fid :=
  match find_class mm c with Some k => map f_id (all_feats k) | None => [] end.

(* ---------------------------------------------------------------- token codec for the extracted driver *)
(* a reader of a token stream *)
Definition rd (A : Type) : Type := list Z -> option (A * list Z).

Definition rd_z : rd Z := fun t => match t with x :: r => Some (x, r) | [] => None end.
Definition rd_bool : rd bool := fun t => match t with x :: r => Some (x =? 1, r) | [] => None end.
Definition rd_nat : rd nat := fun t => match t with x :: r => Some (Z.to_nat x, r) | [] => None end.
Definition rd_ostr : rd ostr :=
  fun t => match t with
           | n :: r => if n <? 0 then Some (None, r)
                       else Some (Some (take (Z.to_nat n) r), drop (Z.to_nat n) r)
           | [] => None
           end.
Definition rd_str : rd str :=
  fun t => match rd_ostr t with Some (o, r) => Some (unsome o, r) | None => None end.

Section RdN.
  Context {A : Type} (g : rd A).
  Fixpoint rd_n (n : nat) : rd (list A) :=
    fun t => match n with
             | O => Some ([], t)
             | S n' => match g t with
                       | Some (a, r) => match rd_n n' r with
                                        | Some (l, r') => Some (a :: l, r')
                                        | None => None
                                        end
                       | None => None
                       end
             end.
  (* count, then the items *)
  Definition rd_list : rd (list A) :=
    fun t => match t with n :: r => rd_n (Z.to_nat n) r | [] => None end.
End RdN.

Definition rd_pair {A B} (g : rd A) (h : rd B) : rd (A * B) :=
  fun t => match g t with
           | Some (a, r) => match h r with Some (b, r') => Some ((a, b), r') | None => None end
           | None => None
           end.
Definition rd_map {A B} (f : A -> B) (g : rd A) : rd B :=
  fun t => match g t with Some (a, r) => Some (f a, r) | None => None end.

(* feature: id many unique type <ostr default> *)
Definition rd_feat : rd feat :=
  rd_map (fun q => match q with (((i, m), u), (ty, dv)) => mkFeat i m u ty dv end)
         (rd_pair (rd_pair (rd_pair rd_z rd_bool) rd_bool) (rd_pair rd_z rd_ostr)).
(* class: id abstract <supers> <attrs> <refs> <conts> *)
Definition rd_class : rd class :=
  rd_map (fun q => match q with (((i, a), s), ((fa, fr), fc)) => mkClass i a s fa fr fc end)
         (rd_pair (rd_pair (rd_pair rd_z rd_bool) (rd_list rd_z))
                  (rd_pair (rd_pair (rd_list rd_feat) (rd_list rd_feat)) (rd_list rd_feat))).
Definition rd_mm : rd mmodel := rd_list rd_class.
Definition rd_opts : rd opts := rd_map (fun q => mkOpts (fst q) (snd q)) (rd_pair rd_bool rd_bool).

Definition rd_path : rd path := rd_pair rd_nat (rd_list (rd_pair rd_z rd_nat)).

(* tree: cls <iss> <attrs: (fid <ostr list>)> <refs: (fid <path list>)> <kids: (fid tree)> *)
Fixpoint rd_tree (fuel : nat) : rd obj :=
  match fuel with
  | O => fun _ => None
  | S fu =>
    rd_map (fun q => match q with ((c, iss), ((a, r), ks)) => Node c iss a r ks end)
           (rd_pair (rd_pair rd_z (rd_list rd_z))
                    (rd_pair (rd_pair (rd_list (rd_pair rd_z (rd_list rd_ostr)))
                                      (rd_list (rd_pair rd_z (rd_list rd_path))))
                             (rd_list (rd_pair rd_z (rd_tree fu)))))
  end.

Definition rd_tag : rd xtag :=
  fun t => match t with
           | k :: v :: r => Some (if k =? 0 then TXmi else if k =? 1 then TRoot v else TFeat v, r)
           | _ => None
           end.
Definition rd_xtype : rd (option (bool * cid)) :=
  fun t => match t with
           | k :: v :: r => Some (if k <? 0 then None else Some (k =? 1, v), r)
           | _ => None
           end.
(* element: tagkind tagvalue typekind typevalue nil <attrs: (fid <str>)> <ostr text> <kids> *)
Fixpoint rd_xml (fuel : nat) : rd xml :=
  match fuel with
  | O => fun _ => None
  | S fu =>
    rd_map (fun q => match q with (((tg, ty), nl), ((xa, tx), ks)) => Elem tg ty nl xa ks tx end)
           (rd_pair (rd_pair (rd_pair rd_tag rd_xtype) rd_bool)
                    (rd_pair (rd_pair (rd_list (rd_pair rd_z rd_str)) rd_ostr) (rd_list (rd_xml fu))))
  end.

Definition wr_bool (b : bool) : list Z := [if b then 1 else 0].
Definition wr_list {A} (w : A -> list Z) (l : list A) : list Z := zlen l :: flat_map w l.
Definition wr_nat (n : nat) : list Z := [Z.of_nat n].
Definition wr_path (p : path) : list Z :=
  wr_nat (fst p) ++ wr_list (fun s => fst s :: wr_nat (snd s)) (snd p).

Fixpoint wr_tree (t : obj) : list Z :=
  match t with
  | Node c iss a r ks =>
    c :: wr_list (fun x => [x]) iss
    ++ wr_list (fun p => fst p :: wr_list put_ostr (snd p)) a
    ++ wr_list (fun p => fst p :: wr_list wr_path (snd p)) r
    ++ zlen ks :: flat_map (fun p => fst p :: wr_tree (snd p)) ks
  end.

Fixpoint wr_xml (x : xml) : list Z :=
  match x with
  | Elem tg ty nl xa ks tx =>
    (match tg with TXmi => [0; 0] | TRoot c => [1; c] | TFeat f => [2; f] end)
    ++ (match ty with None => [-1; 0] | Some (b, c) => [if b then 1 else 0; c] end)
    ++ wr_bool nl
    ++ wr_list (fun p => fst p :: put_ostr (Some (snd p))) xa
    ++ put_ostr tx
    ++ zlen ks :: flat_map wr_xml ks
  end.

(* request: <mm> sd xt <forest>      answer: 1 <wf_mm> <wf_forest> <xml>   |  0 (unreadable request) *)
Definition run_xmidoc_enc (t : list Z) : list Z :=
  match rd_pair (rd_pair rd_mm rd_opts) (rd_list (rd_tree (length t))) t with
  | Some (((mm, o), F), _) =>
    1 :: wr_bool (wf_mm mm) ++ wr_bool (wf_forest mm F) ++ wr_xml (encode_doc mm o F)
  | None => [0]
  end.

(* request: <mm> <xml>               answer: 1 1 <forest> | 1 0 (decode_doc = None) | 0 *)
Definition run_xmidoc_dec (t : list Z) : list Z :=
  match rd_pair rd_mm (rd_xml (length t)) t with
  | Some ((mm, x), _) =>
    match decode_doc mm x with
    | Some F => [1; 1] ++ wr_list wr_tree F
    | None => [1; 0]
    end
  | None => [0]
  end.
