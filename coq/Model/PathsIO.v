(* Token codecs of the C14 models for the extracted driver.
   run_paths : op, then length-prefixed code-point strings  -> code points of the answer
   run_proxy : world + a script of operations on proxies and an OrderedSet -> outcomes
   No proofs here. *)
From Coq Require Import ZArith List Bool.
From PyecoreV Require Import Lib.PyBase Lib.PyDict Model.Paths Model.Proxy.
Import ListNotations.
Open Scope Z_scope.

Fixpoint take {A} (n : nat) (l : list A) : list A :=
  match n, l with S n', x :: xs => x :: take n' xs | _, _ => [] end.
Fixpoint drop {A} (n : nat) (l : list A) : list A :=
  match n, l with S n', _ :: xs => drop n' xs | _, _ => l end.

(* one length-prefixed string and the rest *)
Definition get_str (t : list Z) : list Z * list Z :=
  match t with
  | n :: r => (take (Z.to_nat n) r, drop (Z.to_nat n) r)
  | [] => ([], [])
  end.

Definition run_paths (t : list Z) : list Z :=
  match t with
  | op :: r =>
    let (a, r1) := get_str r in
    let (b, _) := get_str r1 in
    let pa := parse a in
    let pb := parse b in
    if op =? 1 then render_norm (normpath pa)
    else if op =? 2 then render (dirname pa)
    else if op =? 3 then render (join pa pb)
    else if op =? 4 then render_norm (relpath pa pb)
    else if op =? 5 then render_norm (uri_normalize pa)
    else if op =? 6 then render_norm (uri_relative_from_me pa pb)
    else if op =? 7 then render (uri_apply_relative_from_me pa pb)
    else if op =? 8 then
      render_norm (uri_normalize (uri_apply_relative_from_me pa (uri_relative_from_me pa pb)))
    else []
  | [] => []
  end.

(* ---- proxies ---- *)
Definition PBASE : Z := 1000.
Definition dec_value (z : Z) : value := if PBASE <? z then VProxy z else VObj z.

Fixpoint zrange (lo : Z) (n : nat) : list Z :=
  match n with O => [] | S n' => lo :: zrange (lo + 1) n' end.

(* n objects 1..n with attribute 100+i; np proxies PBASE+1.. with the given paths; path k denotes object k when 1<=k<=n *)
Definition init_heap (n : Z) (paths : list Z) : heap :=
  let objs := zrange 1 (Z.to_nat n) in
  {| pstates := combine (zrange (PBASE + 1) (length paths)) (map Unresolved paths);
     world := map (fun o => (o, o)) objs;
     attrs := map (fun o => (o, 100 + o)) objs |}.

Definition out_res {A} (f : A -> Z) (r : res (A * heap)) (h : heap) : list Z * heap :=
  match r with
  | Ok (a, h') => ([0; f a], h')
  | Err e => ([exn_code e; 0], h)
  end.

(* for the operations that return the heap reached even when they raise *)
Definition out_rs {A} (f : A -> Z) (r : res A * heap) : list Z * heap :=
  match r with
  | (Ok a, h') => ([0; f a], h')
  | (Err e, h') => ([exn_code e; 0], h')
  end.

Definition b2z (b : bool) : Z := if b then 1 else 0.

Fixpoint run_script (fuel : nat) (t : list Z) (h : heap) (s : pset) : list Z :=
  match fuel with
  | O => []
  | S f =>
    match t with
    | op :: a :: b :: rest =>
      let va := dec_value a in
      let vb := dec_value b in
      let '(o, h', s') :=
        if op =? 1 then
          match va with
          | VProxy p => let (o, h') := out_res (fun x => x) (force_resolve h p) h in (o, h', s)
          | VObj x => ([0; x], h, s)
          end
        else if op =? 2 then ([0; b2z (py_hash h va =? py_hash h vb)], h, s)
        else if op =? 3 then let (o, h') := out_rs b2z (py_eq h va vb) in (o, h', s)
        else if op =? 4 then let (o, h') := out_res (fun x => x) (py_getattr h va) h in (o, h', s)
        else if op =? 5 then
          match py_setattr h va b with
          | Ok h' => ([0; 0], h', s)
          | Err e => ([exn_code e; 0], h, s)
          end
        else if op =? 6 then
          match ps_add h va s with
          | (Ok s', h') => ([0; 0], h', s')
          | (Err e, h') => ([exn_code e; 0], h', s)
          end
        else if op =? 7 then let (o, h') := out_rs b2z (ps_contains h va s) in (o, h', s)
        else if op =? 8 then let (o, h') := out_rs (fun x => x) (ps_index h va s) in (o, h', s)
        else if op =? 9 then let (o, h') := out_rs b2z (any_eq h va (p_items s)) in (o, h', s)
        else ([99; 0], h, s) in
      (* after every operation: the outcome, the length of the set, the resolved flag of every proxy *)
      o ++ [Z.of_nat (length (p_items s'))]
        ++ map (fun ps => match snd ps with Resolved t => t | Unresolved _ => 0 end) (pstates h')
        ++ run_script f rest h' s'
    | _ => []
    end
  end.

(* tokens: n ; np ; path_1..path_np ; (op a b)* *)
Definition run_proxy (t : list Z) : list Z :=
  match t with
  | n :: np :: rest =>
    let paths := take (Z.to_nat np) rest in
    let script := drop (Z.to_nat np) rest in
    run_script (length script) script (init_heap n paths) pset_empty
  | _ => []
  end.
