(* C15: unset features read as their default, privately, and reading is free. *)
From Coq Require Import ZArith List Bool Arith Lia.
From PyecoreV Require Import Lib.PyBase Lib.PyList Model.Defaults.
Import ListNotations.
Open Scope nat_scope.

Section D.
Variable decl : nat -> adecl.

(* locations in slots are allocated ones, and no location sits in two slots *)
Definition dwf (s : dstate) : Prop :=
  (forall o a l, slot s o a = Some (DLoc l) -> l < nextloc s) /\
  (forall o a o' a' l, slot s o a = Some (DLoc l) -> slot s o' a' = Some (DLoc l) -> o = o' /\ a = a').

Lemma upd2_same {A} (g : nat -> nat -> A) o a v : upd2 g o a v o a = v.
Proof. unfold upd2. rewrite !Nat.eqb_refl. reflexivity. Qed.

Lemma upd2_other {A} (g : nat -> nat -> A) o a v o' a' : (o, a) <> (o', a') -> upd2 g o a v o' a' = g o' a'.
Proof.
  intros N. unfold upd2. destruct (Nat.eqb_spec o o'); destruct (Nat.eqb_spec a a'); simpl; try reflexivity.
  subst. congruence.
Qed.

Lemma upd1_same {A} (g : nat -> A) k v : upd1 g k v k = v.
Proof. unfold upd1. rewrite Nat.eqb_refl. reflexivity. Qed.

Lemma upd1_other {A} (g : nat -> A) k v k' : k <> k' -> upd1 g k v k' = g k'.
Proof. intros N. unfold upd1. destruct (Nat.eqb_spec k k'); congruence. Qed.

Lemma dwf_init : dwf dinit.
Proof. split; intros; discriminate. Qed.

(* what fresh_default does *)
Lemma fresh_default_cases d s :
  (exists v, fresh_default d s = (v, s) /\ (forall l, v <> DLoc l)) \/
  (fresh_default d s =
     (DLoc (nextloc s),
      {| slot := slot s; dset := dset s; heap := upd1 (heap s) (nextloc s) []; nextloc := S (nextloc s) |})
   /\ a_literal d = None /\ a_explicit d = None /\ a_tdefault d = TDFactory).
Proof.
  unfold fresh_default. destruct (a_literal d) as [z|].
  - left. eexists. split; [reflexivity | intros l H; discriminate].
  - destruct (a_explicit d) as [z|].
    + left. eexists. split; [reflexivity | intros l H; discriminate].
    + destruct (a_tdefault d) as [[z|]|].
      * left. eexists. split; [reflexivity | intros l H; discriminate].
      * left. eexists. split; [reflexivity | intros l H; discriminate].
      * right. repeat split; reflexivity.
Qed.

Lemma upd2_lookup {A} (g : nat -> nat -> A) o a v o' a' r :
  upd2 g o a v o' a' = r -> (o' = o /\ a' = a /\ r = v) \/ ((o, a) <> (o', a') /\ g o' a' = r).
Proof.
  intros H. destruct (Nat.eq_dec o o') as [E1|N1]; destruct (Nat.eq_dec a a') as [E2|N2].
  - left. rewrite <- E1, <- E2 in *. rewrite upd2_same in H. auto.
  - right. assert (N : (o, a) <> (o', a')) by congruence. rewrite upd2_other in H by exact N. auto.
  - right. assert (N : (o, a) <> (o', a')) by congruence. rewrite upd2_other in H by exact N. auto.
  - right. assert (N : (o, a) <> (o', a')) by congruence. rewrite upd2_other in H by exact N. auto.
Qed.

(* installing a freshly built default in slot (o, a) *)
Lemma dwf_install s o a :
  dwf s ->
  dwf (let '(v, s1) := fresh_default (decl a) s in
       {| slot := upd2 (slot s1) o a (Some v); dset := dset s1; heap := heap s1; nextloc := nextloc s1 |}).
Proof.
  intros [H1 H2]. destruct (fresh_default_cases (decl a) s) as [[v [E Hv]]|[E _]]; rewrite E.
  - split; cbn [slot nextloc].
    + intros o' a' l H. apply upd2_lookup in H. destruct H as [[_ [_ H]]|[_ H]].
      * inversion H. exfalso. eapply Hv; eauto.
      * eapply H1; eauto.
    + intros o1 a1 o2 a2 l Ha Hb. apply upd2_lookup in Ha. apply upd2_lookup in Hb.
      destruct Ha as [[_ [_ Ha]]|[_ Ha]]; [inversion Ha; exfalso; eapply Hv; eauto|].
      destruct Hb as [[_ [_ Hb]]|[_ Hb]]; [inversion Hb; exfalso; eapply Hv; eauto|].
      eapply H2; eauto.
  - split; cbn [slot nextloc].
    + intros o' a' l H. apply upd2_lookup in H. destruct H as [[_ [_ H]]|[_ H]].
      * inversion H. lia.
      * apply H1 in H. lia.
    + intros o1 a1 o2 a2 l Ha Hb. apply upd2_lookup in Ha. apply upd2_lookup in Hb.
      destruct Ha as [[E1 [E2 Ha]]|[_ Ha]]; destruct Hb as [[E3 [E4 Hb]]|[_ Hb]].
      * subst. auto.
      * inversion Ha; subst l. apply H1 in Hb. lia.
      * inversion Hb; subst l. apply H1 in Ha. lia.
      * eapply H2; eauto.
Qed.

Lemma dwf_dread s o a : dwf s -> dwf (snd (dread decl s o a)).
Proof.
  intros H. unfold dread. destruct (slot s o a); [exact H|].
  pose proof (dwf_install s o a H) as G. destruct (fresh_default (decl a) s) as [v s1]. exact G.
Qed.

Lemma dwf_set_value s o a z :
  dwf s ->
  dwf {| slot := upd2 (slot s) o a (Some (match z with Some x => DV x | None => DNone end));
         dset := upd2 (dset s) o a true; heap := heap s; nextloc := nextloc s |}.
Proof.
  intros [H1 H2].
  assert (G : forall o' a' l, upd2 (slot s) o a (Some (match z with Some x => DV x | None => DNone end)) o' a' = Some (DLoc l) ->
              slot s o' a' = Some (DLoc l)).
  { intros o' a' l H. apply upd2_lookup in H. destruct H as [[_ [_ H]]|[_ H]]; [destruct z; discriminate | exact H]. }
  split; cbn [slot nextloc].
  - intros o' a' l H. eapply H1. eapply G; eauto.
  - intros o1 a1 o2 a2 l Ha Hb. eapply H2; eapply G; eauto.
Qed.

Theorem dwf_step s op : dwf s -> dwf (dstep decl s op).
Proof.
  intros H. destruct op as [o a|o a v|o a|o a x]; cbn [dstep].
  - apply dwf_dread; exact H.
  - unfold dwrite. apply dwf_set_value. apply dwf_dread. exact H.
  - unfold ddel. pose proof (dwf_dread s o a H) as H1.
    pose proof (dwf_install (snd (dread decl s o a)) o a H1) as G.
    destruct (fresh_default (decl a) (snd (dread decl s o a))) as [v s2].
    destruct G as [G1 G2]. split; cbn [slot nextloc] in *; assumption.
  - unfold dmutate. pose proof (dwf_dread s o a H) as H1.
    destruct (dread decl s o a) as [v s1]. cbn [snd] in H1.
    destruct v; exact H1.
Qed.

Theorem dwf_history ops s : dwf s -> dwf (fold_left (dstep decl) ops s).
Proof.
  revert s; induction ops as [|op ops IH]; intros s H; simpl; [exact H|].
  apply IH. apply dwf_step. exact H.
Qed.

(* ---- a never-set feature reads as its declared default and is not set ---- *)
Definition default_view (d : adecl) : dview :=
  match a_literal d with
  | Some z => WZ z
  | None => match a_explicit d with
            | Some z => WZ z
            | None => match a_tdefault d with
                      | TDVal (Some z) => WZ z
                      | TDVal None => WNone
                      | TDFactory => WList []
                      end
            end
  end.

Theorem never_set_reads_default s o a :
  slot s o a = None -> dview_at decl s o a = default_view (decl a).
Proof.
  intros H. unfold dview_at. rewrite H. unfold fresh_default, default_view.
  destruct (a_literal (decl a)); [reflexivity|]. destruct (a_explicit (decl a)); [reflexivity|].
  destruct (a_tdefault (decl a)) as [[z|]|]; try reflexivity.
  cbn [view_of heap]. rewrite upd1_same. reflexivity.
Qed.

(* ---- reading is free ---- *)
Theorem read_keeps_isset s o a : dset (snd (dread decl s o a)) = dset s.
Proof.
  unfold dread. destruct (slot s o a); [reflexivity|].
  destruct (fresh_default_cases (decl a) s) as [[v [E _]]|[E _]]; rewrite E; reflexivity.
Qed.

Lemma view_unmaterialised_fresh s1 a' :
  (* the view of a never-materialised slot does not depend on the allocation state *)
  (let '(v, s2) := fresh_default (decl a') s1 in view_of s2 v) = default_view (decl a').
Proof.
  unfold fresh_default, default_view.
  destruct (a_literal (decl a')); [reflexivity|]. destruct (a_explicit (decl a')); [reflexivity|].
  destruct (a_tdefault (decl a')) as [[z|]|]; try reflexivity.
  cbn [view_of heap]. rewrite upd1_same. reflexivity.
Qed.

Theorem read_keeps_every_view s o a o' a' :
  dwf s -> dview_at decl (snd (dread decl s o a)) o' a' = dview_at decl s o' a'.
Proof.
  intros [H1 H2]. unfold dread. destruct (slot s o a) as [v0|] eqn:Es; [reflexivity|].
  assert (Hsame : dview_at decl s o a = default_view (decl a)) by (apply never_set_reads_default; exact Es).
  destruct (fresh_default_cases (decl a) s) as [[v [E Hv]]|[E [L1 [L2 L3]]]]; rewrite E; cbn [snd].
  - (* an immutable default is installed: nothing is allocated *)
    destruct (Nat.eq_dec o o') as [Eo|No]; [destruct (Nat.eq_dec a a') as [Ea|Na]|].
    + subst o' a'. rewrite Hsame. unfold dview_at. cbn [slot]. rewrite upd2_same.
      pose proof (view_unmaterialised_fresh s a) as G. rewrite E in G. exact G.
    + unfold dview_at. cbn [slot]. rewrite upd2_other by congruence.
      destruct (slot s o' a') as [w|]; [destruct w; reflexivity | rewrite !view_unmaterialised_fresh; reflexivity].
    + unfold dview_at. cbn [slot]. rewrite upd2_other by congruence.
      destruct (slot s o' a') as [w|]; [destruct w; reflexivity | rewrite !view_unmaterialised_fresh; reflexivity].
  - (* a fresh container is installed at the next location *)
    assert (Hother : (o, a) <> (o', a') ->
      dview_at decl
        {| slot := upd2 (slot s) o a (Some (DLoc (nextloc s))); dset := dset s;
           heap := upd1 (heap s) (nextloc s) []; nextloc := S (nextloc s) |} o' a' = dview_at decl s o' a').
    { intros N. unfold dview_at. cbn [slot]. rewrite upd2_other by exact N.
      destruct (slot s o' a') as [w|] eqn:Ew.
      - destruct w as [z| |l]; try reflexivity. cbn [view_of heap].
        rewrite upd1_other; [reflexivity|]. apply H1 in Ew. lia.
      - rewrite !view_unmaterialised_fresh. reflexivity. }
    destruct (Nat.eq_dec o o') as [Eo|No]; [destruct (Nat.eq_dec a a') as [Ea|Na]|].
    + subst o' a'. rewrite Hsame. unfold dview_at. cbn [slot]. rewrite upd2_same.
      cbn [view_of heap]. rewrite upd1_same. unfold default_view. rewrite L1, L2, L3. reflexivity.
    + apply Hother. congruence.
    + apply Hother. congruence.
Qed.

(* ---- deleting a feature restores its default ---- *)
Theorem del_restores_default s o a :
  dview_at decl (ddel decl s o a) o a = default_view (decl a).
Proof.
  unfold ddel.
  pose proof (view_unmaterialised_fresh (snd (dread decl s o a)) a) as G.
  destruct (fresh_default (decl a) (snd (dread decl s o a))) as [v s2].
  unfold dview_at. cbn [slot]. rewrite upd2_same. exact G.
Qed.

(* ---- objects never share feature state ---- *)
Theorem mutation_is_private s o a x o' a' :
  dwf s -> (o, a) <> (o', a') ->
  dview_at decl (dmutate decl s o a x) o' a' = dview_at decl s o' a'.
Proof.
  intros Hwf N. unfold dmutate.
  pose proof (read_keeps_every_view s o a o' a' Hwf) as Hr.
  pose proof (dwf_dread s o a Hwf) as Hwf1.
  assert (Hslot : forall v s1, dread decl s o a = (v, s1) -> slot s1 o a = Some v).
  { intros v s1 Hd. unfold dread in Hd. destruct (slot s o a) as [w|] eqn:Es.
    - inversion Hd; subst. exact Es.
    - destruct (fresh_default (decl a) s) as [w s0]. inversion Hd; subst. cbn [slot]. apply upd2_same. }
  destruct (dread decl s o a) as [v s1] eqn:Ed. cbn [snd] in *.
  destruct v as [z| |l]; try exact Hr.
  rewrite <- Hr. unfold dview_at. cbn [slot].
  destruct Hwf1 as [W1 W2]. pose proof (Hslot _ _ eq_refl) as Hl.
  destruct (slot s1 o' a') as [w|] eqn:Ew.
  - destruct w as [z| |l']; try reflexivity. cbn [view_of heap].
    rewrite upd1_other; [reflexivity|]. intros ->.
    destruct (W2 o a o' a' l' Hl Ew) as [E1 E2]. apply N. congruence.
  - rewrite !view_unmaterialised_fresh. reflexivity.
Qed.

End D.
