(* Well-formedness through the composite collection operations: remove, pop,
   del c[i], clear, extend, item assignment, x.f = [...], del x.f. *)
From Coq Require Import ZArith List Bool Arith Lia.
From PyecoreV Require Import Lib.PyBase Lib.PyList Model.Kernel Proofs.PyListFacts Proofs.KernelFacts Proofs.C01Proofs Proofs.C01Full Proofs.C02Proofs Proofs.WFBase Proofs.WFRemove Proofs.SymLink Proofs.OwnPrim Proofs.OwnAdd Proofs.OwnSet.
Import ListNotations.
Open Scope nat_scope.

Lemma unlink_elem_id m s x f v :
  f_isref (fd m f) = false \/ obj_of v = None -> unlink_elem m s x f v = s.
Proof.
  intros [H|H]; unfold unlink_elem; rewrite H; [reflexivity|]. destruct (f_isref (fd m f)); reflexivity.
Qed.

Lemma raw_remove_head v l : raw_remove v (v :: l) = l.
Proof. unfold raw_remove. cbn [remove_first]. rewrite C01Full.veqb_refl. reflexivity. Qed.

Section Unlink.
Variable m : mm.
Hypothesis W : wf_mm m.

(* the four components after the reference part of a removal *)
Lemma unlink_vals t x f v :
  forall k, vals (unlink_elem m t x f v) k = Uval (erase m) (vals t) x f v k.
Proof.
  intros k. rewrite <- (vals_unlink (erase m) (erase_no_containment m) t x f v).
  unfold unlink_elem. er. destruct (f_isref (fd m f)); [|reflexivity].
  destruct (obj_of v) as [y|]; [|reflexivity].
  rewrite (ev_update_opposite_remove m (uc_clear m t f (Some y)) (uc_clear (erase m) t f (Some y)) x f y); [reflexivity|].
  rewrite !vals_uc_clear. reflexivity.
Qed.

Lemma unlink_cont t x f y :
  f_many (fd m f) = true -> f_isref (fd m f) = true ->
  cont (unlink_elem m t x f (VObj y)) = if f_cont (fd m f) then updn (cont t) y None else cont t.
Proof.
  intros Hm Hr. rewrite <- (WFRemove.cont_coll_remove_full m W t x f y Hm Hr). reflexivity.
Qed.

(* an own-cell write before the reference part commutes with it *)
Lemma unlink_set_vals t x f v L :
  f_many (fd m f) = true ->
  (forall k, vals (unlink_elem m (set_vals t (x, f) L) x f v) k = upd (vals (unlink_elem m t x f v)) (x, f) L k) /\
  cont (unlink_elem m (set_vals t (x, f) L) x f v) = cont (unlink_elem m t x f v) /\
  rcont (unlink_elem m (set_vals t (x, f) L) x f v) = rcont (unlink_elem m t x f v) /\
  eres (unlink_elem m (set_vals t (x, f) L) x f v) = eres (unlink_elem m t x f v).
Proof.
  intros Hm.
  destruct (rframe_unlink_elem m (set_vals t (x, f) L) x f v) as [R1 E1].
  destruct (rframe_unlink_elem m t x f v) as [R2 E2].
  split; [|split; [|split; [rewrite R1, R2; reflexivity | rewrite E1, E2; reflexivity]]].
  - intros k. rewrite !unlink_vals. cbn [vals set_vals].
    rewrite (Uval_comm (erase m) (vals t) x f v L) by (er; exact Hm).
    apply upd_ext. intros k0. rewrite unlink_vals. reflexivity.
  - destruct (f_isref (fd m f)) eqn:Hr; [|rewrite !(unlink_elem_id m _ x f v (or_introl Hr)); reflexivity].
    destruct (obj_of v) as [y|] eqn:Ev; [|rewrite !(unlink_elem_id m _ x f v (or_intror Ev)); reflexivity].
    apply obj_of_Some' in Ev. subst v. rewrite !(unlink_cont _ x f y Hm Hr). reflexivity.
Qed.

End Unlink.

Section RemovePop.
Variable m : mm.
Hypothesis W : wf_mm m.

Lemma remove_full_fields s x f v :
  (forall k, vals (coll_remove_full m s (x, f) v) k =
     upd (vals (unlink_elem m s x f v)) (x, f) (raw_remove v (vals (unlink_elem m s x f v) (x, f))) k) /\
  cont (coll_remove_full m s (x, f) v) = cont (unlink_elem m s x f v) /\
  rcont (coll_remove_full m s (x, f) v) = rcont (unlink_elem m s x f v) /\
  eres (coll_remove_full m s (x, f) v) = eres (unlink_elem m s x f v).
Proof. repeat split; reflexivity. Qed.

Lemma has_opp_or_cont_ref f : (f_opp (fd m f) <> None \/ f_cont (fd m f) = true) -> f_isref (fd m f) = true.
Proof.
  intros [Ho|Hc]; [|exact (wf_cont_ref m W f Hc)].
  destruct (f_opp (fd m f)) as [g|] eqn:Eg; [exact (wf_opp_ref m W f g Eg) | congruence].
Qed.

(* ECollection.remove of a present element, whatever it is *)
Theorem WF_remove_any s x f v :
  WF m s -> f_many (fd m f) = true -> vmem v (vals s (x, f)) = true -> WF m (coll_remove_full m s (x, f) v).
Proof.
  intros H Hm Hin.
  assert (Plain : f_isref (fd m f) = false \/ obj_of v = None -> WF m (coll_remove_full m s (x, f) v)).
  { intros Hid. destruct (remove_full_fields s x f v) as [HV [HC [HR HE]]].
    rewrite (unlink_elem_id m s x f v Hid) in HV, HC, HR, HE.
    apply (WF_cell_write m W s _ x f H Hm).
    - intros k N. rewrite HV. apply upd_other. intros E; apply N; symmetry; exact E.
    - intros c; rewrite HC; reflexivity.
    - intros c; rewrite HE; reflexivity.
    - intros r; rewrite HR; reflexivity.
    - intros Ho. rewrite HV, upd_same. apply raw_remove_objs_nonobj.
      destruct Hid as [Hr|Hv]; [|exact Hv]. rewrite (has_opp_or_cont_ref f Ho) in Hr. discriminate. }
  destruct (f_isref (fd m f)) eqn:Hr; [|apply Plain; left; reflexivity].
  destruct (obj_of v) as [y|] eqn:Ev; [|apply Plain; right; reflexivity].
  apply obj_of_Some' in Ev. subst v. apply (WF_coll_remove_full m W); [exact H | exact Hm | exact Hr | apply vmem_obj; exact Hin].
Qed.

End RemovePop.

Section PopClearWF.
Variable m : mm.
Hypothesis W : wf_mm m.

Lemma unlink_own t x f v : f_many (fd m f) = true -> vals (unlink_elem m t x f v) (x, f) = vals t (x, f).
Proof. intros Hm. rewrite unlink_vals. apply Uval_own. er. exact Hm. Qed.

(* ECollection.pop / unique del c[i] *)
Theorem WF_pop s x f i :
  WF m s -> f_many (fd m f) = true -> WF m (snd (fst (coll_pop_full m s (x, f) i))).
Proof.
  intros H Hm. unfold coll_pop_full.
  destruct (vals s (x, f)) as [|a0 l0] eqn:El; [exact H|]. rewrite <- El.
  destruct (py_pop i (vals s (x, f))) as [[v l']|] eqn:Ep; [|exact H]. cbn [fst snd].
  destruct (py_pop_nth i _ _ _ Ep) as [n [Hn Hl']].
  destruct (unlink_set_vals m W s x f v l' Hm) as [UV [UC [UR UE]]].
  set (s' := notify m (unlink_elem m (set_vals s (x, f) l') x f v) x f KRemove (POne v) (POne VNone)).
  assert (HV : forall k, vals s' k = upd (vals (unlink_elem m s x f v)) (x, f) l' k) by (intros k; apply UV).
  assert (HC : cont s' = cont (unlink_elem m s x f v)) by exact UC.
  assert (HR : rcont s' = rcont (unlink_elem m s x f v)) by exact UR.
  assert (HE : eres s' = eres (unlink_elem m s x f v)) by exact UE.
  clearbody s'. clear UV UC UR UE.
  assert (Plain : (forall k, k <> (x, f) -> vals (unlink_elem m s x f v) k = vals s k) ->
                  cont (unlink_elem m s x f v) = cont s ->
                  ((f_opp (fd m f) <> None \/ f_cont (fd m f) = true) -> obj_of v = None) -> WF m s').
  { intros PV PC PO. destruct (rframe_unlink_elem m s x f v) as [R1 E1].
    apply (WF_cell_write m W s s' x f H Hm).
    - intros k N. rewrite HV. rewrite upd_other by (intros E; apply N; symmetry; exact E). apply PV; exact N.
    - intros c. rewrite HC, PC. reflexivity.
    - intros c. rewrite HE, E1. reflexivity.
    - intros r. rewrite HR, R1. reflexivity.
    - intros Ho. rewrite HV, upd_same, Hl'. exact (remove_at_objs_nonobj _ n Hn (PO Ho)). }
  destruct (f_isref (fd m f)) eqn:Hr.
  2:{ apply Plain; rewrite ?(unlink_elem_id m s x f v (or_introl Hr)); try reflexivity.
      intros Ho. rewrite (has_opp_or_cont_ref m W f Ho) in Hr. discriminate. }
  destruct (obj_of v) as [y|] eqn:Ev.
  2:{ apply Plain; rewrite ?(unlink_elem_id m s x f v (or_intror Ev)); try reflexivity. }
  apply obj_of_Some' in Ev. subst v.
  destruct (f_opp (fd m f)) as [g|] eqn:Eg; [|destruct (f_cont (fd m f)) eqn:Hc].
  3:{ apply Plain.
      - intros k _. rewrite unlink_vals. rewrite Uval_noopp by (er; exact Eg). reflexivity.
      - rewrite (unlink_cont m W s x f y Hm Hr), Hc. reflexivity.
      - intros [C|C]; congruence. }
  all: assert (ND : nodup_objs (vals s (x, f))) by (apply (proj2 (wf_shape m s H x f)); first [left; congruence | right; assumption]).
  all: assert (Hin : In (VObj y) (vals s (x, f))) by (eapply nth_error_In; exact Hn).
  all: pose proof (WF_coll_remove_full m W s x f y H Hm Hr Hin) as HRm.
  all: destruct (remove_full_fields m s x f (VObj y)) as [FV [FC [FR FE]]].
  all: apply (WF_ext m (coll_remove_full m s (x, f) (VObj y)) s');
    [ | intros c; rewrite HC, FC; reflexivity | intros c; rewrite HE, FE; reflexivity
      | intros r; rewrite HR, FR; reflexivity | exact HRm].
  all: assert (EL : raw_remove (VObj y) (vals (unlink_elem m s x f (VObj y)) (x, f)) = l')
    by (rewrite (unlink_own s x f (VObj y) Hm), Hl'; unfold raw_remove;
        rewrite (remove_first_is_remove_at y _ n ND Hn); reflexivity).
  all: intros k; rewrite HV, FV, EL; reflexivity.
Qed.

End PopClearWF.

Section ClearWF.
Variable m : mm.
Hypothesis W : wf_mm m.

Lemma clear_loop x f :
  f_many (fd m f) = true ->
  forall rest s0, WF m (set_vals s0 (x, f) rest) ->
  WF m (set_vals (fold_left (fun acc v => unlink_elem m acc x f v) rest s0) (x, f) []).
Proof.
  intros Hm. induction rest as [|v rest IH]; intros s0 HI; [exact HI|].
  cbn [fold_left]. apply IH.
  set (t := set_vals s0 (x, f) (v :: rest)) in *.
  assert (Hin : vmem v (vals t (x, f)) = true).
  { apply In_vmem. unfold t. cbn [vals set_vals]. rewrite upd_same. left; reflexivity. }
  pose proof (WF_remove_any m W t x f v HI Hm Hin) as HRm.
  destruct (remove_full_fields m t x f v) as [FV [FC [FR FE]]].
  destruct (unlink_set_vals m W s0 x f v (v :: rest) Hm) as [UV [UC [UR UE]]]. fold t in UV, UC, UR, UE.
  apply (WF_ext m (coll_remove_full m t (x, f) v)); [| | | | exact HRm].
  - intros k. rewrite FV. rewrite (UV (x, f)), upd_same, raw_remove_head. cbn [vals set_vals].
    rewrite <- (upd_upd (vals (unlink_elem m s0 x f v)) (x, f) (v :: rest) rest k).
    apply upd_ext. intros k0. rewrite UV. reflexivity.
  - intros c. rewrite FC, UC. reflexivity.
  - intros c. rewrite FE, UE. reflexivity.
  - intros r. rewrite FR, UR. reflexivity.
Qed.

(* ECollection.clear *)
Theorem WF_clear s x f :
  WF m s -> f_many (fd m f) = true -> WF m (coll_clear_full m s (x, f)).
Proof.
  intros H Hm. unfold coll_clear_full.
  destruct (vals s (x, f)) as [|a0 l0] eqn:El; [exact H|]. rewrite <- El.
  apply (WF_ext m (set_vals (fold_left (fun acc v => unlink_elem m acc x f v) (vals s (x, f)) s) (x, f) []));
    try (intros; reflexivity).
  apply clear_loop; [exact Hm|].
  apply (WF_ext m s); try (intros; reflexivity); [|exact H].
  intros k. cbn [vals set_vals]. unfold upd. destruct (cell_eqb_spec (x, f) k) as [E|N]; [subst k; reflexivity | reflexivity].
Qed.

End ClearWF.

Lemma sa_of_set_vals m s k L y :
  rcont (sa_of m (set_vals s k L) y) = rcont (sa_of m s y) /\
  eres (sa_of m (set_vals s k L) y) = eres (sa_of m s y).
Proof.
  unfold sa_of.
  assert (E : eresource_of m (set_vals s k L) y = eresource_of m s y).
  { unfold eresource_of. rewrite (root_of_ext _ s (set_vals s k L) y) by reflexivity. reflexivity. }
  rewrite E. destruct (eresource_of m s y) as [r|]; [|split; reflexivity].
  change (rcont (set_vals s k L) r) with (rcont s r).
  destruct (nmem y (rcont s r)); split; reflexivity.
Qed.

Lemma slot_ok_set_vals m s x f y L : slot_ok m s x f y -> slot_ok m (set_vals s (x, f) L) x f y.
Proof.
  intros H p pf Ec N. change (cont (set_vals s (x, f) L)) with (cont s) in Ec.
  change (vals (set_vals s (x, f) L)) with (upd (vals s) (x, f) L).
  rewrite upd_other by (intros E; apply N; symmetry; exact E). exact (H p pf Ec N).
Qed.

Section LinkComm.
Variable m : mm.
Hypothesis W : wf_mm m.

Lemma linkV_set_vals s x f y L :
  slot_ok m s x f y -> f_many (fd m f) = true ->
  forall k, linkV m (set_vals s (x, f) L) x f y k = upd (linkV m s x f y) (x, f) L k.
Proof.
  intros Hslot Hm k. unfold linkV. destruct (f_cont (fd m f)) eqn:Hc; [|reflexivity].
  apply (ucV_upd m s (set_vals s (x, f) L) x f y (x, f) L); [reflexivity | reflexivity|].
  intros p pf Ec N. destruct (Hslot p pf Ec N) as [H1 _]. split; [intros E; apply N; symmetry; exact E|].
  intros h Eh E. inversion E; subst h. destruct (wf_container_end m W pf f Eh H1) as [A _]. congruence.
Qed.

Lemma no_steal_set_vals s x f y L :
  slot_ok m s x f y -> f_many (fd m f) = true -> no_steal m s x f y -> no_steal m (set_vals s (x, f) L) x f y.
Proof.
  intros Hslot Hm Hdead g c0 Hc Eg Ehd Nx Hin.
  destruct (wf_container_end m W f g Eg Hc) as [Hgs _].
  rewrite (linkV_set_vals s x f y L Hslot Hm) in Ehd, Hin.
  rewrite upd_other in Ehd by (intros E; inversion E; congruence).
  rewrite upd_other in Hin by (intros E; inversion E; congruence).
  exact (Hdead g c0 Hc Eg Ehd Nx Hin).
Qed.

End LinkComm.

Section ExtendWF.
Variable m : mm.
Hypothesis W : wf_mm m.

(* an own-cell write before the reference part of an addition commutes with it *)
Lemma link_set_vals s x f v L :
  WF m s -> f_many (fd m f) = true ->
  (forall k, vals (link_elem m (set_vals s (x, f) L) x f v) k = upd (vals (link_elem m s x f v)) (x, f) L k) /\
  (forall c, cont (link_elem m (set_vals s (x, f) L) x f v) c = cont (link_elem m s x f v) c) /\
  rcont (link_elem m (set_vals s (x, f) L) x f v) = rcont (link_elem m s x f v) /\
  eres (link_elem m (set_vals s (x, f) L) x f v) = eres (link_elem m s x f v).
Proof.
  intros H Hm.
  match goal with |- ?G => assert (Plain : f_isref (fd m f) = false \/ obj_of v = None -> G) end.
  { intros Hid. rewrite !(link_elem_id m _ x f v Hid). repeat split; reflexivity. }
  destruct (f_isref (fd m f)) eqn:Hr; [|apply Plain; left; reflexivity].
  destruct (obj_of v) as [y|] eqn:Ev; [|apply Plain; right; reflexivity].
  apply obj_of_Some' in Ev. subst v. clear Plain.
  set (t := set_vals s (x, f) L).
  pose proof (WF_slot_ok m s x f y H) as Hslot.
  pose proof (slot_ok_set_vals m s x f y L Hslot) as Hslot_t. fold t in Hslot_t.
  pose proof (no_steal_WF m W s x f y H) as Hdead.
  pose proof (no_steal_set_vals m W s x f y L Hslot Hm Hdead) as Hdead_t. fold t in Hdead_t.
  split; [|split].
  - intros k. rewrite (link_vals m W t x f y Hr Hm (fun _ => Hslot_t) k). unfold t.
    rewrite (Lval_ext (erase m) _ _ x f (VObj y) (linkV_set_vals m W s x f y L Hslot Hm) k).
    rewrite (Lval_comm (erase m) (linkV m s x f y) x f (VObj y) L) by (er; exact Hm).
    apply upd_ext. intros k0. symmetry. apply (link_vals m W s x f y Hr Hm (fun _ => Hslot)).
  - intros c. rewrite (link_cont m W t x f y Hr Hm (fun _ => Hslot_t) Hdead_t c).
    rewrite (link_cont m W s x f y Hr Hm (fun _ => Hslot) Hdead c). reflexivity.
  - destruct (link_res m W t x f y Hr Hm) as [R1 E1]. destruct (link_res m W s x f y Hr Hm) as [R2 E2].
    rewrite R1, E1, R2, E2. destruct (f_cont (fd m f)); [exact (sa_of_set_vals m s (x, f) L y) | split; reflexivity].
Qed.

Lemma link_own s x f v :
  WF m s -> f_many (fd m f) = true -> vals (link_elem m s x f v) (x, f) = vals s (x, f).
Proof.
  intros H Hm.
  destruct (f_isref (fd m f)) eqn:Hr; [|rewrite (link_elem_id m s x f v (or_introl Hr)); reflexivity].
  destruct (obj_of v) as [y|] eqn:Ev; [|rewrite (link_elem_id m s x f v (or_intror Ev)); reflexivity].
  apply obj_of_Some' in Ev. subst v. pose proof (WF_slot_ok m s x f y H) as Hslot.
  rewrite (link_vals m W s x f y Hr Hm (fun _ => Hslot)). rewrite Lval_own by (er; exact Hm).
  apply (linkV_own m W); [intros _; exact Hslot | exact Hm].
Qed.

(* one round of EAbstractSet.update: the own cell grows first, then the element is linked *)
Lemma WF_extend_step s x f v :
  WF m s -> f_many (fd m f) = true -> f_unique (fd m f) = true -> check_elem m f v = true ->
  WF m (link_elem m (set_vals s (x, f) (raw_append true v (vals s (x, f)))) x f v).
Proof.
  intros H Hm Hu Hchk.
  pose proof (WF_coll_add_full m W s x f None v H Hm) as HA.
  destruct (add_fields m s x f None v Hchk) as [AV [AC [AR AE]]]. rewrite Hu, (link_own s x f v H Hm) in AV.
  destruct (link_set_vals s x f v (raw_append true v (vals s (x, f))) H Hm) as [LV [LC [LR LE]]].
  apply (WF_ext m (snd (coll_add_full m s (x, f) None v))); [| | | | exact HA].
  - intros k. rewrite LV, AV. reflexivity.
  - intros c. rewrite LC, AC. reflexivity.
  - intros c. rewrite LE, AE. reflexivity.
  - intros r. rewrite LR, AR. reflexivity.
Qed.

End ExtendWF.

Section ExtendWF2.
Variable m : mm.
Hypothesis W : wf_mm m.

Lemma nonunique_plain f :
  f_many (fd m f) = true -> f_unique (fd m f) = false -> f_opp (fd m f) = None /\ f_cont (fd m f) = false.
Proof.
  intros Hm Hu. split.
  - destruct (f_opp (fd m f)) as [g|] eqn:E; [|reflexivity].
    rewrite (wf_many_unique m W f Hm) in Hu; [discriminate | left; congruence].
  - destruct (f_cont (fd m f)) eqn:E; [|reflexivity].
    rewrite (wf_many_unique m W f Hm) in Hu; [discriminate | right; exact E].
Qed.

(* a reference without opposite and containment: only the inverse bookkeeping *)
Lemma link_plain t x f v :
  f_cont (fd m f) = false -> f_opp (fd m f) = None ->
  vals (link_elem m t x f v) = vals t /\ cont (link_elem m t x f v) = cont t /\ rframe t (link_elem m t x f v).
Proof.
  intros Hc Ho. unfold link_elem.
  destruct (f_isref (fd m f)); [|split; [reflexivity | split; [reflexivity | apply rframe_refl]]].
  destruct (obj_of v) as [y|]; [|split; [reflexivity | split; [reflexivity | apply rframe_refl]]].
  rewrite (uc_noncont m _ _ _ _ _ Hc). unfold update_opposite_add. rewrite Ho.
  split; [apply vals_inv_add | split; [apply cont_inv_add_any | apply rframe_inv_add]].
Qed.

Lemma fold_link_plain x f vs :
  f_cont (fd m f) = false -> f_opp (fd m f) = None ->
  forall t, vals (fold_left (fun acc v => link_elem m acc x f v) vs t) = vals t /\
            cont (fold_left (fun acc v => link_elem m acc x f v) vs t) = cont t /\
            rframe t (fold_left (fun acc v => link_elem m acc x f v) vs t).
Proof.
  intros Hc Ho. induction vs as [|v vs IH]; intros t; [split; [reflexivity | split; [reflexivity | apply rframe_refl]]|].
  cbn [fold_left]. destruct (IH (link_elem m t x f v)) as [A [B C]].
  destruct (link_plain t x f v Hc Ho) as [A1 [B1 C1]].
  split; [congruence | split; [congruence | eapply rframe_trans; eassumption]].
Qed.

(* EList.extend / EAbstractSet.update / += *)
Theorem WF_extend s x f vs :
  WF m s -> f_many (fd m f) = true -> WF m (snd (coll_extend_full m s (x, f) vs)).
Proof.
  intros H Hm. unfold coll_extend_full.
  destruct (forallb (check_elem m f) vs) eqn:Ec; cbn [negb snd]; [|exact H].
  assert (Hvs : forall v, In v vs -> check_elem m f v = true).
  { intros v Hv. rewrite forallb_forall in Ec. apply Ec. exact Hv. }
  match goal with |- WF m (set_isset (notify m ?S _ _ _ _ _) _) => set (s1 := S) end.
  apply (WF_ext m s1); try (intros; reflexivity). unfold s1. clear s1 Ec.
  destruct (f_unique (fd m f)) eqn:Hu.
  - revert s H Hvs. induction vs as [|v vs IH]; intros s H Hvs; [exact H|].
    cbn [fold_left]. apply IH; [|intros w Hw; apply Hvs; right; exact Hw].
    apply (WF_extend_step m W); try assumption. apply Hvs. left; reflexivity.
  - destruct (nonunique_plain f Hm Hu) as [Ho Hc].
    destruct (fold_link_plain x f vs Hc Ho s) as [A [B [R1 R2]]].
    set (sa := fold_left (fun acc v => link_elem m acc x f v) vs s) in *.
    apply (WF_cell_write m W s _ x f H Hm).
    + intros k N. cbn [vals set_vals]. rewrite upd_other by (intros E; apply N; symmetry; exact E). rewrite A. reflexivity.
    + intros c. cbn [cont set_vals]. rewrite B. reflexivity.
    + intros c. cbn [eres set_vals]. rewrite R2. reflexivity.
    + intros r. cbn [rcont set_vals]. rewrite R1. reflexivity.
    + intros [C|C]; congruence.
Qed.

End ExtendWF2.

Section ItemsWF.
Variable m : mm.
Hypothesis W : wf_mm m.

(* c[i] = v *)
Theorem WF_setitem s x f i v :
  WF m s -> f_many (fd m f) = true -> WF m (snd (coll_setitem_full m s (x, f) i v)).
Proof.
  intros H Hm. unfold coll_setitem_full.
  destruct (check_elem m f v) eqn:Ec; cbn [negb]; [|exact H].
  destruct (f_unique (fd m f)) eqn:Hu.
  - destruct ((i <? 0)%Z && ((if (i <? 0)%Z then (zlen (vals s (x, f)) + i)%Z else i) <? 0)%Z); [exact H|].
    unfold seq_outcome.
    pose proof (WF_pop m W s x f (if (i <? 0)%Z then (zlen (vals s (x, f)) + i)%Z else i) H Hm) as Hp.
    destruct (fst (coll_pop_full m s (x, f) (if (i <? 0)%Z then (zlen (vals s (x, f)) + i)%Z else i))) as [[e|] s1];
      cbn [snd] in *; [exact Hp|].
    apply (WF_coll_add_full m W); assumption.
  - destruct (nonunique_plain m W f Hm Hu) as [Ho Hc].
    destruct (link_plain m s x f v Hc Ho) as [A [B [R1 R2]]].
    destruct (norm_index (zlen (vals (link_elem m s x f v) (x, f))) i) as [n|]; cbn [snd].
    + apply (WF_cell_write m W s _ x f H Hm).
      * intros k N. cbn [vals set_isset notify push_log set_vals].
        rewrite upd_other by (intros E; apply N; symmetry; exact E). rewrite A. reflexivity.
      * intros c. cbn [cont set_isset notify push_log set_vals]. rewrite B. reflexivity.
      * intros c. cbn [eres set_isset notify push_log set_vals]. rewrite R2. reflexivity.
      * intros r. cbn [rcont set_isset notify push_log set_vals]. rewrite R1. reflexivity.
      * intros [C|C]; congruence.
    + apply (WF_ext m s); [intros k; rewrite A; reflexivity | intros c; rewrite B; reflexivity
                           | intros c; rewrite R2; reflexivity | intros r; rewrite R1; reflexivity | exact H].
Qed.

(* del c[i] *)
Theorem WF_delitem s x f i :
  WF m s -> f_many (fd m f) = true -> WF m (snd (coll_delitem_full m s (x, f) i)).
Proof.
  intros H Hm. unfold coll_delitem_full. cbn [snd].
  destruct (f_unique (fd m f)) eqn:Hu; [apply (WF_pop m W); assumption|].
  destruct (nonunique_plain m W f Hm Hu) as [Ho Hc].
  destruct (py_pop i (vals s (x, f))) as [[w l']|]; cbn [snd]; [|exact H].
  apply (WF_cell_write m W s _ x f H Hm); try (intros; reflexivity).
  - intros k N. cbn [vals set_vals]. apply upd_other. intros E; apply N; symmetry; exact E.
  - intros [C|C]; congruence.
Qed.

(* x.f = [...] *)
Theorem WF_assign s x f vs :
  WF m s -> f_many (fd m f) = true -> WF m (snd (assign_full m s (x, f) vs)).
Proof.
  intros H Hm. unfold assign_full. cbn [snd].
  destruct (forallb (check_elem m f) vs); cbn [negb]; [|exact H].
  apply (WF_extend m W); [apply (WF_clear m W); assumption | exact Hm].
Qed.

(* del x.f *)
Theorem WF_del s x f : WF m s -> WF m (snd (del_full m s (x, f))).
Proof.
  intros H. unfold del_full. cbn [snd]. destruct (f_many (fd m f)) eqn:Hm; cbn [snd].
  - apply (WF_clear m W); assumption.
  - apply (WF_set_full m W); assumption.
Qed.

End ItemsWF.
