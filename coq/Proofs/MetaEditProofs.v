(* Facts about Model/MetaEdit.v: the mirror invariant (a class namespace holds
   nothing but what the class declares; the Python bases are the declared
   supertypes), its preservation by every edit, and what follows for attribute
   visibility and isinstance on instances. *)
From Coq Require Import String Ascii ZArith Bool List Lia Permutation.
From PyecoreV Require Import Lib.PyBase Lib.PyList Model.C3 Model.Operations Model.MetaEdit Proofs.PyListFacts Proofs.C3Proofs Proofs.OperationsProofs.
Import ListNotations.
Open Scope Z_scope.

(* ---------- lists with point update ---------- *)

Lemma set_at_length {A} n (x : A) l : length (set_at n x l) = length l.
Proof. revert n. induction l as [|y l IH]; intros [|n]; simpl; auto. Qed.

Lemma nth_error_set_at_same {A} n (x : A) l :
  (n < length l)%nat -> nth_error (set_at n x l) n = Some x.
Proof.
  revert n. induction l as [|y l IH]; intros [|n] H; simpl in *; try lia; [reflexivity|].
  apply IH. lia.
Qed.

Lemma nth_error_set_at_other {A} n m (x : A) l :
  n <> m -> nth_error (set_at n x l) m = nth_error l m.
Proof.
  revert n m. induction l as [|y l IH]; intros [|n] [|m] H; simpl; try reflexivity; try congruence.
  apply IH. congruence.
Qed.

Lemma Forall_set_at {A} (P : A -> Prop) n x l : Forall P l -> P x -> Forall P (set_at n x l).
Proof.
  revert n. induction l as [|y l IH]; intros [|n] H Hx; simpl; try constructor; inversion H; subst; auto.
Qed.

(* ---------- name-keyed association lists ---------- *)

Section Ns.
  Context {V : Type}.
  Implicit Types ns : list (name * V).

  Lemma ns_get_In n ns v : ns_get n ns = Some v -> In (n, v) ns.
  Proof.
    induction ns as [|[k x] r IH]; simpl; [discriminate|].
    destruct (name_eqb k n) eqn:E.
    - intros H. inversion H; subst. apply name_eqb_eq in E. subst. left. reflexivity.
    - intros H. right. apply IH. assumption.
  Qed.

  Lemma ns_get_None_keys n ns : ns_get n ns = None <-> ~ In n (map fst ns).
  Proof.
    induction ns as [|[k x] r IH]; simpl; [tauto|].
    destruct (name_eqb k n) eqn:E.
    - apply name_eqb_eq in E. subst. split; [discriminate|]. intros H. exfalso. apply H. left. reflexivity.
    - apply name_eqb_neq in E. rewrite IH. tauto.
  Qed.

  Lemma ns_get_set_same n v ns : ns_get n (ns_set n v ns) = Some v.
  Proof.
    induction ns as [|[k x] r IH]; simpl.
    - rewrite name_eqb_refl. reflexivity.
    - destruct (name_eqb k n) eqn:E; simpl; rewrite E; [reflexivity|assumption].
  Qed.

  Lemma ns_get_set_other n m v ns : n <> m -> ns_get m (ns_set n v ns) = ns_get m ns.
  Proof.
    intros N. induction ns as [|[k x] r IH]; simpl.
    - apply name_eqb_neq in N. rewrite N. reflexivity.
    - destruct (name_eqb k n) eqn:E; simpl.
      + apply name_eqb_eq in E. subst. apply name_eqb_neq in N. rewrite N. reflexivity.
      + destruct (name_eqb k m); [reflexivity|assumption].
  Qed.

  Lemma ns_set_keys n v ns :
    map fst (ns_set n v ns) = if nmem n (map fst ns) then map fst ns else map fst ns ++ [n].
  Proof.
    induction ns as [|[k x] r IH]; simpl; [reflexivity|].
    unfold nmem in *. simpl. rewrite (name_eqb_sym n k).
    destruct (name_eqb k n) eqn:E; simpl; [reflexivity|].
    rewrite IH. destruct (existsb (name_eqb n) (map fst r)); reflexivity.
  Qed.

  Lemma ns_set_NoDup n v ns : NoDup (map fst ns) -> NoDup (map fst (ns_set n v ns)).
  Proof.
    intros H. rewrite ns_set_keys. destruct (nmem n (map fst ns)) eqn:E; [assumption|].
    assert (N : ~ In n (map fst ns)).
    { intros Hin. apply nmem_In in Hin. congruence. }
    clear E. induction (map fst ns) as [|a l IH]; simpl.
    - constructor; [intros []|constructor].
    - inversion H; subst. constructor.
      + intros Hin. apply in_app_or in Hin. destruct Hin as [Hin|[Hin|[]]]; [tauto|].
        subst. apply N. left. reflexivity.
      + apply IH; [assumption|]. intros Hin. apply N. right. assumption.
  Qed.

  Lemma ns_del_None n ns : ns_del n ns = None <-> ns_get n ns = None.
  Proof.
    induction ns as [|[k x] r IH]; simpl; [tauto|].
    destruct (name_eqb k n); [split; discriminate|].
    destruct (ns_del n r); split; intros H; try discriminate; try reflexivity.
    - apply IH in H. discriminate.
    - apply IH. assumption.
  Qed.

  Lemma ns_del_spec n ns ns' :
    ns_del n ns = Some ns' -> NoDup (map fst ns) ->
    NoDup (map fst ns') /\ ns_get n ns' = None /\
    (forall m, m <> n -> ns_get m ns' = ns_get m ns) /\
    (forall m, In m (map fst ns') -> In m (map fst ns)).
  Proof.
    revert ns'. induction ns as [|[k x] r IH]; simpl; intros ns' H ND; [discriminate|].
    inversion ND as [|? ? Hk NDr]; subst.
    destruct (name_eqb k n) eqn:E.
    - inversion H; subst. apply name_eqb_eq in E. subst.
      split; [assumption|]. split; [apply ns_get_None_keys; assumption|]. split.
      + intros m Hm. destruct (name_eqb n m) eqn:E2; [|reflexivity].
        apply name_eqb_eq in E2. congruence.
      + intros m Hm. right. assumption.
    - destruct (ns_del n r) as [r'|] eqn:Ed; [|discriminate]. inversion H; subst.
      destruct (IH _ eq_refl NDr) as (I1 & I2 & I3 & I4). simpl. split.
      + constructor; [|assumption]. intros Hin. apply Hk. apply I4. assumption.
      + rewrite E. split; [assumption|]. split.
        * intros m Hm. destruct (name_eqb k m); [reflexivity|]. apply I3. assumption.
        * intros m [Hm|Hm]; [left; assumption|right; apply I4; assumption].
  Qed.
End Ns.

(* ---------- classes of a state ---------- *)

Lemma getc_pos st c k : getc st c = Some k -> 0 < c.
Proof. unfold getc. destruct (Z.leb_spec c 0); [discriminate|]. intros _. assumption. Qed.

Lemma getc_setc_same st c k k' : getc st c = Some k -> getc (setc st c k') c = Some k'.
Proof.
  intros H. pose proof (getc_pos _ _ _ H) as P. unfold getc, setc in *. simpl.
  destruct (Z.leb_spec c 0); [lia|]. apply nth_error_set_at_same.
  apply nth_error_Some. congruence.
Qed.

Lemma getc_setc_other st c d k' : 0 < c -> c <> d -> getc (setc st c k') d = getc st d.
Proof.
  intros P N. unfold getc, setc. simpl. destruct (Z.leb_spec d 0); [reflexivity|].
  apply nth_error_set_at_other. unfold idx. lia.
Qed.

(* two class records that differ at most in the cached linearisation and the
   subclass registry *)
Definition eqv (k k' : cls) : Prop :=
  c_feats k' = c_feats k /\ c_ops k' = c_ops k /\ c_supers k' = c_supers k /\
  c_ns k' = c_ns k /\ c_bases k' = c_bases k.

Lemma eqv_refl k : eqv k k.
Proof. repeat split. Qed.

Lemma eqv_trans k1 k2 k3 : eqv k1 k2 -> eqv k2 k3 -> eqv k1 k3.
Proof. unfold eqv. intuition congruence. Qed.

Definition orel (a b : option cls) : Prop :=
  match a, b with
  | Some k, Some k' => eqv k k'
  | None, None => True
  | _, _ => False
  end.

Definition steqv (st st' : state) : Prop := forall d, orel (getc st d) (getc st' d).

Lemma steqv_refl st : steqv st st.
Proof. intros d. unfold orel. destruct (getc st d); [apply eqv_refl|exact Logic.I]. Qed.

Lemma steqv_trans s1 s2 s3 : steqv s1 s2 -> steqv s2 s3 -> steqv s1 s3.
Proof.
  intros H1 H2 d. specialize (H1 d). specialize (H2 d). unfold orel in *.
  destruct (getc s1 d), (getc s2 d), (getc s3 d); try tauto. eapply eqv_trans; eauto.
Qed.

Lemma steqv_setc st c k k' : getc st c = Some k -> eqv k k' -> steqv st (setc st c k').
Proof.
  intros G E d. destruct (Z.eq_dec c d) as [X|X].
  - subst. rewrite (getc_setc_same _ _ _ _ G), G. exact E.
  - rewrite (getc_setc_other _ _ _ _ (getc_pos _ _ _ G) X). apply steqv_refl.
Qed.

Lemma steqv_upd_cls st c f : (forall k, eqv k (f k)) -> steqv st (upd_cls st c f).
Proof.
  intros H. unfold upd_cls. destruct (getc st c) as [k|] eqn:G; [|apply steqv_refl].
  eapply steqv_setc; eauto.
Qed.

Lemma steqv_flag st : steqv st (set_flag st).
Proof. intros d. change (getc (set_flag st) d) with (getc st d). apply steqv_refl. Qed.

Lemma fold_hier_steqv (h : state -> Z -> option state) :
  (forall s x s', h s x = Some s' -> steqv s s') ->
  forall subs s0 s', fold_left (fun acc d => obind acc (fun s => h s d)) subs (Some s0) = Some s' -> steqv s0 s'.
Proof.
  intros Hh. induction subs as [|d r IH]; intros s0 s' H; simpl in H.
  - inversion H; subst. apply steqv_refl.
  - destruct (h s0 d) as [s1|] eqn:E.
    + eapply steqv_trans; [eapply Hh; eauto|]. apply IH. assumption.
    + exfalso. clear -H. induction r as [|x r IH]; simpl in H; [discriminate|auto].
Qed.

Lemma hier_steqv fuel : forall st x st', hier fuel st x = Some st' -> steqv st st'.
Proof.
  induction fuel as [|f IH]; intros st x st' H; [discriminate|]. simpl in H.
  destruct (getc st x) as [k|] eqn:G; [|discriminate].
  destruct (linearize_cached st x (c_bases k)) as [l|]; [|discriminate].
  eapply steqv_trans; [|eapply fold_hier_steqv; [exact IH|exact H]].
  eapply steqv_setc; [eassumption|]. repeat split.
Qed.

Lemma fold_upd_steqv (f : Z -> cls -> cls) :
  (forall b k, eqv k (f b k)) ->
  forall l st, steqv st (fold_left (fun s b => upd_cls s b (f b)) l st).
Proof.
  intros H. induction l as [|b r IH]; intros st; simpl; [apply steqv_refl|].
  eapply steqv_trans; [|apply IH]. apply steqv_upd_cls. intros k. apply H.
Qed.

Lemma remove_sub_steqv c olds st : steqv st (remove_sub c olds st).
Proof. unfold remove_sub. apply (fold_upd_steqv (fun b k => with_subs _ k)). intros b k. repeat split. Qed.

Lemma add_sub_steqv c news st : steqv st (add_sub c news st).
Proof. unfold add_sub. apply (fold_upd_steqv (fun b k => with_subs _ k)). intros b k. repeat split. Qed.

Lemma assign_spec st c bs st' :
  assign st c bs = Some st' ->
  exists k, getc st c = Some k /\ steqv (setc st c (with_bases bs k)) st'.
Proof.
  unfold assign. destruct (getc st c) as [k|] eqn:G; [|discriminate].
  destruct (existsb _ bs); [discriminate|].
  destruct (hier (fuel_of st) (setc st c (with_bases bs k)) c) as [st2|] eqn:H; [|discriminate].
  intros E. inversion E; subst. exists k. split; [reflexivity|].
  eapply steqv_trans; [eapply hier_steqv; eauto|].
  eapply steqv_trans; [apply remove_sub_steqv|apply add_sub_steqv].
Qed.

Lemma assign_None_getc st c bs : getc st c = None -> assign st c bs = None.
Proof. unfold assign. intros ->. reflexivity. Qed.

(* ---------- the mirror invariant (soundness half) ---------- *)

Definition entry_ok (k : cls) (n : name) (e : entry) : Prop :=
  match e with
  | EFeat f => In f (c_feats k) /\ f_name f = n
  | EFun s => exists o, In o (c_ops k) /\ normalized_name (o_name o) = n /\
                        py_def (to_code (o_name o) (o_params o)) = inr s
  | EBeh _ => True
  end.

(* the Python bases are the declared supertypes (EObject aside), in some order *)
Definition bases_ok (bases supers : list Z) : Prop :=
  (forall b, In b bases -> b = 0 \/ In b supers) /\
  (forall s, In s supers -> s <> 0 -> In s bases).

Record cls_ok (k : cls) : Prop := {
  ok_keys : NoDup (map fst (c_ns k));
  ok_entries : forall n e, ns_get n (c_ns k) = Some e -> entry_ok k n e;
  ok_bases : bases_ok (c_bases k) (c_supers k)
}.

Definition Inv (st : state) : Prop := forall c k, getc st c = Some k -> cls_ok k.

Lemma cls_ok_eqv k k' : eqv k k' -> cls_ok k -> cls_ok k'.
Proof.
  intros (E1 & E2 & E3 & E4 & E5) [K1 K2 K3]. constructor.
  - rewrite E4. assumption.
  - rewrite E4. intros n e H. specialize (K2 n e H). destruct e; simpl in *; [rewrite E1|rewrite E2|]; assumption.
  - rewrite E3, E5. assumption.
Qed.

Lemma Inv_getc st c k : Inv st -> getc st c = Some k -> cls_ok k.
Proof. intros H G. eapply H; eauto. Qed.

Lemma Inv_steqv st st' : steqv st st' -> Inv st -> Inv st'.
Proof.
  intros E I c k' G. specialize (E c). rewrite G in E. unfold orel in E.
  destruct (getc st c) as [k|] eqn:G0; [|destruct E]. eapply cls_ok_eqv; eauto.
Qed.

Lemma Inv_setc st c k0 k : Inv st -> getc st c = Some k0 -> cls_ok k -> Inv (setc st c k).
Proof.
  intros H G K d kd Gd. destruct (Z.eq_dec c d) as [E|N].
  - subst. rewrite (getc_setc_same _ _ _ _ G) in Gd. inversion Gd; subst. assumption.
  - rewrite (getc_setc_other _ _ _ _ (getc_pos _ _ _ G) N) in Gd. eapply H; eauto.
Qed.

Lemma Inv_empty fl : Inv (empty_state fl).
Proof. intros c k G. unfold getc, empty_state in G. simpl in G. destruct (c <=? 0); [discriminate|]. destruct (idx c); discriminate. Qed.

(* ---------- supertypes ---------- *)

Lemma insert_desc_In key x l y : In y (insert_desc key x l) <-> y = x \/ In y l.
Proof.
  induction l as [|a l IH]; simpl; [intuition congruence|].
  destruct (Nat.leb (key a) (key x)); simpl; [intuition congruence|].
  rewrite IH. intuition congruence.
Qed.

Lemma sort_desc_In key l y : In y (sort_desc key l) <-> In y l.
Proof.
  induction l as [|a l IH]; simpl; [tauto|].
  rewrite insert_desc_In, IH. intuition congruence.
Qed.

Lemma remove_first_In (x : Z) l l' y : remove_first Z.eqb x l = Some l' -> In y l' -> In y l.
Proof.
  revert l'. induction l as [|a l IH]; simpl; intros l' H Hy; [discriminate|].
  destruct (a =? x).
  - inversion H; subst. right. assumption.
  - destruct (remove_first Z.eqb x l) as [r|]; [|discriminate]. inversion H; subst.
    destruct Hy as [Hy|Hy]; [left; assumption|right; eapply IH; eauto].
Qed.

Lemma remove_first_keeps (x : Z) l l' y : remove_first Z.eqb x l = Some l' -> In y l -> y <> x -> In y l'.
Proof.
  revert l'. induction l as [|a l IH]; simpl; intros l' H Hy N; [discriminate|].
  destruct (Z.eqb_spec a x).
  - inversion H; subst. destruct Hy as [Hy|Hy]; [congruence|assumption].
  - destruct (remove_first Z.eqb x l) as [r|]; [|discriminate]. inversion H; subst.
    destruct Hy as [Hy|Hy]; [left; assumption|right; eapply IH; eauto].
Qed.

Lemma compute_supertypes_ok supers : bases_ok (compute_supertypes supers) supers.
Proof.
  unfold compute_supertypes, bases_ok. destruct supers as [|s r]; [simpl; intuition|].
  destruct (Nat.ltb 1 (length (s :: r)) && zmem 0 (s :: r)); [|split; [right; assumption|intros; assumption]].
  destruct (remove_first Z.eqb 0 (s :: r)) as [l|] eqn:E; [|split; [right; assumption|intros; assumption]].
  split.
  - intros b H. right. eapply remove_first_In; eauto.
  - intros x H N. eapply remove_first_keeps; eauto.
Qed.

Lemma bases_ok_sorted key bs supers : bases_ok bs supers -> bases_ok (sort_desc key bs) supers.
Proof.
  intros [H1 H2]. split.
  - intros b Hb. apply sort_desc_In in Hb. auto.
  - intros x Hx N. apply sort_desc_In. auto.
Qed.

Lemma set_at_twice {A} (l : list A) : forall n (a b : A), set_at n a (set_at n b l) = set_at n a l.
Proof. induction l as [|y l IH]; intros [|n] a b; simpl; try reflexivity. f_equal. apply IH. Qed.

Lemma setc_twice st c k1 k2 : setc (setc st c k1) c k2 = setc st c k2.
Proof. unfold setc. simpl. rewrite set_at_twice. reflexivity. Qed.

Lemma update_supertypes_err st c st' e :
  update_supertypes st c = (st', Some e) -> e = XType.
Proof.
  unfold update_supertypes.
  repeat match goal with |- context [assign ?a ?b ?d] => destruct (assign a b d) end;
    intros H; inversion H; reflexivity.
Qed.

(* the outcome of update_supertypes: nothing (perhaps the flag), or the bases
   of c replaced by an arrangement of the computed supertypes *)
Lemma supers_fn_getc st c k : getc st c = Some k -> supers_fn st c = c_supers k.
Proof. intros G. unfold supers_fn. rewrite G. reflexivity. Qed.

Lemma update_supertypes_spec st c st' r :
  update_supertypes st c = (st', r) ->
  (r <> None /\ steqv st st') \/
  (r = None /\ exists k bs, getc st c = Some k /\ bases_ok bs (c_supers k) /\
                            steqv (setc st c (with_bases bs k)) st').
Proof.
  unfold update_supertypes. intros U.
  pose proof (compute_supertypes_ok (supers_fn st c)) as C1.
  destruct (assign st c (compute_supertypes (supers_fn st c))) as [s1|] eqn:A1.
  - inversion U; subst. right. split; [reflexivity|].
    destruct (assign_spec _ _ _ _ A1) as (k & G & E). exists k, (compute_supertypes (supers_fn st c)).
    rewrite <- (supers_fn_getc _ _ _ G). tauto.
  - match type of U with context [assign st c ?bs2] => destruct (assign st c bs2) as [s2|] eqn:A2 end.
    + inversion U; subst. right. split; [reflexivity|].
      destruct (assign_spec _ _ _ _ A2) as (k & G & E). eexists k, _. split; [exact G|]. split; [|exact E].
      apply bases_ok_sorted. rewrite <- (supers_fn_getc _ _ _ G). assumption.
    + match type of U with context [assign (set_flag st) c ?bs2] =>
        destruct (assign (set_flag st) c bs2) as [s3|] eqn:A3 end.
      * inversion U; subst. right. split; [reflexivity|].
        destruct (assign_spec _ _ _ _ A3) as (k & G & E).
        change (getc (set_flag st) c) with (getc st c) in G.
        eexists k, _. split; [exact G|]. split; [|exact E].
        apply bases_ok_sorted. rewrite <- (supers_fn_getc _ _ _ G). assumption.
      * inversion U; subst. left. split; [discriminate|apply steqv_flag].
Qed.

(* the supertypes change and the bases are recomputed at once: when
   update_supertypes succeeds the bases condition holds again, whatever the
   bases were before *)
Lemma Inv_supers_then_update st c ss st' :
  Inv st -> update_supertypes (set_supers st c ss) c = (st', None) -> Inv st'.
Proof.
  intros H U. destruct (update_supertypes_spec _ _ _ _ U) as [[N _]|(_ & k1 & bs & G1 & B & E)]; [congruence|].
  unfold set_supers in G1, E. destruct (getc st c) as [k|] eqn:G.
  - rewrite (getc_setc_same _ _ _ _ G) in G1. inversion G1; subst. rewrite setc_twice in E.
    eapply Inv_steqv; [exact E|]. eapply Inv_setc; eauto.
    destruct (Inv_getc _ _ _ H G) as [K1 K2 K3]. constructor; simpl; assumption.
  - congruence.
Qed.

Lemma nth_error_Some_lt {A} (l : list A) n x : nth_error l n = Some x -> (n < length l)%nat.
Proof. intros H. apply nth_error_Some. congruence. Qed.

(* ---------- every edit keeps the invariant ---------- *)

Lemma getc_classes_eq st st' d : classes st' = classes st -> getc st' d = getc st d.
Proof. intros E. unfold getc. rewrite E. reflexivity. Qed.

Lemma Inv_classes_eq st st' : classes st' = classes st -> Inv st -> Inv st'.
Proof. intros E I c k G. rewrite (getc_classes_eq _ _ _ E) in G. eapply I; eauto. Qed.

Lemma classes_set_slot st i n s : classes (set_slot st i n s) = classes st.
Proof. unfold set_slot. destruct (geti st i); reflexivity. Qed.

Lemma classes_getattr st i n : classes (fst (getattr_m st i n)) = classes st.
Proof.
  unfold getattr_m. destruct (geti st i) as [x|]; [|reflexivity].
  destruct (class_lookup st (i_cls x) n) as [[f|s|b]|]; destruct (ns_get n (i_dict x)) as [[? ?|? ?|?]|];
    simpl; try reflexivity; apply classes_set_slot.
Qed.

Lemma classes_setattr st i n v : classes (fst (setattr_m st i n v)) = classes st.
Proof.
  unfold setattr_m. destruct (geti st i) as [x|]; [|reflexivity].
  destruct (class_lookup st (i_cls x) n) as [[f|s|b]|]; simpl; try apply classes_set_slot.
  destruct (ns_get n (i_dict x)) as [sl|]; simpl.
  - destruct sl as [fs v0|fs vs|v0]; simpl; try reflexivity.
    destruct (conforms st (f_type fs) v); simpl; [apply classes_set_slot|reflexivity].
  - destruct (default_slot f) as [fs v0|fs vs|v0]; simpl; try apply classes_set_slot.
    destruct (conforms _ (f_type fs) v); simpl; repeat rewrite classes_set_slot; reflexivity.
Qed.

Lemma classes_append st i n v : classes (fst (append_m st i n v)) = classes st.
Proof.
  unfold append_m. pose proof (classes_getattr st i n) as G.
  destruct (getattr_m st i n) as [st1 g]. simpl in G.
  destruct (geti st1 i) as [x|]; [|assumption].
  destruct (ns_get n (i_dict x)) as [[? ?|f vs|?]|]; try assumption.
  destruct (conforms st1 (f_type f) v && negb ((v =? -1) && (0 <? f_type f))); simpl; [|assumption].
  rewrite classes_set_slot. assumption.
Qed.

Lemma remove_feat_keeps n fs fs' g :
  remove_feat n fs = Some fs' -> In g fs -> f_name g <> n -> In g fs'.
Proof.
  revert fs'. induction fs as [|f r IH]; simpl; intros fs' H Hg N; [discriminate|].
  destruct (name_eqb (f_name f) n) eqn:E.
  - inversion H; subst. destruct Hg as [Hg|Hg]; [|assumption].
    subst. apply name_eqb_eq in E. congruence.
  - destruct (remove_feat n r) as [r'|]; [|discriminate]. inversion H; subst.
    destruct Hg as [Hg|Hg]; [left; assumption|right; eapply IH; eauto].
Qed.

Lemma remove_oper_keeps n os os' g :
  remove_oper n os = Some os' -> In g os -> o_name g <> n -> In g os'.
Proof.
  revert os'. induction os as [|f r IH]; simpl; intros os' H Hg N; [discriminate|].
  destruct (name_eqb (o_name f) n) eqn:E.
  - inversion H; subst. destruct Hg as [Hg|Hg]; [|assumption].
    subst. apply name_eqb_eq in E. congruence.
  - destruct (remove_oper n r) as [r'|]; [|discriminate]. inversion H; subst.
    destruct Hg as [Hg|Hg]; [left; assumption|right; eapply IH; eauto].
Qed.

Lemma del_all_spec names : forall (ns ns' : list (name * entry)),
  del_all ns names = (ns', true) -> NoDup (map fst ns) ->
  NoDup (map fst ns') /\ (forall m, In m names -> ns_get m ns' = None) /\
  (forall m e, ns_get m ns' = Some e -> ns_get m ns = Some e).
Proof.
  induction names as [|n r IH]; simpl; intros ns ns' H ND.
  - inversion H; subst. split; [assumption|]. split; [intros m []|auto].
  - destruct (ns_del n ns) as [ns1|] eqn:D; [|discriminate].
    destruct (ns_del_spec _ _ _ D ND) as (D1 & D2 & D3 & D4).
    destruct (IH _ _ H D1) as (I1 & I2 & I3). split; [assumption|]. split.
    + intros m [Hm|Hm]; [|apply I2; assumption]. subst.
      destruct (ns_get m ns') as [e|] eqn:E; [|reflexivity]. apply I3 in E. congruence.
    + intros m e Hm. pose proof (I3 _ _ Hm) as H1.
      destruct (list_eq_dec Z.eq_dec m n) as [E|N]; [subst; congruence|].
      rewrite <- (D3 m N). assumption.
Qed.

Definition side_condition (o : op) (r : outcome) : Prop :=
  match o with
  | ClearFeats _ | ClearOps _ => r <> RErr XAttr     (* delattr stopped half-way *)
  | NewClass _ | AddSuper _ _ | RemoveSuper _ _ => r <> RErr XType   (* no linearisation even with the replacement *)
  | _ => True
  end.

Lemma h_name_to_code n ps : h_name (to_code n ps) = normalized_name n.
Proof. reflexivity. Qed.

Theorem step_preserves_Inv o st st' r :
  Inv st -> step o st = (st', r) -> side_condition o r -> Inv st'.
Proof.
  intros I S SC. destruct o; simpl in S.
  - (* NewClass *)
    unfold new_class in S.
    set (c := Z.of_nat (Datatypes.S (nclasses st))) in *.
    set (dummy := mkCls [] [] [] [] [] [c] []).
    set (st0 := mkState (classes st ++ [dummy]) (insts st) (flag st)).
    assert (X : idx c = length (classes st)) by (unfold idx, c, nclasses; lia).
    assert (G0 : getc st0 c = Some dummy).
    { unfold getc, st0. simpl classes. destruct (Z.leb_spec c 0); [unfold c in *; lia|].
      rewrite X. rewrite nth_error_app2 by lia. rewrite Nat.sub_diag. reflexivity. }
    assert (I0 : Inv st0).
    { intros d k G. destruct (Z.eq_dec d c) as [E|N].
      - subst d. rewrite G0 in G. inversion G; subst.
        constructor; simpl; [constructor|discriminate|]. split; [intros b []|intros s []].
      - unfold getc, st0 in G. simpl classes in G. destruct (Z.leb_spec d 0); [discriminate|].
        assert (L : (idx d < length (classes st))%nat).
        { apply nth_error_Some_lt in G. rewrite app_length in G. simpl in G. unfold idx in *. lia. }
        rewrite nth_error_app1 in G by assumption. apply (I d k). unfold getc.
        destruct (Z.leb_spec d 0); [lia|assumption]. }
    assert (E1 : mkState (classes st ++ [mkCls [] [] (zdedup supers) [] [] [c] []]) (insts st) (flag st)
                 = set_supers st0 c (zdedup supers)).
    { unfold set_supers. rewrite G0. unfold setc, st0.
      cbn [classes insts flag c_feats c_ops c_ns c_bases c_mro c_subs with_supers]. f_equal.
      rewrite X. generalize (classes st) as l. induction l as [|y l IH]; simpl; [reflexivity|].
      f_equal. assumption. }
    rewrite E1 in S.
    destruct (update_supertypes (set_supers st0 c (zdedup supers)) c) as [st2 e] eqn:U.
    destruct e as [e|].
    + inversion S; subst. exfalso. apply SC. rewrite (update_supertypes_err _ _ _ _ U). reflexivity.
    + inversion S; subst. eapply Inv_supers_then_update; eauto.
  - (* AddSuper *)
    destruct (getc st c) as [k|] eqn:G; [|inversion S; subst; assumption].
    match type of S with context [update_supertypes (set_supers st c ?ss) c] =>
      destruct (update_supertypes (set_supers st c ss) c) as [st2 e] eqn:U end.
    destruct e as [e|].
    + inversion S; subst. exfalso. apply SC. rewrite (update_supertypes_err _ _ _ _ U). reflexivity.
    + inversion S; subst. eapply Inv_supers_then_update; eauto.
  - (* RemoveSuper *)
    destruct (getc st c) as [k|] eqn:G; [|inversion S; subst; assumption].
    destruct (remove_first Z.eqb s (c_supers k)) as [ss|] eqn:R; [|inversion S; subst; assumption].
    destruct (update_supertypes (set_supers st c ss) c) as [st2 e] eqn:U.
    destruct e as [e|].
    + inversion S; subst. exfalso. apply SC. rewrite (update_supertypes_err _ _ _ _ U). reflexivity.
    + inversion S; subst. eapply Inv_supers_then_update; eauto.
  - (* AddFeat *)
    destruct (getc st c) as [k|] eqn:G; [|inversion S; subst; assumption].
    inversion S; subst. apply (Inv_setc _ _ k); [assumption|assumption|].
    destruct (Inv_getc _ _ _ I G) as [K1 K2 K3]. constructor; simpl.
    + apply ns_set_NoDup. assumption.
    + intros n e H. destruct (list_eq_dec Z.eq_dec (f_name f) n) as [E|N].
      * subst. rewrite ns_get_set_same in H. inversion H; subst. simpl.
        split; [apply in_or_app; right; left; reflexivity|reflexivity].
      * rewrite (ns_get_set_other _ _ _ _ N) in H. specialize (K2 _ _ H).
        destruct e; simpl in *; [|assumption|assumption].
        destruct K2. split; [apply in_or_app; left; assumption|assumption].
    + assumption.
  - (* RemoveFeat *)
    destruct (getc st c) as [k|] eqn:G; [|inversion S; subst; assumption].
    destruct (remove_feat n (c_feats k)) as [fs|] eqn:R; [|inversion S; subst; assumption].
    destruct (Inv_getc _ _ _ I G) as [K1 K2 K3].
    simpl in S. destruct (ns_del n (c_ns k)) as [ns'|] eqn:D; inversion S; subst; apply (Inv_setc _ _ k); try assumption.
    + destruct (ns_del_spec _ _ _ D K1) as (D1 & D2 & D3 & D4). constructor; simpl; [assumption| |assumption].
      intros m e H.
      destruct (list_eq_dec Z.eq_dec m n) as [E|N]; [subst; congruence|].
      rewrite (D3 m N) in H. specialize (K2 _ _ H). destruct e; simpl in *; [|assumption|assumption].
      destruct K2 as [K2a K2b]. split; [|assumption]. eapply remove_feat_keeps; eauto. congruence.
    + apply ns_del_None in D. constructor; simpl; [assumption| |assumption].
      intros m e H. specialize (K2 _ _ H). destruct e; simpl in *; [|assumption|assumption].
      destruct K2 as [K2a K2b]. split; [|assumption]. eapply remove_feat_keeps; eauto.
      intros E. subst. congruence.
  - (* ClearFeats *)
    destruct (getc st c) as [k|] eqn:G; [|inversion S; subst; assumption].
    destruct (Inv_getc _ _ _ I G) as [K1 K2 K3]. simpl in S.
    destruct (del_all (c_ns k) (map f_name (c_feats k))) as [ns' ok] eqn:D.
    inversion S; subst. destruct ok; [|exfalso; apply SC; reflexivity].
    destruct (del_all_spec _ _ _ D K1) as (D1 & D2 & D3).
    apply (Inv_setc _ _ k); [assumption|assumption|]. constructor; simpl; [assumption| |assumption].
    intros m e H. pose proof (K2 _ _ (D3 _ _ H)) as K. destruct e; simpl in *; [|assumption|assumption].
    destruct K as [Ka Kb]. subst. rewrite D2 in H; [discriminate|]. apply in_map. assumption.
  - (* AddOp *)
    unfold add_oper in S. destruct (getc st c) as [k|] eqn:G; [|inversion S; subst; assumption].
    destruct (Inv_getc _ _ _ I G) as [K1 K2 K3].
    set (k1 := with_ops (c_ops k ++ [o]) k) in *.
    assert (OK1 : cls_ok k1).
    { constructor; simpl; [assumption| |assumption]. intros m e H. specialize (K2 _ _ H).
      destruct e; simpl in *; [assumption| |assumption].
      destruct K2 as (o' & Ho & R). exists o'. split; [apply in_or_app; left; assumption|assumption]. }
    assert (G1 : getc (setc st c k1) c = Some k1) by (eapply getc_setc_same; eauto).
    destruct (py_def (to_code (o_name o) (o_params o))) as [[]|s] eqn:PD.
    + inversion S; subst. apply (Inv_setc _ _ k); assumption.
    + inversion S; subst. unfold upd_cls. rewrite G1. rewrite setc_twice.
      apply (Inv_setc _ _ k); [assumption|assumption|].
      destruct OK1 as [L1 L2 L3]. constructor; simpl; [apply ns_set_NoDup; assumption| |assumption].
      intros m e H.
      destruct (list_eq_dec Z.eq_dec (normalized_name (o_name o)) m) as [E|N].
      * subst. rewrite ns_get_set_same in H. inversion H; subst. simpl.
        exists o. split; [apply in_or_app; right; left; reflexivity|]. split; [reflexivity|assumption].
      * rewrite (ns_get_set_other _ _ _ _ N) in H. specialize (L2 _ _ H). destruct e; exact L2.
  - (* RemoveOp *)
    destruct (getc st c) as [k|] eqn:G; [|inversion S; subst; assumption].
    destruct (remove_oper n (c_ops k)) as [os|] eqn:R; [|inversion S; subst; assumption].
    destruct (Inv_getc _ _ _ I G) as [K1 K2 K3].
    simpl in S. destruct (ns_del (normalized_name n) (c_ns k)) as [ns'|] eqn:D; inversion S; subst;
      apply (Inv_setc _ _ k); try assumption.
    + destruct (ns_del_spec _ _ _ D K1) as (D1 & D2 & D3 & D4). constructor; simpl; [assumption| |assumption].
      intros m e H.
      destruct (list_eq_dec Z.eq_dec m (normalized_name n)) as [E|N]; [subst; congruence|].
      rewrite (D3 m N) in H. specialize (K2 _ _ H). destruct e; simpl in *; [assumption| |assumption].
      destruct K2 as (o' & Ho & R1 & R2). exists o'. split; [|tauto].
      eapply remove_oper_keeps; eauto. intros E. subst. congruence.
    + apply ns_del_None in D. constructor; simpl; [assumption| |assumption].
      intros m e H. specialize (K2 _ _ H). destruct e; simpl in *; [assumption| |assumption].
      destruct K2 as (o' & Ho & R1 & R2). exists o'. split; [|tauto].
      eapply remove_oper_keeps; eauto. intros E. subst. congruence.
  - (* ClearOps *)
    destruct (getc st c) as [k|] eqn:G; [|inversion S; subst; assumption].
    destruct (Inv_getc _ _ _ I G) as [K1 K2 K3]. simpl in S.
    destruct (del_all (c_ns k) (map (fun o => normalized_name (o_name o)) (c_ops k))) as [ns' ok] eqn:D.
    inversion S; subst. destruct ok; [|exfalso; apply SC; reflexivity].
    destruct (del_all_spec _ _ _ D K1) as (D1 & D2 & D3).
    apply (Inv_setc _ _ k); [assumption|assumption|]. constructor; simpl; [assumption| |assumption].
    intros m e H. pose proof (K2 _ _ (D3 _ _ H)) as K. destruct e; simpl in *; [assumption| |assumption].
    destruct K as (o' & Ho & R1 & R2). subst. rewrite D2 in H; [discriminate|].
    apply in_map_iff. exists o'. split; [reflexivity|assumption].
  - (* Attach *)
    destruct (getc st c) as [k|] eqn:G; [|inversion S; subst; assumption].
    inversion S; subst. apply (Inv_setc _ _ k); [assumption|assumption|].
    destruct (Inv_getc _ _ _ I G) as [K1 K2 K3]. constructor; simpl; [apply ns_set_NoDup; assumption| |assumption].
    intros m e H. destruct (list_eq_dec Z.eq_dec n m) as [E|N].
    + subst. rewrite ns_get_set_same in H. inversion H; subst. exact Logic.I.
    + rewrite (ns_get_set_other _ _ _ _ N) in H. specialize (K2 _ _ H). destruct e; simpl in *; assumption.
  - (* NewInst *)
    destruct (getc st c); inversion S; subst; assumption.
  - (* Get *)
    pose proof (classes_getattr st i n) as C. destruct (getattr_m st i n) as [st1 g]. simpl in C.
    apply (Inv_classes_eq st); [|assumption]. destruct g; inversion S; subst; assumption.
  - (* SetA *)
    pose proof (classes_setattr st i n v) as C. rewrite S in C. apply (Inv_classes_eq st); assumption.
  - (* Append *)
    pose proof (classes_append st i n v) as C. rewrite S in C. apply (Inv_classes_eq st); assumption.
  - (* Call *)
    pose proof (classes_getattr st i n) as C. destruct (getattr_m st i n) as [st1 g]. simpl in C.
    apply (Inv_classes_eq st); [|assumption]. destruct g; inversion S; subst; assumption.
  - (* Sig *)
    pose proof (classes_getattr st i n) as C. destruct (getattr_m st i n) as [st1 g]. simpl in C.
    apply (Inv_classes_eq st); [|assumption]. destruct g; inversion S; subst; assumption.
Qed.

(* ---------- histories ---------- *)

Fixpoint sides (ops : list op) (st : state) : Prop :=
  match ops with
  | [] => True
  | o :: r => side_condition o (snd (step o st)) /\ sides r (next st o)
  end.

Lemma history_Inv_from ops : forall st, Inv st -> sides ops st -> Inv (fold_left next ops st).
Proof.
  induction ops as [|o r IH]; intros st I Sd; simpl; [assumption|].
  destruct Sd as [S1 S2]. apply IH; [|assumption].
  unfold next. destruct (step o st) as [st' out] eqn:E. simpl in *.
  eapply step_preserves_Inv; eauto.
Qed.

Theorem history_Inv ops fl :
  sides ops (empty_state fl) -> Inv (fold_left next ops (empty_state fl)).
Proof. apply history_Inv_from. apply Inv_empty. Qed.

(* ---------- what a class lookup finds is declared ---------- *)

Definition declares_feat (st : state) (d : Z) (n : name) (f : feat) : Prop :=
  In f (feats_of st d) /\ f_name f = n.

Definition declares_op (st : state) (d : Z) (n : name) (s : argspec) : Prop :=
  exists o, In o (ops_of st d) /\ normalized_name (o_name o) = n /\
            py_def (to_code (o_name o) (o_params o)) = inr s.

(* c or a transitive supertype of c (metamodel side: eSuperTypes) *)
Definition in_closure (st : state) (c d : Z) : Prop := reach (supers_fn st) c d.

Lemma first_some_found {A B} (f : A -> option B) l y :
  first_some f l = Some y -> exists x, In x l /\ f x = Some y.
Proof.
  induction l as [|a l IH]; simpl; [discriminate|].
  destruct (f a) as [b|] eqn:E.
  - intros H. inversion H; subst. exists a. split; [left; reflexivity|assumption].
  - intros H. destruct (IH H) as (x & Hx & Ex). exists x. split; [right; assumption|assumption].
Qed.

Lemma first_some_None {A B} (f : A -> option B) l :
  first_some f l = None <-> forall x, In x l -> f x = None.
Proof.
  induction l as [|a l IH]; simpl; [tauto|].
  destruct (f a) as [b|] eqn:E.
  - split; [discriminate|]. intros H. rewrite <- E. apply H. left. reflexivity.
  - rewrite IH. split.
    + intros H x [Hx|Hx]; [subst; assumption|apply H; assumption].
    + intros H x Hx. apply H. right. assumption.
Qed.

Lemma bases_fn_zero st : bases_fn st 0 = [].
Proof. reflexivity. Qed.

Lemma reach_from_root g x : g 0 = [] -> reach g 0 x -> x = 0.
Proof. intros G H. inversion H; subst; [reflexivity|]. rewrite G in H0. destruct H0. Qed.

Lemma reach_bases_supers st c d :
  Inv st -> reach (bases_fn st) c d -> d <> 0 -> reach (supers_fn st) c d.
Proof.
  intros I H. induction H as [c|c b x Hb Hr IH]; intros N; [constructor|].
  unfold bases_fn in Hb. destruct (getc st c) as [k|] eqn:G; [|destruct Hb].
  destruct (ok_bases _ (Inv_getc _ _ _ I G)) as [B1 _].
  destruct (B1 b Hb) as [E|E].
  - subst. apply reach_from_root in Hr; [congruence|reflexivity].
  - eapply reach_step; [|apply IH; assumption]. unfold supers_fn. rewrite G. assumption.
Qed.

Lemma reach_supers_bases st c d :
  Inv st -> reach (supers_fn st) c d -> d <> 0 -> reach (bases_fn st) c d.
Proof.
  intros I H. induction H as [c|c b x Hb Hr IH]; intros N; [constructor|].
  unfold supers_fn in Hb. destruct (getc st c) as [k|] eqn:G; [|destruct Hb].
  destruct (ok_bases _ (Inv_getc _ _ _ I G)) as [_ B2].
  destruct (Z.eq_dec b 0) as [E|E].
  - subst. unfold supers_fn in Hr. apply reach_from_root in Hr; [congruence|reflexivity].
  - eapply reach_step; [|apply IH; assumption]. unfold bases_fn. rewrite G. apply B2; assumption.
Qed.

Lemma class_lookup_found st c n e :
  class_lookup st c n = Some e ->
  exists l d, mro st c = Some l /\ In d l /\ ns_get n (ns_of st d) = Some e.
Proof.
  unfold class_lookup. destruct (mro st c) as [l|]; [|discriminate].
  intros H. apply first_some_found in H. destruct H as (d & Hd & E). exists l, d. tauto.
Qed.

(* CPython keeps every cached linearisation equal to what a linearisation
   from scratch over the current bases would give (premise; the extracted
   model recomputes it in every explored state, see consistentb) *)
Definition consistent (st : state) : Prop :=
  forall c l, mro st c = Some l -> mro_spec st c = Some l.

Lemma mro_closure st c l :
  consistent st -> flag st = false -> mro st c = Some l -> forall x, In x l <-> reach (bases_fn st) c x.
Proof.
  intros Co F M. apply Co in M. unfold mro_spec in M. rewrite F in M. exact (mro_of_closure _ _ _ _ M).
Qed.

Theorem class_lookup_sound st c n e :
  Inv st -> consistent st -> flag st = false -> class_lookup st c n = Some e ->
  exists d, in_closure st c d /\
    match e with
    | EFeat f => declares_feat st d n f
    | EFun s => declares_op st d n s
    | EBeh _ => True
    end.
Proof.
  intros I Co F H. destruct (class_lookup_found _ _ _ _ H) as (l & d & M & Hd & E).
  apply (mro_closure _ _ _ Co F M) in Hd.
  unfold ns_of in E. destruct (getc st d) as [k|] eqn:G; [|discriminate].
  pose proof (getc_pos _ _ _ G) as P.
  exists d. split; [apply reach_bases_supers; [assumption|assumption|lia]|].
  pose proof (ok_entries _ (Inv_getc _ _ _ I G) _ _ E) as K.
  destruct e; simpl in K; [| |exact Logic.I].
  - unfold declares_feat, feats_of. rewrite G. assumption.
  - unfold declares_op, ops_of. rewrite G. assumption.
Qed.

(* ---------- visibility on an instance ---------- *)

Definition visible (st : state) (i : Z) (n : name) : Prop :=
  snd (getattr_m st i n) <> GAbsent.

Definition has_slot (st : state) (i : Z) (n : name) : Prop :=
  exists x s, geti st i = Some x /\ ns_get n (i_dict x) = Some s.

Lemma visible_cases st i n x :
  geti st i = Some x -> visible st i n ->
  (exists e, class_lookup st (i_cls x) n = Some e) \/ has_slot st i n.
Proof.
  intros G V. unfold visible, getattr_m in V. rewrite G in V.
  destruct (class_lookup st (i_cls x) n) as [e|] eqn:L; [left; eexists; reflexivity|].
  right. destruct (ns_get n (i_dict x)) as [s|] eqn:D.
  - exists x, s. tauto.
  - simpl in V. congruence.
Qed.

(* an instance shows nothing but what its class or a transitive supertype
   declares -- except for what its own dict still holds *)
Theorem visible_sound st i n x :
  Inv st -> consistent st -> flag st = false -> geti st i = Some x -> visible st i n ->
  (exists d, in_closure st (i_cls x) d /\
     ((exists f, declares_feat st d n f) \/ (exists s, declares_op st d n s) \/
      (exists b, ns_get n (ns_of st d) = Some (EBeh b))))
  \/ has_slot st i n.
Proof.
  intros I Co F G V. destruct (visible_cases _ _ _ _ G V) as [(e & L)|H]; [left|right; assumption].
  destruct (class_lookup_sound _ _ _ _ I Co F L) as (d & Hd & K).
  destruct e as [f|s|b].
  - exists d. split; [assumption|]. left. exists f. assumption.
  - exists d. split; [assumption|]. right. left. exists s. assumption.
  - destruct (class_lookup_found _ _ _ _ L) as (l & d' & M & Hd' & E).
    apply (mro_closure _ _ _ Co F M) in Hd'.
    assert (P : d' <> 0).
    { intros Z0. subst. unfold ns_of in E. simpl in E. discriminate. }
    exists d'. split; [apply reach_bases_supers; assumption|]. right. right. exists b. assumption.
Qed.

(* an instance that never touched the name sees it only if it is declared *)
Corollary untouched_sound st i n x :
  Inv st -> consistent st -> flag st = false -> geti st i = Some x -> ns_get n (i_dict x) = None ->
  visible st i n ->
  exists d, in_closure st (i_cls x) d /\
     ((exists f, declares_feat st d n f) \/ (exists s, declares_op st d n s) \/
      (exists b, ns_get n (ns_of st d) = Some (EBeh b))).
Proof.
  intros I Co F G D V. destruct (visible_sound _ _ _ _ I Co F G V) as [H|(x' & s & G' & D')]; [assumption|].
  rewrite G in G'. inversion G'; subst. congruence.
Qed.

(* ---------- isinstance ---------- *)

Theorem isinstance_closure st i c x l :
  Inv st -> consistent st -> flag st = false -> geti st i = Some x -> mro st (i_cls x) = Some l -> c <> 0 ->
  (isinstance_m st i c = true <-> in_closure st (i_cls x) c).
Proof.
  intros I Co F G M N. unfold isinstance_m. rewrite G, M. rewrite zmem_In.
  rewrite (mro_closure _ _ _ Co F M c).
  split; intros H; [apply reach_bases_supers|apply reach_supers_bases]; assumption.
Qed.

(* ---------- operations: the generated method is found below the declaring class ---------- *)

Lemma map_opt_ext {A B} (f f' : A -> option B) l :
  (forall x, In x l -> f x = f' x) -> map_opt f l = map_opt f' l.
Proof.
  induction l as [|a l IH]; intros H; simpl; [reflexivity|].
  rewrite (H a (or_introl eq_refl)). rewrite IH; [reflexivity|]. intros x Hx. apply H. right. assumption.
Qed.

Lemma all_bases_ext g g' : (forall x, g x = g' x) -> forall fuel c, all_bases g fuel c = all_bases g' fuel c.
Proof.
  intros E. induction fuel as [|f IH]; intros c; simpl; [reflexivity|].
  rewrite E. f_equal. apply flat_map_ext. assumption.
Qed.

Lemma mro_of_ext g g' alt : (forall x, g x = g' x) -> forall fuel c, mro_of g alt fuel c = mro_of g' alt fuel c.
Proof.
  intros E. induction fuel as [|f IH]; intros c; [reflexivity|].
  cbn [mro_of]. rewrite <- E. rewrite (map_opt_ext _ (mro_of g' alt f) (g c)) by (intros; apply IH).
  destruct (map_opt (mro_of g' alt f) (g c)); [|reflexivity].
  destruct (linearize c l (g c)); [reflexivity|].
  destruct alt; [|reflexivity]. f_equal. f_equal. f_equal. apply (all_bases_ext _ _ E (S f) c).
Qed.

(* a state that differs only in the namespace / declarations of class c *)
Definition same_shape (k k' : cls) : Prop := c_mro k' = c_mro k.

Lemma mro_setc st c k k' d :
  getc st c = Some k -> same_shape k k' -> mro (setc st c k') d = mro st d.
Proof.
  intros G Sh. unfold mro. destruct (d =? 0); [reflexivity|].
  destruct (Z.eq_dec c d) as [E|N].
  - subst. rewrite (getc_setc_same _ _ _ _ G), G. f_equal. assumption.
  - rewrite (getc_setc_other _ _ _ _ (getc_pos _ _ _ G) N). reflexivity.
Qed.

Lemma ns_of_setc_other st c k' d : 0 < c -> c <> d -> ns_of (setc st c k') d = ns_of st d.
Proof. intros P N. unfold ns_of. rewrite getc_setc_other by assumption. reflexivity. Qed.

Lemma ns_of_setc_same st c k k' : getc st c = Some k -> ns_of (setc st c k') c = c_ns k'.
Proof. intros G. unfold ns_of. rewrite (getc_setc_same _ _ _ _ G). reflexivity. Qed.

Lemma first_some_app {A B} (f : A -> option B) l1 l2 :
  (forall x, In x l1 -> f x = None) -> first_some f (l1 ++ l2) = first_some f l2.
Proof.
  induction l1 as [|a l IH]; intros H; simpl; [reflexivity|].
  rewrite (H a (or_introl eq_refl)). apply IH. intros x Hx. apply H. right. assumption.
Qed.

(* adding a well-formed operation to class c: every class whose linearisation
   reaches c before any other provider of the name finds the generated stub *)
Theorem add_op_lookup st st' r c o s d l1 l2 :
  step (AddOp c o) st = (st', r) -> getc st c <> None ->
  py_def (to_code (o_name o) (o_params o)) = inr s ->
  mro st d = Some (l1 ++ c :: l2) ->
  (forall x, In x l1 -> x <> c /\ ns_get (normalized_name (o_name o)) (ns_of st x) = None) ->
  r = ROk [] /\ mro st' d = Some (l1 ++ c :: l2) /\
  class_lookup st' d (normalized_name (o_name o)) = Some (EFun s).
Proof.
  intros S G PD M L. simpl in S. unfold add_oper in S.
  destruct (getc st c) as [k|] eqn:Gk; [|congruence]. rewrite PD in S.
  set (k1 := with_ops (c_ops k ++ [o]) k) in *.
  assert (G1 : getc (setc st c k1) c = Some k1) by (eapply getc_setc_same; eauto).
  unfold upd_cls in S. rewrite G1 in S. inversion S; subst. clear S.
  set (k2 := with_ns (ns_set (h_name (to_code (o_name o) (o_params o))) (EFun s) (c_ns k1)) k1).
  pose proof (getc_pos _ _ _ Gk) as P.
  assert (M' : mro (setc (setc st c k1) c k2) d = Some (l1 ++ c :: l2)).
  { rewrite (mro_setc _ _ k1 k2 _ G1) by reflexivity. rewrite (mro_setc _ _ k k1 _ Gk) by reflexivity. assumption. }
  split; [reflexivity|]. split; [assumption|].
  change (class_lookup (setc (setc st c k1) c k2) d (normalized_name (o_name o)) = Some (EFun s)).
  unfold class_lookup. rewrite M'. rewrite first_some_app.
  - simpl. rewrite (ns_of_setc_same _ _ _ _ G1). unfold k2. simpl c_ns.
    rewrite ns_get_set_same. reflexivity.
  - intros x Hx. destruct (L x Hx) as [N E].
    rewrite ns_of_setc_other by (try assumption; congruence).
    rewrite ns_of_setc_other by (try assumption; congruence). assumption.
Qed.

(* removing the operation: no class that got the method only from c finds it any more *)
Theorem remove_op_lookup st st' c n d l :
  Inv st -> step (RemoveOp c n) st = (st', ROk []) ->
  mro st d = Some l ->
  (forall x, In x l -> x <> c -> ns_get (normalized_name n) (ns_of st x) = None) ->
  mro st' d = Some l /\ class_lookup st' d (normalized_name n) = None.
Proof.
  intros I S M L. simpl in S.
  destruct (getc st c) as [k|] eqn:G; [|discriminate].
  destruct (remove_oper n (c_ops k)) as [os|] eqn:R; [|discriminate].
  simpl in S. destruct (ns_del (normalized_name n) (c_ns k)) as [ns'|] eqn:D; [|discriminate].
  inversion S; subst. clear S.
  pose proof (getc_pos _ _ _ G) as P.
  destruct (ns_del_spec _ _ _ D (ok_keys _ (Inv_getc _ _ _ I G))) as (_ & D2 & _ & _).
  assert (M' : mro (setc st c (with_ns ns' (with_ops os k))) d = Some l).
  { rewrite (mro_setc _ _ k _ _ G) by reflexivity. assumption. }
  split; [assumption|]. unfold class_lookup. rewrite M'. apply first_some_None.
  intros x Hx. destruct (Z.eq_dec x c) as [E|N].
  - subst. rewrite (ns_of_setc_same _ _ _ _ G). assumption.
  - rewrite ns_of_setc_other by (try assumption; congruence). apply L; assumption.
Qed.

(* from the class to the instance *)
Lemma getattr_finds_fun st i n x s :
  geti st i = Some x -> ns_get n (i_dict x) = None ->
  class_lookup st (i_cls x) n = Some (EFun s) -> getattr_m st i n = (st, GFun s).
Proof. intros G D L. unfold getattr_m. rewrite G, L, D. reflexivity. Qed.

Lemma getattr_finds_nothing st i n x :
  geti st i = Some x -> ns_get n (i_dict x) = None ->
  class_lookup st (i_cls x) n = None -> getattr_m st i n = (st, GAbsent).
Proof. intros G D L. unfold getattr_m. rewrite G, L, D. reflexivity. Qed.

(* the generated stub: its signature is the declared one, and calling it with
   an acceptable number of arguments raises NotImplementedError *)
Theorem stub_behaviour st i n s k :
  getattr_m st i n = (st, GFun s) ->
  step (Sig i n) st = (st, ROk (0 :: enc_view (bound_signature s))) /\
  (accepts s (Z.to_nat k) = true -> step (Call i n k) st = (st, RErr XNotImpl)) /\
  (accepts s (Z.to_nat k) = false -> step (Call i n k) st = (st, RErr XType)).
Proof.
  intros H. simpl. rewrite H. split; [reflexivity|]. split; intros ->; reflexivity.
Qed.

Theorem absent_behaviour st i n k :
  getattr_m st i n = (st, GAbsent) ->
  step (Sig i n) st = (st, RErr XAttr) /\ step (Call i n k) st = (st, RErr XAttr).
Proof. intros H. simpl. rewrite H. split; reflexivity. Qed.

(* how many positional arguments the stub of a declaration takes *)
Lemma accepts_declared n ps s k :
  no_self ps -> py_def (to_code n ps) = inr s ->
  (accepts s k = true <->
   (length (filter p_required ps) <= k <= length ps)%nat).
Proof.
  intros NS H. pose proof H as H0. apply py_def_inv in H. destruct H as [W E].
  unfold to_code in *. simpl h_params in *. rewrite (sig_of_no_self _ NS) in *. subst s.
  unfold accepts. rewrite nreq_spec. cbn [a_args]. simpl length. rewrite map_length, map_length.
  simpl nreqs.
  assert (N : nreqs (map param_to_code ps) = length (filter p_required ps)).
  { clear. induction ps as [|p r IH]; simpl; [reflexivity|].
    unfold param_to_code at 1. destruct (p_required p); simpl; rewrite IH; reflexivity. }
  rewrite N. rewrite andb_true_iff, !Nat.leb_le. lia.
Qed.

(* ---------- the other half: what is declared is in the namespace ---------- *)

Definition op_key (o : oper) : name := normalized_name (o_name o).

Definition declared_names (k : cls) : list name :=
  map f_name (c_feats k) ++ map op_key (c_ops k).

Record cls_full (k : cls) : Prop := {
  full_uniq : NoDup (declared_names k);
  full_feats : forall f, In f (c_feats k) -> ns_get (f_name f) (c_ns k) = Some (EFeat f);
  full_ops : forall o s, In o (c_ops k) -> py_def (to_code (o_name o) (o_params o)) = inr s ->
               ns_get (op_key o) (c_ns k) = Some (EFun s) \/ exists b, ns_get (op_key o) (c_ns k) = Some (EBeh b)
}.

Definition Full (st : state) : Prop := forall c k, getc st c = Some k -> cls_full k.

(* well-formed edits: one declaration per name and class (Ecore), behaviours
   are not attached under the name of a feature of the class *)
Definition wf_op (st : state) (o : op) : Prop :=
  match o with
  | AddFeat c f => forall k, getc st c = Some k -> ~ In (f_name f) (declared_names k)
  | AddOp c o => forall k, getc st c = Some k -> ~ In (op_key o) (declared_names k)
  | Attach c n _ => forall k, getc st c = Some k -> ~ In n (map f_name (c_feats k))
  | _ => True
  end.

Lemma Full_getc st c k : Full st -> getc st c = Some k -> cls_full k.
Proof. intros H G. eapply H; eauto. Qed.

Lemma Full_setc st c k0 k : Full st -> getc st c = Some k0 -> cls_full k -> Full (setc st c k).
Proof.
  intros H G K d kd Gd. destruct (Z.eq_dec c d) as [E|N].
  - subst. rewrite (getc_setc_same _ _ _ _ G) in Gd. inversion Gd; subst. assumption.
  - rewrite (getc_setc_other _ _ _ _ (getc_pos _ _ _ G) N) in Gd. eapply H; eauto.
Qed.

Lemma cls_full_shape k k' :
  c_feats k' = c_feats k -> c_ops k' = c_ops k -> c_ns k' = c_ns k -> cls_full k -> cls_full k'.
Proof.
  intros E1 E2 E3 [F1 F2 F3]. constructor.
  - unfold declared_names. rewrite E1, E2. exact F1.
  - rewrite E1, E3. exact F2.
  - rewrite E2, E3. exact F3.
Qed.

Lemma Full_steqv st st' : steqv st st' -> Full st -> Full st'.
Proof.
  intros E I c k' G. specialize (E c). rewrite G in E. unfold orel in E.
  destruct (getc st c) as [k|] eqn:G0; [|destruct E].
  destruct E as (E1 & E2 & _ & E4 & _). eapply cls_full_shape; eauto.
Qed.

Lemma Full_set_supers st c ss : Full st -> Full (set_supers st c ss).
Proof.
  intros H. unfold set_supers. destruct (getc st c) as [k|] eqn:G; [|assumption].
  apply (Full_setc _ _ k); [assumption|assumption|].
  eapply cls_full_shape; [| | |eapply Full_getc; eauto]; reflexivity.
Qed.

Lemma Full_update_supertypes st c st' r : Full st -> update_supertypes st c = (st', r) -> Full st'.
Proof.
  intros H U. destruct (update_supertypes_spec _ _ _ _ U) as [[_ E]|(_ & k & bs & G & _ & E)].
  - eapply Full_steqv; eauto.
  - eapply Full_steqv; [exact E|]. apply (Full_setc _ _ k); [assumption|assumption|].
    eapply cls_full_shape; [| | |eapply Full_getc; eauto]; reflexivity.
Qed.

Lemma Full_classes_eq st st' : classes st' = classes st -> Full st -> Full st'.
Proof. intros E I c k G. rewrite (getc_classes_eq _ _ _ E) in G. eapply I; eauto. Qed.

Lemma getc_app_last st kx is_ fl d k :
  getc (mkState (classes st ++ [kx]) is_ fl) d = Some k -> getc st d = Some k \/ k = kx.
Proof.
  unfold getc. simpl classes. destruct (Z.leb_spec d 0); [discriminate|]. intros G.
  destruct (Nat.lt_ge_cases (idx d) (length (classes st))) as [L|L].
  - rewrite nth_error_app1 in G by assumption. left. assumption.
  - rewrite nth_error_app2 in G by assumption.
    destruct (idx d - length (classes st))%nat as [|m]; simpl in G.
    + inversion G. right. reflexivity.
    + destruct m; discriminate.
Qed.

Lemma remove_feat_split n fs fs' :
  remove_feat n fs = Some fs' -> exists l1 f l2, fs = l1 ++ f :: l2 /\ fs' = l1 ++ l2 /\ f_name f = n.
Proof.
  revert fs'. induction fs as [|f r IH]; simpl; intros fs' H; [discriminate|].
  destruct (name_eqb (f_name f) n) eqn:E.
  - inversion H; subst. exists [], f, fs'. apply name_eqb_eq in E. tauto.
  - destruct (remove_feat n r) as [r'|]; [|discriminate]. inversion H; subst.
    destruct (IH _ eq_refl) as (l1 & g & l2 & E1 & E2 & E3). subst.
    exists (f :: l1), g, l2. tauto.
Qed.

Lemma remove_oper_split n os os' :
  remove_oper n os = Some os' -> exists l1 o l2, os = l1 ++ o :: l2 /\ os' = l1 ++ l2 /\ o_name o = n.
Proof.
  revert os'. induction os as [|f r IH]; simpl; intros os' H; [discriminate|].
  destruct (name_eqb (o_name f) n) eqn:E.
  - inversion H; subst. exists [], f, os'. apply name_eqb_eq in E. tauto.
  - destruct (remove_oper n r) as [r'|]; [|discriminate]. inversion H; subst.
    destruct (IH _ eq_refl) as (l1 & g & l2 & E1 & E2 & E3). subst.
    exists (f :: l1), g, l2. tauto.
Qed.

Lemma del_all_others names : forall (ns ns' : list (name * entry)) ok,
  del_all ns names = (ns', ok) -> NoDup (map fst ns) ->
  forall m, ~ In m names -> ns_get m ns' = ns_get m ns.
Proof.
  induction names as [|n r IH]; simpl; intros ns ns' ok H ND m Hm.
  - inversion H; subst. reflexivity.
  - destruct (ns_del n ns) as [ns1|] eqn:D.
    + destruct (ns_del_spec _ _ _ D ND) as (D1 & D2 & D3 & D4).
      rewrite (IH _ _ _ H D1 m) by tauto. apply D3. intros E. apply Hm. left. congruence.
    + inversion H; subst. reflexivity.
Qed.

Lemma NoDup_app_l {A} (l1 l2 : list A) : NoDup (l1 ++ l2) -> NoDup l1.
Proof.
  induction l1 as [|a l IH]; simpl; intros H; [constructor|].
  inversion H as [|? ? Hn Hr]; subst. constructor; [|auto].
  intros X. apply Hn. apply in_or_app. left. assumption.
Qed.

Lemma NoDup_app_r {A} (l1 l2 : list A) : NoDup (l1 ++ l2) -> NoDup l2.
Proof.
  induction l1 as [|a l IH]; simpl; intros H; [assumption|].
  inversion H as [|? ? Hn Hr]; subst. auto.
Qed.

Lemma NoDup_app_disjoint {A} (l1 l2 : list A) x : NoDup (l1 ++ l2) -> In x l1 -> In x l2 -> False.
Proof.
  induction l1 as [|a l IH]; simpl; intros H H1 H2; [destruct H1|].
  inversion H as [|? ? Hn Hr]; subst.
  destruct H1 as [E|H1]; [subst; apply Hn; apply in_or_app; right; assumption|eauto].
Qed.

Theorem step_preserves_Full o st st' r :
  Inv st -> Full st -> wf_op st o -> step o st = (st', r) -> side_condition o r -> Full st'.
Proof.
  intros I Fu WF St SC. destruct o; simpl in St.
  - (* NewClass *)
    unfold new_class in St.
    match type of St with context [update_supertypes ?s1 ?c1] =>
      destruct (update_supertypes s1 c1) as [st2 e] eqn:U; assert (F1 : Full s1) end.
    { intros d k G. apply getc_app_last in G. destruct G as [G|G]; [eapply Fu; eauto|].
      subst. constructor; simpl; [constructor|intros f []|intros o s []]. }
    pose proof (Full_update_supertypes _ _ _ _ F1 U). destruct e; inversion St; subst; assumption.
  - (* AddSuper *)
    destruct (getc st c) as [k|] eqn:G; [|inversion St; subst; assumption].
    match type of St with context [update_supertypes ?s1 ?c1] =>
      destruct (update_supertypes s1 c1) as [st2 e] eqn:U; assert (F1 : Full s1) by (apply Full_set_supers; assumption) end.
    pose proof (Full_update_supertypes _ _ _ _ F1 U). destruct e; inversion St; subst; assumption.
  - (* RemoveSuper *)
    destruct (getc st c) as [k|] eqn:G; [|inversion St; subst; assumption].
    destruct (remove_first Z.eqb s (c_supers k)) as [ss|]; [|inversion St; subst; assumption].
    match type of St with context [update_supertypes ?s1 ?c1] =>
      destruct (update_supertypes s1 c1) as [st2 e] eqn:U; assert (F1 : Full s1) by (apply Full_set_supers; assumption) end.
    pose proof (Full_update_supertypes _ _ _ _ F1 U). destruct e; inversion St; subst; assumption.
  - (* AddFeat *)
    destruct (getc st c) as [k|] eqn:G; [|inversion St; subst; assumption].
    inversion St; subst. apply (Full_setc _ _ k); [assumption|assumption|].
    specialize (WF k G). destruct (Full_getc _ _ _ Fu G) as [F1 F2 F3].
    assert (Nf : forall g, In g (c_feats k) -> f_name f <> f_name g).
    { intros g Hg E. apply WF. unfold declared_names. apply in_or_app. left. rewrite E. apply in_map. assumption. }
    assert (No : forall o, In o (c_ops k) -> f_name f <> op_key o).
    { intros o Ho E. apply WF. unfold declared_names. apply in_or_app. right. rewrite E. apply in_map. assumption. }
    constructor; simpl.
    + unfold declared_names in *. simpl. rewrite map_app. simpl. rewrite <- app_assoc. simpl.
      eapply Permutation_NoDup; [apply Permutation_middle|]. constructor; assumption.
    + intros g Hg. apply in_app_or in Hg. destruct Hg as [Hg|[Hg|[]]].
      * rewrite ns_get_set_other by (apply Nf; assumption). apply F2. assumption.
      * subst. apply ns_get_set_same.
    + intros o s Ho PD. rewrite ns_get_set_other by (apply No; assumption). apply F3; assumption.
  - (* RemoveFeat *)
    destruct (getc st c) as [k|] eqn:G; [|inversion St; subst; assumption].
    destruct (remove_feat n (c_feats k)) as [fs|] eqn:R; [|inversion St; subst; assumption].
    destruct (Full_getc _ _ _ Fu G) as [F1 F2 F3].
    destruct (remove_feat_split _ _ _ R) as (l1 & f0 & l2 & E1 & E2 & E3).
    assert (F0 : ns_get n (c_ns k) = Some (EFeat f0)).
    { rewrite <- E3. apply F2. rewrite E1. apply in_or_app. right. left. reflexivity. }
    simpl in St. destruct (ns_del n (c_ns k)) as [ns'|] eqn:D.
    2:{ apply ns_del_None in D. congruence. }
    inversion St; subst. apply (Full_setc _ _ k); [assumption|assumption|].
    destruct (ns_del_spec _ _ _ D (ok_keys _ (Inv_getc _ _ _ I G))) as (D1 & D2 & D3 & D4).
    unfold declared_names in F1. rewrite E1 in F1. rewrite map_app in F1. simpl in F1. rewrite <- app_assoc in F1. simpl in F1.
    pose proof (NoDup_remove_1 _ _ _ F1) as U1. pose proof (NoDup_remove_2 _ _ _ F1) as U2.
    constructor; simpl.
    + unfold declared_names. simpl. rewrite map_app, <- app_assoc. assumption.
    + intros g Hg. rewrite D3.
      * apply F2. rewrite E1. apply in_app_or in Hg. apply in_or_app. destruct Hg; [left|right; right]; assumption.
      * intros E. apply U2. rewrite <- E. apply in_app_or in Hg. apply in_or_app.
        destruct Hg as [Hg|Hg]; [left; apply in_map; assumption|right; apply in_or_app; left; apply in_map; assumption].
    + intros o s Ho PD. rewrite D3; [apply F3; assumption|].
      intros E. apply U2. rewrite <- E. apply in_or_app. right. apply in_or_app. right. apply in_map. assumption.
  - (* ClearFeats *)
    destruct (getc st c) as [k|] eqn:G; [|inversion St; subst; assumption].
    destruct (Full_getc _ _ _ Fu G) as [F1 F2 F3]. simpl in St.
    destruct (del_all (c_ns k) (map f_name (c_feats k))) as [ns' ok] eqn:D.
    inversion St; subst. apply (Full_setc _ _ k); [assumption|assumption|].
    pose proof (del_all_others _ _ _ _ D (ok_keys _ (Inv_getc _ _ _ I G))) as O.
    constructor; simpl.
    + unfold declared_names in *. simpl. eapply NoDup_app_r; eauto.
    + intros f [].
    + intros o s Ho PD. rewrite O; [apply F3; assumption|].
      intros Hin. eapply (NoDup_app_disjoint _ _ (op_key o) F1); [assumption|apply in_map; assumption].
  - (* AddOp *)
    unfold add_oper in St. destruct (getc st c) as [k|] eqn:G; [|inversion St; subst; assumption].
    specialize (WF k G). destruct (Full_getc _ _ _ Fu G) as [F1 F2 F3].
    assert (Nf : forall g, In g (c_feats k) -> op_key o <> f_name g).
    { intros g Hg E. apply WF. unfold declared_names. apply in_or_app. left. rewrite E. apply in_map. assumption. }
    assert (No : forall o', In o' (c_ops k) -> op_key o <> op_key o').
    { intros o' Ho E. apply WF. unfold declared_names. apply in_or_app. right. rewrite E. apply in_map. assumption. }
    set (k1 := with_ops (c_ops k ++ [o]) k) in *.
    assert (U1 : NoDup (declared_names k1)).
    { unfold declared_names, k1. simpl. rewrite map_app. simpl. rewrite app_assoc.
      eapply Permutation_NoDup; [apply Permutation_cons_append|]. constructor; assumption. }
    assert (G1 : getc (setc st c k1) c = Some k1) by (eapply getc_setc_same; eauto).
    destruct (py_def (to_code (o_name o) (o_params o))) as [[]|s] eqn:PD.
    + inversion St; subst. apply (Full_setc _ _ k); [assumption|assumption|]. constructor; simpl; [assumption|assumption|].
      intros o' s' Ho PD'. apply in_app_or in Ho. destruct Ho as [Ho|[Ho|[]]]; [apply F3; assumption|].
      subst. congruence.
    + inversion St; subst. unfold upd_cls. rewrite G1. rewrite setc_twice. apply (Full_setc _ _ k); [assumption|assumption|].
      constructor; simpl; [assumption| |].
      * intros g Hg. rewrite ns_get_set_other by (apply Nf; assumption). apply F2. assumption.
      * intros o' s' Ho PD'. apply in_app_or in Ho. destruct Ho as [Ho|[Ho|[]]].
        -- rewrite ns_get_set_other by (apply No; assumption). apply F3; assumption.
        -- subst. left. rewrite PD in PD'. inversion PD'; subst. apply ns_get_set_same.
  - (* RemoveOp *)
    destruct (getc st c) as [k|] eqn:G; [|inversion St; subst; assumption].
    destruct (remove_oper n (c_ops k)) as [os|] eqn:R; [|inversion St; subst; assumption].
    destruct (Full_getc _ _ _ Fu G) as [F1 F2 F3].
    destruct (remove_oper_split _ _ _ R) as (l1 & o0 & l2 & E1 & E2 & E3).
    unfold declared_names in F1. rewrite E1 in F1. rewrite map_app in F1. simpl in F1. rewrite app_assoc in F1.
    pose proof (NoDup_remove_1 _ _ _ F1) as U1. pose proof (NoDup_remove_2 _ _ _ F1) as U2.
    assert (K0 : op_key o0 = normalized_name n) by (unfold op_key; rewrite E3; reflexivity).
    assert (U : NoDup (declared_names (with_ops os k))).
    { unfold declared_names. simpl. rewrite E2, map_app, app_assoc. assumption. }
    assert (Nf : forall g, In g (c_feats k) -> f_name g <> normalized_name n).
    { intros g Hg E. apply U2. rewrite K0, <- E. apply in_or_app. left. apply in_or_app. left. apply in_map. assumption. }
    assert (No : forall o, In o os -> op_key o <> normalized_name n).
    { intros o Ho E. apply U2. rewrite K0, <- E. rewrite E2 in Ho. apply in_app_or in Ho.
      destruct Ho as [Ho|Ho]; [apply in_or_app; left; apply in_or_app; right; apply in_map; assumption|
                               apply in_or_app; right; apply in_map; assumption]. }
    assert (Sub : forall o, In o os -> In o (c_ops k)).
    { intros o Ho. rewrite E1. rewrite E2 in Ho. apply in_app_or in Ho. apply in_or_app. destruct Ho; [left|right; right]; assumption. }
    simpl in St. destruct (ns_del (normalized_name n) (c_ns k)) as [ns'|] eqn:D; inversion St; subst;
      (apply (Full_setc _ _ k); [assumption|assumption|]).
    + destruct (ns_del_spec _ _ _ D (ok_keys _ (Inv_getc _ _ _ I G))) as (D1 & D2 & D3 & D4).
      constructor; simpl; [exact U| |].
      * intros g Hg. rewrite D3 by (apply Nf; assumption). apply F2. assumption.
      * intros o s Ho PD. rewrite D3 by (apply No; assumption). apply F3; [apply Sub; assumption|assumption].
    + constructor; simpl; [exact U|assumption|]. intros o s Ho PD. apply F3; [apply Sub; assumption|assumption].
  - (* ClearOps *)
    destruct (getc st c) as [k|] eqn:G; [|inversion St; subst; assumption].
    destruct (Full_getc _ _ _ Fu G) as [F1 F2 F3]. simpl in St.
    destruct (del_all (c_ns k) (map (fun o => normalized_name (o_name o)) (c_ops k))) as [ns' ok] eqn:D.
    inversion St; subst. apply (Full_setc _ _ k); [assumption|assumption|].
    pose proof (del_all_others _ _ _ _ D (ok_keys _ (Inv_getc _ _ _ I G))) as O.
    constructor; simpl.
    + unfold declared_names in *. simpl. rewrite app_nil_r. eapply NoDup_app_l; eauto.
    + intros f Hf. rewrite O; [apply F2; assumption|].
      intros Hin. eapply (NoDup_app_disjoint _ _ (f_name f) F1); [apply in_map; assumption|exact Hin].
    + intros o s [].
  - (* Attach *)
    destruct (getc st c) as [k|] eqn:G; [|inversion St; subst; assumption].
    inversion St; subst. apply (Full_setc _ _ k); [assumption|assumption|].
    specialize (WF k G). destruct (Full_getc _ _ _ Fu G) as [F1 F2 F3].
    constructor; simpl; [assumption| |].
    + intros f Hf. rewrite ns_get_set_other; [apply F2; assumption|].
      intros E. apply WF. rewrite E. apply in_map. assumption.
    + intros o s Ho PD. destruct (list_eq_dec Z.eq_dec n (op_key o)) as [E|N].
      * right. exists b. rewrite E. apply ns_get_set_same.
      * rewrite ns_get_set_other by assumption. apply F3; assumption.
  - (* NewInst *)
    destruct (getc st c); inversion St; subst; assumption.
  - (* Get *)
    pose proof (classes_getattr st i n) as C. destruct (getattr_m st i n) as [st1 g]. simpl in C.
    apply (Full_classes_eq st); [|assumption]. destruct g; inversion St; subst; assumption.
  - (* SetA *)
    pose proof (classes_setattr st i n v) as C. rewrite St in C. apply (Full_classes_eq st); assumption.
  - (* Append *)
    pose proof (classes_append st i n v) as C. rewrite St in C. apply (Full_classes_eq st); assumption.
  - (* Call *)
    pose proof (classes_getattr st i n) as C. destruct (getattr_m st i n) as [st1 g]. simpl in C.
    apply (Full_classes_eq st); [|assumption]. destruct g; inversion St; subst; assumption.
  - (* Sig *)
    pose proof (classes_getattr st i n) as C. destruct (getattr_m st i n) as [st1 g]. simpl in C.
    apply (Full_classes_eq st); [|assumption]. destruct g; inversion St; subst; assumption.
Qed.

Lemma Full_empty fl : Full (empty_state fl).
Proof. intros c k G. unfold getc, empty_state in G. simpl in G. destruct (c <=? 0); [discriminate|]. destruct (idx c); discriminate. Qed.

Fixpoint wf_history (ops : list op) (st : state) : Prop :=
  match ops with
  | [] => True
  | o :: r => wf_op st o /\ side_condition o (snd (step o st)) /\ wf_history r (next st o)
  end.

Lemma wf_history_sides ops : forall st, wf_history ops st -> sides ops st.
Proof. induction ops as [|o r IH]; simpl; intros st H; [exact Logic.I|]. destruct H as (_ & H1 & H2). auto. Qed.

Theorem history_Inv_Full ops : forall st,
  Inv st -> Full st -> wf_history ops st ->
  Inv (fold_left next ops st) /\ Full (fold_left next ops st).
Proof.
  induction ops as [|o r IH]; intros st I Fu W; simpl; [tauto|].
  destruct W as (W1 & W2 & W3). unfold next in *.
  destruct (step o st) as [st' out] eqn:E. simpl in *.
  apply IH; [eapply step_preserves_Inv; eauto|eapply step_preserves_Full; eauto|assumption].
Qed.

(* ---------- what is declared is visible ---------- *)

Lemma first_some_exists {A B} (f : A -> option B) l x y :
  In x l -> f x = Some y -> exists y', first_some f l = Some y'.
Proof.
  induction l as [|a l IH]; simpl; intros H E; [destruct H|].
  destruct (f a) as [b|] eqn:Ea; [eexists; reflexivity|].
  destruct H as [H|H]; [subst; congruence|eauto].
Qed.

Lemma first_some_unique {B} (f : Z -> option B) l x y :
  In x l -> f x = Some y -> (forall z, In z l -> z <> x -> f z = None) -> first_some f l = Some y.
Proof.
  induction l as [|a l IH]; simpl; intros H E U; [destruct H|].
  destruct (Z.eq_dec a x) as [X|X].
  - subst. rewrite E. reflexivity.
  - rewrite (U a (or_introl eq_refl) X). destruct H as [H|H]; [congruence|].
    apply IH; [assumption|assumption|]. intros z Hz. apply U. right. assumption.
Qed.

Lemma declares_feat_pos st d n f : declares_feat st d n f -> d <> 0.
Proof. intros [H _] E. subst. unfold feats_of in H. simpl in H. destruct H. Qed.

Lemma declares_op_pos st d n s : declares_op st d n s -> d <> 0.
Proof. intros (o & H & _) E. subst. unfold ops_of in H. simpl in H. destruct H. Qed.

Lemma in_closure_in_mro st c d l :
  Inv st -> consistent st -> flag st = false -> mro st c = Some l -> in_closure st c d -> d <> 0 -> In d l.
Proof.
  intros I Co F M R N. apply (mro_closure _ _ _ Co F M). apply reach_supers_bases; assumption.
Qed.

(* a feature or (well-formed) operation declared by the class or by a
   transitive supertype is found by the class lookup *)
Theorem declared_is_found st c l d n :
  Inv st -> Full st -> consistent st -> flag st = false -> mro st c = Some l -> in_closure st c d ->
  ((exists f, declares_feat st d n f) \/ (exists s, declares_op st d n s)) ->
  exists e, class_lookup st c n = Some e.
Proof.
  intros I Fu Co F M R D.
  assert (N : d <> 0) by (destruct D as [(f & D)|(s & D)]; [eapply declares_feat_pos|eapply declares_op_pos]; eauto).
  pose proof (in_closure_in_mro _ _ _ _ I Co F M R N) as Hd.
  unfold class_lookup. rewrite M.
  destruct D as [(f & Hf & En)|(s & o & Ho & En & PD)].
  - unfold feats_of in Hf. destruct (getc st d) as [k|] eqn:G; [|destruct Hf].
    apply (first_some_exists _ _ d (EFeat f)); [assumption|].
    unfold ns_of. rewrite G. rewrite <- En. apply (full_feats _ (Full_getc _ _ _ Fu G)). assumption.
  - unfold ops_of in Ho. destruct (getc st d) as [k|] eqn:G; [|destruct Ho].
    destruct (full_ops _ (Full_getc _ _ _ Fu G) o s Ho PD) as [E|(b & E)]; unfold op_key in E; rewrite En in E.
    + apply (first_some_exists _ _ d (EFun s)); [assumption|]. unfold ns_of. rewrite G. assumption.
    + apply (first_some_exists _ _ d (EBeh b)); [assumption|]. unfold ns_of. rewrite G. assumption.
Qed.

(* with their defaults and multiplicity: when one class of the linearisation
   provides the name, the lookup finds that very feature, and an instance
   that holds no slot of that name reads the declared default, single or many *)
Theorem declared_feature_lookup st c l d n f :
  Inv st -> Full st -> consistent st -> flag st = false -> mro st c = Some l -> in_closure st c d ->
  declares_feat st d n f ->
  (forall z, In z l -> z <> d -> ns_get n (ns_of st z) = None) ->
  class_lookup st c n = Some (EFeat f).
Proof.
  intros I Fu Co F M R D U.
  pose proof (in_closure_in_mro _ _ _ _ I Co F M R (declares_feat_pos _ _ _ _ D)) as Hd.
  unfold class_lookup. rewrite M. destruct D as [Hf En].
  unfold feats_of in Hf. destruct (getc st d) as [k|] eqn:G; [|destruct Hf].
  apply (first_some_unique _ _ d); [assumption| |assumption].
  unfold ns_of. rewrite G. rewrite <- En. apply (full_feats _ (Full_getc _ _ _ Fu G)). assumption.
Qed.

Lemma getattr_default st i n x f :
  geti st i = Some x -> ns_get n (i_dict x) = None ->
  class_lookup st (i_cls x) n = Some (EFeat f) ->
  snd (getattr_m st i n) = if f_many f then GColl [] else GSingle (f_default f).
Proof.
  intros G D L. unfold getattr_m. rewrite G, L, D. unfold default_slot. destruct (f_many f); reflexivity.
Qed.

Theorem declared_is_visible st i x l d n :
  Inv st -> Full st -> consistent st -> flag st = false -> geti st i = Some x -> mro st (i_cls x) = Some l ->
  in_closure st (i_cls x) d ->
  ((exists f, declares_feat st d n f) \/ (exists s, declares_op st d n s)) ->
  visible st i n.
Proof.
  intros I Fu Co F G M R D. destruct (declared_is_found _ _ _ _ _ I Fu Co F M R D) as (e & L).
  unfold visible, getattr_m. rewrite G, L.
  destruct e as [f|s|b]; destruct (ns_get n (i_dict x)) as [[? ?|? ?|?]|]; simpl; try discriminate.
  unfold default_slot. destruct (f_many f); discriminate.
Qed.

(* exactly: for an instance that holds no slot of the name *)
Theorem visible_iff_declared st i x l n :
  Inv st -> Full st -> consistent st -> flag st = false -> geti st i = Some x -> mro st (i_cls x) = Some l ->
  ns_get n (i_dict x) = None ->
  (forall d b, ns_get n (ns_of st d) = Some (EBeh b) -> exists s, declares_op st d n s) ->
  (visible st i n <->
   exists d, in_closure st (i_cls x) d /\
     ((exists f, declares_feat st d n f) \/ (exists s, declares_op st d n s))).
Proof.
  intros I Fu Co F G M D NB. split.
  - intros V. destruct (untouched_sound _ _ _ _ I Co F G D V) as (d & R & [H|[H|(b & H)]]).
    + exists d. tauto.
    + exists d. tauto.
    + exists d. split; [assumption|]. right. eapply NB; eauto.
  - intros (d & R & H). eapply declared_is_visible; eauto.
Qed.
