(* C19, "exactly once": under the single-owner invariant (own_ok), the slot
   shape (shape2) and acyclicity of the container back-pointers, eContents and
   eAllContents are duplicate-free for EVERY fuel; with fuel >= the number of
   objects eAllContents enumerates exactly the strict descendants, each once.

   Acyclicity is stated on the container pointers only (acyclic_cont: no object
   is its own transitive container).  It follows from "every container chain
   is finite" (forall c, exists n, depth s c n) and, when the feature recorded
   in cont is applicable to the container, from "no object descends from
   itself" (forall x, ~ descends m s x x). *)
From Coq Require Import ZArith List Bool Arith Lia.
From PyecoreV Require Import Lib.PyBase Lib.PyList Model.Kernel Proofs.KernelFacts
     Proofs.C19Proofs Proofs.WFBase.
Import ListNotations.
Open Scope nat_scope.

(* ---------- lists ---------- *)
Lemma NoDup_app_intro {A} (l1 l2 : list A) :
  NoDup l1 -> NoDup l2 -> (forall x, In x l1 -> In x l2 -> False) -> NoDup (l1 ++ l2).
Proof.
  induction l1 as [|a l1 IH]; simpl; intros H1 H2 Hd; [exact H2|].
  inversion H1 as [|? ? Hn H1']; subst. constructor.
  - rewrite in_app_iff. intros [H|H]; [exact (Hn H) | exact (Hd a (or_introl eq_refl) H)].
  - apply IH; [exact H1' | exact H2 | intros x Hx; apply Hd; right; exact Hx].
Qed.

Lemma NoDup_flat_map_intro {A B} (g : A -> list B) (l : list A) :
  NoDup l -> (forall x, In x l -> NoDup (g x)) ->
  (forall x y z, In x l -> In y l -> In z (g x) -> In z (g y) -> x = y) ->
  NoDup (flat_map g l).
Proof.
  induction l as [|a l IH]; simpl; intros Hl Hg Hd; [constructor|].
  inversion Hl as [|? ? Hn Hl']; subst.
  apply NoDup_app_intro.
  - apply Hg. left; reflexivity.
  - apply IH; [exact Hl' | intros x Hx; apply Hg; right; exact Hx |].
    intros x y z Hx Hy. apply Hd; right; assumption.
  - intros z Hz1 Hz2. apply in_flat_map in Hz2. destruct Hz2 as [y [Hy Hz2]].
    assert (E : a = y).
    { apply (Hd a y z); [left; reflexivity | right; exact Hy | exact Hz1 | exact Hz2]. }
    subst y. exact (Hn Hy).
Qed.

Lemma seqn_In f n : In f (seqn n) <-> f < n.
Proof.
  induction n as [|n IH]; simpl; [split; [tauto | lia]|].
  rewrite in_app_iff, IH. simpl. split.
  - intros [H|[H|[]]]; lia.
  - intros H. destruct (Nat.eq_dec f n); [right; left; congruence | left; lia].
Qed.

Lemma seqn_NoDup n : NoDup (seqn n).
Proof.
  induction n as [|n IH]; simpl; [constructor|].
  apply NoDup_app_intro; [exact IH | constructor; [intros [] | constructor] |].
  intros x Hx [E|[]]. subst x. apply seqn_In in Hx. lia.
Qed.

Lemma ref_feats_NoDup m o : NoDup (ref_feats m o).
Proof. unfold ref_feats. apply NoDup_filter. apply seqn_NoDup. Qed.

(* ---------- eContents under the single-owner invariant ---------- *)

(* a child's container pointer names the object whose eContents lists it *)
Lemma econtents_cont m s (o c : oid) :
  own_ok m s -> In c (econtents m s o) -> exists f, cont s c = Some (o, f).
Proof.
  intros Ho H. apply econtents_spec in H. destruct H as [f [_ [Hc Hin]]].
  exists f. apply Ho. split; assumption.
Qed.

(* conversely, provided the recorded feature is a reference applicable to the container *)
Lemma cont_econtents m s (p c : oid) (f : fid) :
  own_ok m s -> In f (ref_feats m p) -> cont s c = Some (p, f) -> In c (econtents m s p).
Proof.
  intros Ho Hf Hc. apply Ho in Hc. destruct Hc as [Hcont Hin].
  apply econtents_spec. exists f. repeat split; assumption.
Qed.

Lemma econtents_parent_unique m s (p p' c : oid) :
  own_ok m s -> In c (econtents m s p) -> In c (econtents m s p') -> p = p'.
Proof.
  intros Ho H H'. destruct (econtents_cont m s p c Ho H) as [f Hf].
  destruct (econtents_cont m s p' c Ho H') as [f' Hf']. congruence.
Qed.

(* eContents lists every child once *)
Theorem econtents_NoDup m s (o : oid) : own_ok m s -> shape2 m s -> NoDup (econtents m s o).
Proof.
  intros Ho Hs. unfold econtents. apply NoDup_flat_map_intro.
  - apply ref_feats_NoDup.
  - intros f _. destruct (f_cont (fd m f)) eqn:E; [|constructor].
    destruct (Hs o f) as [_ H]. exact (H (or_intror E)).
  - intros f g z _ _ Hf Hg.
    destruct (f_cont (fd m f)) eqn:Ef; [|destruct Hf].
    destruct (f_cont (fd m g)) eqn:Eg; [|destruct Hg].
    apply objs_of_In in Hf. apply objs_of_In in Hg.
    assert (A : cont s z = Some (o, f)) by (apply Ho; split; assumption).
    assert (B : cont s z = Some (o, g)) by (apply Ho; split; assumption).
    congruence.
Qed.

(* ---------- the container chain ---------- *)

(* the n-th container of z *)
Fixpoint up (s : state) (n : nat) (z : oid) : option oid :=
  match n with
  | O => Some z
  | S k => match cont s z with Some (p, _) => up s k p | None => None end
  end.

(* no object is its own transitive container *)
Definition acyclic_cont (s : state) : Prop := forall (x : oid) n, up s (S n) x <> Some x.

Lemma up_add s a b z :
  up s (a + b) z = match up s a z with Some y => up s b y | None => None end.
Proof.
  revert z; induction a as [|a IH]; intros z; simpl; [reflexivity|].
  destruct (cont s z) as [[p f]|]; [apply IH | reflexivity].
Qed.

Lemma up_succ_r s n (z y p : oid) (f : fid) :
  up s n z = Some y -> cont s y = Some (p, f) -> up s (S n) z = Some p.
Proof.
  intros H1 H2. replace (S n) with (n + 1) by lia. rewrite up_add, H1. simpl. rewrite H2. reflexivity.
Qed.

(* in an acyclic containment an ancestor sits at one distance only *)
Lemma up_len_unique s i j (z x : oid) :
  acyclic_cont s -> up s i z = Some x -> up s j z = Some x -> i = j.
Proof.
  intros Hac.
  assert (L : forall a b, a < b -> up s a z = Some x -> up s b z = Some x -> False).
  { intros a b Hlt Ha Hb. replace b with (a + S (b - a - 1)) in Hb by lia.
    rewrite up_add, Ha in Hb. exact (Hac _ _ Hb). }
  intros Hi Hj. destruct (lt_eq_lt_dec i j) as [[Hlt|E]|Hlt].
  - exfalso. exact (L i j Hlt Hi Hj).
  - exact E.
  - exfalso. exact (L j i Hlt Hj Hi).
Qed.

(* everything eAllContents o yields has o among its first `fuel` containers *)
Lemma eallcontents_up m s fuel (o c : oid) :
  own_ok m s -> In c (eallcontents fuel m s o) -> exists n, n < fuel /\ up s (S n) c = Some o.
Proof.
  intros Ho. revert o c. induction fuel as [|fu IH]; intros o c H; [destruct H|].
  apply eallcontents_unfold in H. destruct H as [H|[k [Hk Hc]]].
  - destruct (econtents_cont m s o c Ho H) as [f Hf]. exists 0. split; [lia|].
    simpl. rewrite Hf. reflexivity.
  - destruct (IH k c Hc) as [n [Hn Hu]]. destruct (econtents_cont m s o k Ho Hk) as [f Hf].
    exists (S n). split; [lia|]. exact (up_succ_r s (S n) c k o f Hu Hf).
Qed.

(* ---------- exactly once, for every fuel ---------- *)
Theorem eallcontents_NoDup m s fuel (o : oid) :
  own_ok m s -> shape2 m s -> acyclic_cont s -> NoDup (eallcontents fuel m s o).
Proof.
  intros Ho Hs Hac. revert o. induction fuel as [|fu IH]; intros o; [constructor|].
  change (NoDup (econtents m s o ++ flat_map (eallcontents fu m s) (econtents m s o))).
  apply NoDup_app_intro.
  - apply econtents_NoDup; assumption.
  - apply NoDup_flat_map_intro.
    + apply econtents_NoDup; assumption.
    + intros k _. apply IH.
    + (* the subtrees of two children share nothing *)
      intros k1 k2 z Hk1 Hk2 Hz1 Hz2.
      destruct (eallcontents_up m s fu k1 z Ho Hz1) as [n1 [_ U1]].
      destruct (eallcontents_up m s fu k2 z Ho Hz2) as [n2 [_ U2]].
      destruct (econtents_cont m s o k1 Ho Hk1) as [f1 C1].
      destruct (econtents_cont m s o k2 Ho Hk2) as [f2 C2].
      pose proof (up_succ_r s (S n1) z k1 o f1 U1 C1) as V1.
      pose proof (up_succ_r s (S n2) z k2 o f2 U2 C2) as V2.
      assert (E : S (S n1) = S (S n2)) by (exact (up_len_unique s _ _ z o Hac V1 V2)).
      inversion E; subst n2. rewrite U1 in U2. congruence.
  - (* a child is not below a child *)
    intros z Hz1 Hz2. apply in_flat_map in Hz2. destruct Hz2 as [k [Hk Hz2]].
    destruct (econtents_cont m s o z Ho Hz1) as [f C].
    assert (U0 : up s 1 z = Some o) by (simpl; rewrite C; reflexivity).
    destruct (eallcontents_up m s fu k z Ho Hz2) as [n [_ U]].
    destruct (econtents_cont m s o k Ho Hk) as [g Ck].
    pose proof (up_succ_r s (S n) z k o g U Ck) as V.
    pose proof (up_len_unique s _ _ z o Hac U0 V) as E. discriminate E.
Qed.

(* ---------- sufficient conditions for acyclic_cont ---------- *)
Lemma depth_fun s (c : oid) n n' : depth s c n -> depth s c n' -> n = n'.
Proof.
  intros H; revert n'; induction H as [o Hc|o p f n Hc Hd IH]; intros n' H';
    inversion H' as [? Hc'|? p' f' k Hc' Hd']; subst; try congruence.
  rewrite Hc in Hc'; inversion Hc'; subst. f_equal. apply IH. exact Hd'.
Qed.

Lemma depth_up s k : forall (x y : oid) n, depth s x n -> up s k x = Some y -> k <= n /\ depth s y (n - k).
Proof.
  induction k as [|k IH]; intros x y n Hd Hu; simpl in Hu.
  - inversion Hu; subst. split; [lia|]. rewrite Nat.sub_0_r. exact Hd.
  - destruct (cont s x) as [[p f]|] eqn:Hc; [|discriminate].
    inversion Hd as [? Hc'|? p' f' n0 Hc' Hd']; subst; [congruence|].
    rewrite Hc in Hc'. inversion Hc'; subst.
    destruct (IH _ _ _ Hd' Hu) as [A B]. split; [lia|]. simpl. exact B.
Qed.

(* every container chain is finite => no cycle *)
Lemma finite_chains_acyclic s : (forall c : oid, exists n, depth s c n) -> acyclic_cont s.
Proof.
  intros H x n Hu. destruct (H x) as [d Hd].
  destruct (depth_up s (S n) x x d Hd Hu) as [A B].
  pose proof (depth_fun s x _ _ Hd B). lia.
Qed.

Lemma descends_snoc m s (a b c : oid) :
  descends m s a b -> In c (econtents m s b) -> descends m s a c.
Proof.
  intros H. induction H as [o k Hk|o k b Hk Hd IH]; intros Hc.
  - eapply desc_trans; [exact Hk | constructor; exact Hc].
  - eapply desc_trans; [exact Hk | apply IH; exact Hc].
Qed.

(* a transitive container is an ancestor in the eContents sense, when the recorded
   containment feature is a reference applicable to the container *)
Lemma up_descends m s :
  own_ok m s -> (forall (c p : oid) (f : fid), cont s c = Some (p, f) -> In f (ref_feats m p)) ->
  forall n (x y : oid), up s (S n) x = Some y -> descends m s y x.
Proof.
  intros Ho Happ. induction n as [|n IH]; intros x y Hu.
  - simpl in Hu. destruct (cont s x) as [[p f]|] eqn:Hc; [|discriminate]. inversion Hu; subst p.
    constructor. eapply cont_econtents; eauto.
  - change (up s (S (S n)) x) with (match cont s x with Some (p, _) => up s (S n) p | None => None end) in Hu.
    destruct (cont s x) as [[p f]|] eqn:Hc; [|discriminate].
    eapply descends_snoc; [apply IH; exact Hu | eapply cont_econtents; eauto].
Qed.

(* no object descends from itself => no cycle *)
Lemma no_self_descendant_acyclic m s :
  own_ok m s -> (forall (c p : oid) (f : fid), cont s c = Some (p, f) -> In f (ref_feats m p)) ->
  (forall x : oid, ~ descends m s x x) -> acyclic_cont s.
Proof.
  intros Ho Happ Hn x n Hu. apply (Hn x). exact (up_descends m s Ho Happ n x x Hu).
Qed.

Theorem eallcontents_NoDup_finite_chains m s fuel (o : oid) :
  own_ok m s -> shape2 m s -> (forall c : oid, exists n, depth s c n) -> NoDup (eallcontents fuel m s o).
Proof. intros Ho Hs Hd. apply eallcontents_NoDup; [exact Ho | exact Hs | apply finite_chains_acyclic; exact Hd]. Qed.

(* ---------- enough fuel: exactly the strict descendants ---------- *)
Lemma descends_descends_in m s (o c : oid) : descends m s o c -> exists n, descends_in m s n o c.
Proof.
  intros H. induction H as [o c Hc|o k c Hk Hd [n IH]].
  - exists 1. constructor; exact Hc.
  - exists (S n). eapply descS; eauto.
Qed.

Lemma descends_in_up m s n (o c : oid) : own_ok m s -> descends_in m s n o c -> up s n c = Some o.
Proof.
  intros Ho H. induction H as [o c Hc|n o k c Hk Hd IH].
  - destruct (econtents_cont m s o c Ho Hc) as [f Hf]. simpl. rewrite Hf. reflexivity.
  - destruct (econtents_cont m s o k Ho Hk) as [f Hf]. exact (up_succ_r s n c k o f IH Hf).
Qed.

(* the first n objects of z's container chain *)
Fixpoint chain (s : state) (n : nat) (z : oid) : list oid :=
  match n with
  | O => []
  | S k => z :: match cont s z with Some (p, _) => chain s k p | None => [] end
  end.

Lemma chain_length s n : forall (z o : oid), up s n z = Some o -> length (chain s n z) = n.
Proof.
  induction n as [|n IH]; intros z o Hu; simpl in *; [reflexivity|].
  destruct (cont s z) as [[p f]|]; [|discriminate]. f_equal. eapply IH; eauto.
Qed.

Lemma chain_In s n : forall (z x : oid), In x (chain s n z) -> exists i, i < n /\ up s i z = Some x.
Proof.
  induction n as [|n IH]; intros z x H; simpl in H; [destruct H|].
  destruct H as [H|H].
  - subst x. exists 0. split; [lia | reflexivity].
  - destruct (cont s z) as [[p f]|] eqn:Hc; [|destruct H].
    destruct (IH p x H) as [i [Hi Hu]]. exists (S i). split; [lia|]. simpl. rewrite Hc. exact Hu.
Qed.

Lemma chain_NoDup s n : acyclic_cont s -> forall z : oid, NoDup (chain s n z).
Proof.
  intros Hac. induction n as [|n IH]; intros z; simpl; [constructor|].
  constructor.
  - destruct (cont s z) as [[p f]|] eqn:Hc; [|intros []].
    intros H. destruct (chain_In s n p z H) as [i [_ Hu]].
    apply (Hac z i). simpl. rewrite Hc. exact Hu.
  - destruct (cont s z) as [[p f]|]; [apply IH | constructor].
Qed.

Lemma chain_contained s n (z o x : oid) :
  up s n z = Some o -> In x (chain s n z) -> cont s x <> None.
Proof.
  intros Hu Hx. destruct (chain_In s n z x Hx) as [i [Hi Hxi]].
  replace n with (i + S (n - i - 1)) in Hu by lia. rewrite up_add, Hxi in Hu.
  simpl in Hu. intros E. rewrite E in Hu. discriminate.
Qed.

(* pigeonhole: in an acyclic containment over a universe of N objects, chains have at most N links *)
Lemma up_bounded m s n (z o : oid) :
  acyclic_cont s ->
  (forall (c p : oid) (f : fid), cont s c = Some (p, f) -> c < length (ocls m)) ->
  up s n z = Some o -> n <= length (ocls m).
Proof.
  intros Hac Huni Hu.
  rewrite <- (chain_length s n z o Hu), <- (seq_length (length (ocls m)) 0).
  apply NoDup_incl_length; [apply chain_NoDup; exact Hac|].
  intros x Hx. apply in_seq. split; [lia|]. simpl.
  pose proof (chain_contained s n z o x Hu Hx) as Hc.
  destruct (cont s x) as [[p f]|] eqn:E; [|congruence]. eapply Huni; eauto.
Qed.

Theorem descends_within_universe m s (o c : oid) :
  own_ok m s -> acyclic_cont s ->
  (forall (c p : oid) (f : fid), cont s c = Some (p, f) -> c < length (ocls m)) ->
  descends m s o c -> exists n, n <= length (ocls m) /\ descends_in m s n o c.
Proof.
  intros Ho Hac Huni H. destruct (descends_descends_in m s o c H) as [n Hn].
  exists n. split; [|exact Hn].
  eapply up_bounded; [exact Hac | exact Huni | eapply descends_in_up; eauto].
Qed.

Theorem eallcontents_iff_descends m s fuel (o c : oid) :
  own_ok m s -> acyclic_cont s ->
  (forall (c p : oid) (f : fid), cont s c = Some (p, f) -> c < length (ocls m)) ->
  length (ocls m) <= fuel ->
  (In c (eallcontents fuel m s o) <-> descends m s o c).
Proof.
  intros Ho Hac Huni Hf. split; [apply eallcontents_sound|].
  intros H. destruct (descends_within_universe m s o c Ho Hac Huni H) as [n [Hn Hd]].
  eapply eallcontents_complete; [exact Hd | lia].
Qed.

(* eAllContents is a duplicate-free enumeration of exactly the strict descendants *)
Theorem eallcontents_exact m s fuel (o : oid) :
  own_ok m s -> shape2 m s -> acyclic_cont s ->
  (forall (c p : oid) (f : fid), cont s c = Some (p, f) -> c < length (ocls m)) ->
  length (ocls m) <= fuel ->
  NoDup (eallcontents fuel m s o) /\
  (forall c, In c (eallcontents fuel m s o) <-> descends m s o c).
Proof.
  intros Ho Hs Hac Huni Hf. split; [apply eallcontents_NoDup; assumption|].
  intros c. apply eallcontents_iff_descends; assumption.
Qed.

(* the same with the bound stated on the descendant instead of the universe *)
Theorem eallcontents_exact_bounded m s fuel (o : oid) :
  own_ok m s -> shape2 m s -> acyclic_cont s ->
  NoDup (eallcontents fuel m s o) /\
  (forall c, In c (eallcontents fuel m s o) -> descends m s o c) /\
  (forall c n, descends_in m s n o c -> n <= fuel -> In c (eallcontents fuel m s o)).
Proof.
  intros Ho Hs Hac. split; [apply eallcontents_NoDup; assumption|]. split.
  - intros c. apply eallcontents_sound.
  - intros c n Hd Hn. eapply eallcontents_complete; eauto.
Qed.

(* ---------- the premises are satisfiable: 0 contains 1 contains 2 ---------- *)
Definition once_mm : mm :=
  {| feats := [ {| f_owner := 0; f_isref := true; f_many := true; f_unique := true; f_cont := true;
                   f_opp := None; f_type := TClass 0; f_default := VNone |} ];
     conf := [(0, 0)]; ocls := [0; 0; 0]; enames := []; nres := 1 |}.

Definition once_state : state :=
  {| vals := fun k => match k with
                      | (0, 0) => [VObj 1] | (1, 0) => [VObj 2] | (_, 0) => [] | _ => [VNone]
                      end;
     isset := fun _ => false;
     cont := fun c => match c with 1 => Some (0, 0) | 2 => Some (1, 0) | _ => None end;
     eres := fun _ => None; rcont := fun _ => []; inv := fun _ => []; log := [] |}.

Lemma once_fd_S f : fd once_mm (S f) = dummy_f.
Proof. unfold fd. simpl. destruct f; reflexivity. Qed.

Lemma once_own_ok : own_ok once_mm once_state.
Proof.
  intros c p f. destruct f as [|f].
  - destruct p as [|[|p]]; destruct c as [|[|[|c]]]; simpl; split; intros H;
      try discriminate H; try (split; [reflexivity|]); try (left; reflexivity); try reflexivity;
      try (destruct H as [_ [H|[]]]; discriminate H); try (destruct H as [_ []]).
  - rewrite once_fd_S. simpl. split.
    + intros H. destruct c as [|[|[|c]]]; discriminate H.
    + intros [H _]. discriminate H.
Qed.

Lemma once_shape2 : shape2 once_mm once_state.
Proof.
  intros a f. destruct f as [|f].
  - split; [intros H; discriminate H|]. intros _. unfold nodup_objs.
    destruct a as [|[|a]]; simpl; repeat constructor; intros [].
  - rewrite once_fd_S. split.
    + intros _. exists VNone. destruct a as [|[|a]]; reflexivity.
    + intros _. unfold nodup_objs. destruct a as [|[|a]]; simpl; constructor.
Qed.

Lemma once_depth : forall c : oid, exists n, depth once_state c n.
Proof.
  assert (D0 : depth once_state 0 0) by (constructor; reflexivity).
  assert (D1 : depth once_state 1 1) by (eapply depth_step; [reflexivity | exact D0]).
  intros c. destruct c as [|[|[|c]]].
  - exists 0; exact D0.
  - exists 1; exact D1.
  - exists 2. eapply depth_step; [reflexivity | exact D1].
  - exists 0. constructor. reflexivity.
Qed.

Lemma once_universe :
  forall (c p : oid) (f : fid), cont once_state c = Some (p, f) -> c < length (ocls once_mm).
Proof. intros c p f H. destruct c as [|[|[|c]]]; simpl in *; try discriminate H; lia. Qed.

Lemma once_witness :
  own_ok once_mm once_state /\ shape2 once_mm once_state /\ acyclic_cont once_state /\
  (forall (c p : oid) (f : fid), cont once_state c = Some (p, f) -> c < length (ocls once_mm)) /\
  eallcontents (S (length (ocls once_mm))) once_mm once_state 0 = [1; 2].
Proof.
  split; [exact once_own_ok|]. split; [exact once_shape2|].
  split; [apply finite_chains_acyclic; exact once_depth|]. split; [exact once_universe|].
  vm_compute. reflexivity.
Qed.
