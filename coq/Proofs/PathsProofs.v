(* The path algebra behind relative hrefs: what _build_path_from writes
   (relative_from_me) is what _try_resource_autoload reads back
   (apply_relative_from_me, then normalize). *)
From Coq Require Import ZArith List Bool Lia.
From PyecoreV Require Import Model.Paths.
Import ListNotations.
Open Scope Z_scope.

Definition plain_all (l : list seg) : Prop := Forall (fun s => plain s = true) l.

Lemma seg_eqb_eq a b : seg_eqb a b = true <-> a = b.
Proof.
  revert b. induction a as [|x a IH]; intros [|y b]; simpl; split; intros H; try reflexivity; try discriminate.
  - apply andb_true_iff in H. destruct H as [H1 H2]. apply Z.eqb_eq in H1. apply IH in H2. subst. reflexivity.
  - inversion H; subst. rewrite Z.eqb_refl. simpl. apply IH. reflexivity.
Qed.

Lemma seg_eqb_refl a : seg_eqb a a = true.
Proof. apply seg_eqb_eq. reflexivity. Qed.

Lemma plain_facts s : plain s = true -> is_empty s = false /\ is_dot s = false /\ is_dotdot s = false.
Proof.
  unfold plain. intros H. apply andb_true_iff in H. destruct H as [H H3].
  apply andb_true_iff in H. destruct H as [H1 H2].
  apply negb_true_iff in H1. apply negb_true_iff in H2. apply negb_true_iff in H3. auto.
Qed.

(* ---- split / join are inverse on every string ---- *)
Lemma split_go_nonempty cur s : split_go cur s <> [].
Proof.
  revert cur. induction s as [|c r IH]; intros cur; simpl.
  - discriminate.
  - destruct (c =? SLASH); [discriminate | apply IH].
Qed.

Lemma join_slash_cons s l : l <> [] -> join_slash (s :: l) = s ++ SLASH :: join_slash l.
Proof. destruct l; [congruence | reflexivity]. Qed.

Lemma join_split_go cur s : join_slash (split_go cur s) = rev cur ++ s.
Proof.
  revert cur. induction s as [|c r IH]; intros cur; simpl.
  - rewrite app_nil_r. reflexivity.
  - destruct (Z.eqb_spec c SLASH) as [E|N].
    + rewrite join_slash_cons by apply split_go_nonempty. rewrite IH. simpl. subst. reflexivity.
    + rewrite IH. simpl. rewrite <- app_assoc. reflexivity.
Qed.

Lemma render_parse s : render (parse s) = s.
Proof.
  destruct s as [|c r]; [reflexivity|].
  unfold parse. destruct (Z.eqb_spec c SLASH) as [E|N]; unfold render; simpl pabs; simpl psegs.
  - unfold split_slash. rewrite join_split_go. simpl. subst. reflexivity.
  - unfold split_slash. rewrite join_split_go. reflexivity.
Qed.

(* ---- normpath on segments ---- *)
Lemma norm_go_push absolute l : plain_all l ->
  forall st rest, norm_go absolute st (l ++ rest) = norm_go absolute (rev l ++ st) rest.
Proof.
  induction 1 as [|s l Hs Hl IH]; intros st rest; simpl; [reflexivity|].
  destruct (plain_facts s Hs) as [E1 [E2 E3]]. rewrite E1, E2, E3. simpl.
  rewrite IH. rewrite <- app_assoc. reflexivity.
Qed.

Lemma norm_go_plain absolute l st : plain_all l -> norm_go absolute st l = rev st ++ l.
Proof.
  intros H. rewrite <- (app_nil_r l) at 1. rewrite norm_go_push by assumption. simpl.
  rewrite rev_app_distr, rev_involutive. reflexivity.
Qed.

(* n times '..' undo the n plain segments on top of the stack *)
Lemma norm_go_pop absolute top : plain_all top ->
  forall st rest,
    norm_go absolute (top ++ st) (repeat DOTDOT (length top) ++ rest) = norm_go absolute st rest.
Proof.
  induction 1 as [|t top Ht Htop IH]; intros st rest; simpl; [reflexivity|].
  destruct (plain_facts t Ht) as [_ [_ E3]]. rewrite E3. apply IH.
Qed.

(* an absolute path normalises to plain segments only *)
Lemma norm_go_abs_plain l : forall st, plain_all st -> plain_all (norm_go true st l).
Proof.
  induction l as [|s l IH]; intros st Hst; simpl.
  - unfold plain_all. apply Forall_rev. exact Hst.
  - destruct (is_empty s) eqn:E1; simpl; [apply IH; exact Hst|].
    destruct (is_dot s) eqn:E2; simpl; [apply IH; exact Hst|].
    destruct (is_dotdot s) eqn:E3.
    + destruct st as [|t st']; [apply IH; constructor|].
      inversion Hst as [|? ? Ht Hst']; subst.
      destruct (plain_facts t Ht) as [_ [_ E]]. rewrite E. apply IH. exact Hst'.
    + apply IH. constructor; [|exact Hst]. unfold plain. rewrite E1, E2, E3. reflexivity.
Qed.

Lemma normpath_abs_idem p : pabs p = true -> normpath (normpath p) = normpath p.
Proof.
  intros H. unfold normpath. simpl. rewrite H. f_equal.
  rewrite norm_go_plain; [reflexivity|]. apply norm_go_abs_plain. constructor.
Qed.

Lemma normpath_plain p : plain_all (psegs p) -> normpath p = p.
Proof.
  intros H. destruct p as [a l]. unfold normpath. simpl in *. rewrite norm_go_plain by assumption. reflexivity.
Qed.

(* ---- dirname / join / relpath on plain segment lists ---- *)
Lemma strip_plain l : plain_all l -> strip_trailing_empty l = l.
Proof.
  induction 1 as [|s l Hs Hl IH]; simpl; [reflexivity|].
  rewrite IH. destruct l; [|reflexivity].
  destruct (plain_facts s Hs) as [E _]. rewrite E. reflexivity.
Qed.

Lemma plain_removelast l : plain_all l -> plain_all (removelast l).
Proof.
  induction 1 as [|s l Hs Hl IH]; simpl; [constructor|].
  destruct l; [constructor|]. constructor; assumption.
Qed.

Lemma drop_last_plain l : plain_all l -> drop_last_if_empty l = l.
Proof.
  intros H. unfold drop_last_if_empty. destruct (rev l) as [|s r] eqn:E; [reflexivity|].
  destruct s; [|reflexivity]. exfalso.
  assert (Hin : In [] l). { apply (proj2 (in_rev l [])). rewrite E. left. reflexivity. }
  unfold plain_all in H. rewrite Forall_forall in H. specialize (H _ Hin). discriminate.
Qed.

Lemma nonempty_plain l : plain_all l -> nonempty_segs l = l.
Proof.
  induction 1 as [|s l Hs Hl IH]; simpl; [reflexivity|].
  destruct (plain_facts s Hs) as [E _]. rewrite E. simpl. rewrite IH. reflexivity.
Qed.

Lemma common_len_firstn a : forall b, firstn (common_len a b) a = firstn (common_len a b) b.
Proof.
  induction a as [|x a IH]; intros [|y b]; simpl; try reflexivity.
  destruct (seg_eqb x y) eqn:E; [|reflexivity].
  apply seg_eqb_eq in E. subst. simpl. f_equal. apply IH.
Qed.

Lemma common_len_le a : forall b, (common_len a b <= length a)%nat.
Proof.
  induction a as [|x a IH]; intros [|y b]; simpl; try lia.
  destruct (seg_eqb x y); [specialize (IH b)|]; lia.
Qed.

Lemma plain_firstn n l : plain_all l -> plain_all (firstn n l).
Proof.
  intros H. revert n. induction H as [|s l Hs Hl IH]; intros [|n]; simpl; try constructor; try assumption.
  apply IH.
Qed.

Lemma plain_skipn n l : plain_all l -> plain_all (skipn n l).
Proof.
  intros H. revert n. induction H as [|s l Hs Hl IH]; intros [|n]; simpl; try constructor; try assumption.
  apply IH.
Qed.

(* the core: go down the directory, up to the common prefix, down to the target *)
Lemma down_up_down d bs :
  plain_all d -> plain_all bs ->
  norm_go true [] (d ++ repeat DOTDOT (length d - common_len d bs) ++ skipn (common_len d bs) bs) = bs.
Proof.
  intros Hd Hb. set (i := common_len d bs).
  pose proof (common_len_le d bs) as Hle. fold i in Hle.
  pose proof (common_len_firstn d bs) as Hc. fold i in Hc.
  rewrite <- (firstn_skipn i d) at 1.
  rewrite <- app_assoc.
  rewrite norm_go_push by (apply plain_firstn; exact Hd).
  rewrite norm_go_push by (apply plain_skipn; exact Hd).
  replace (length d - i)%nat with (length (rev (skipn i d))).
  2:{ rewrite rev_length, skipn_length. reflexivity. }
  rewrite norm_go_pop.
  2:{ unfold plain_all. apply Forall_rev. apply plain_skipn. exact Hd. }
  rewrite norm_go_plain by (apply plain_skipn; exact Hb).
  rewrite app_nil_r, rev_involutive. rewrite Hc. apply firstn_skipn.
Qed.

(* C14, path part: for absolute paths a (the referring file) and b (the target
   file) made of plain segments, resolving against a the relative path that a
   computes for b gives b back. *)
Theorem relative_roundtrip a b :
  pabs a = true -> pabs b = true -> plain_all (psegs a) -> plain_all (psegs b) ->
  uri_normalize (uri_apply_relative_from_me a (uri_relative_from_me a b)) = b.
Proof.
  intros Ha Hb Pa Pb. destruct a as [aa al], b as [ba bl]. simpl in *. subst.
  unfold uri_apply_relative_from_me, uri_relative_from_me, uri_normalize, abspath.
  rewrite (normpath_plain {| pabs := true; psegs := al |}) by exact Pa.
  rewrite (normpath_plain {| pabs := true; psegs := bl |}) by exact Pb.
  unfold dirname. simpl.
  assert (Pd : plain_all (removelast al)) by (apply plain_removelast; exact Pa).
  rewrite strip_plain by exact Pd.
  unfold relpath, abspath.
  rewrite (normpath_plain {| pabs := true; psegs := removelast al |}) by exact Pd.
  rewrite (normpath_plain {| pabs := true; psegs := bl |}) by exact Pb.
  simpl. rewrite !nonempty_plain by assumption.
  unfold join. simpl. rewrite drop_last_plain by exact Pd.
  unfold normpath. simpl. f_equal. apply down_up_down; assumption.
Qed.

(* what is written never depends on how the two URIs were spelled *)
Lemma relative_of_normalized a b :
  pabs a = true -> pabs b = true ->
  uri_relative_from_me (uri_normalize a) (uri_normalize b) = uri_relative_from_me a b.
Proof.
  intros Ha Hb. unfold uri_relative_from_me, uri_normalize, abspath.
  rewrite !normpath_abs_idem by assumption. reflexivity.
Qed.

(* the written relative path is already normal: no '.', no empty segment, '..' only in front *)
Lemma relative_shape a b :
  pabs a = true -> pabs b = true ->
  exists n rest, psegs (uri_relative_from_me a b) = repeat DOTDOT n ++ rest /\ plain_all rest.
Proof.
  intros Ha Hb. unfold uri_relative_from_me, relpath.
  eexists. eexists. split; [reflexivity|].
  apply plain_skipn. unfold abspath, uri_normalize, abspath.
  assert (P : plain_all (psegs (normpath (normpath b)))).
  { unfold normpath. simpl. rewrite Hb. apply norm_go_abs_plain. constructor. }
  rewrite nonempty_plain; exact P.
Qed.
