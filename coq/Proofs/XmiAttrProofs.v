(* Round trips of the XMI attribute / reference-list encodings (Model/XmiAttr.v). *)
From Coq Require Import ZArith List Bool Lia.
From PyecoreV Require Import Model.XmiAttr.
Import ListNotations.
Open Scope Z_scope.

(* a string that may sit in a space-joined list: non-empty, no whitespace *)
Definition good (s : str) : Prop := is_empty s = false /\ has_space s = false.

Lemma is_empty_app_r (a : str) c : is_empty (a ++ [c]) = false.
Proof. destruct a; reflexivity. Qed.

Lemma is_empty_false_app (a b : str) : is_empty a = false -> is_empty (a ++ b) = false.
Proof. destruct a; simpl; [discriminate | reflexivity]. Qed.

(* ---- split() ---- *)

Lemma split_aux_nospace t : forall cur rest,
  has_space t = false -> split_aux cur (t ++ rest) = split_aux (cur ++ t) rest.
Proof.
  induction t as [|c t IH]; intros cur rest H; simpl.
  - rewrite app_nil_r. reflexivity.
  - unfold has_space in H. simpl in H. apply orb_false_iff in H. destruct H as [Hc Ht].
    rewrite Hc. rewrite (IH (cur ++ [c]) rest Ht). rewrite <- app_assoc. reflexivity.
Qed.

Lemma split_aux_space cur rest :
  is_empty cur = false -> split_aux cur (32 :: rest) = cur :: split_aux [] rest.
Proof. intros H. simpl. rewrite H. reflexivity. Qed.

Lemma split_aux_end cur : is_empty cur = false -> split_aux cur [] = [cur].
Proof. intros H. simpl. rewrite H. reflexivity. Qed.

Theorem split_join (l : list str) : Forall good l -> split_ws (join_sp l) = l.
Proof.
  unfold split_ws. induction l as [|s r IH]; intros HF.
  - reflexivity.
  - inversion HF as [|s' r' [Hne Hns] HF']; subst.
    destruct r as [|s2 r2].
    + simpl. rewrite <- (app_nil_r s) at 1. rewrite (split_aux_nospace s [] [] Hns). simpl.
      rewrite Hne. reflexivity.
    + change (join_sp (s :: s2 :: r2)) with (s ++ 32 :: join_sp (s2 :: r2)).
      rewrite (split_aux_nospace s [] _ Hns). simpl app.
      rewrite (split_aux_space s _ Hne). rewrite (IH HF'). reflexivity.
Qed.

(* the element form gives back any text, the empty one included *)
Lemma text_roundtrip t : text_or_empty (lxml_text t) = t.
Proof. destruct t; reflexivity. Qed.

(* ---- many-valued attributes ---- *)

Lemma not_special_good (vs : list ostr) :
  existsb special vs = false -> Forall good (map unsome vs) /\ map Some (map unsome vs) = vs.
Proof.
  induction vs as [|o vs IH]; intros H; simpl.
  - split; [constructor | reflexivity].
  - simpl in H. apply orb_false_iff in H. destruct H as [Ho Hvs].
    destruct (IH Hvs) as [HF HM]. destruct o as [s|]; simpl in Ho; [|discriminate].
    apply orb_false_iff in Ho. split.
    + constructor; [exact Ho | exact HF].
    + simpl. rewrite HM. reflexivity.
Qed.

Theorem many_roundtrip (vs : list ostr) : decode_many (encode_many vs) = vs.
Proof.
  destruct vs as [|v vs']; [reflexivity|].
  unfold encode_many. destruct (existsb special (v :: vs')) eqn:E.
  - unfold decode_many. remember (v :: vs') as l. clear.
    induction l as [|o l IH]; simpl; [reflexivity|].
    rewrite IH. destruct o as [t|]; [rewrite text_roundtrip|]; reflexivity.
  - destruct (not_special_good _ E) as [HF HM].
    unfold decode_many. rewrite (split_join _ HF). exact HM.
Qed.

(* which form is chosen, spelled out *)
Theorem many_form (vs : list ostr) :
  match encode_many vs with
  | EAbsent => vs = []
  | EAttr t => vs <> [] /\ Forall (fun o => exists s, o = Some s /\ good s) vs
               /\ t = join_sp (map unsome vs)
  | EElems l => l = vs /\ exists o, In o vs /\ special o = true
  end.
Proof.
  destruct vs as [|v vs']; [reflexivity|].
  unfold encode_many. destruct (existsb special (v :: vs')) eqn:E.
  - split; [reflexivity|]. apply existsb_exists in E. exact E.
  - split; [discriminate|]. split; [|reflexivity].
    apply Forall_forall. intros o Ho.
    assert (Hs : special o = false).
    { destruct (special o) eqn:S; [|reflexivity].
      assert (existsb special (v :: vs') = true) by (apply existsb_exists; exists o; split; assumption).
      congruence. }
    destruct o as [s|]; [|discriminate]. exists s. split; [reflexivity|].
    simpl in Hs. apply orb_false_iff in Hs. exact Hs.
Qed.

(* ---- single-valued attributes ---- *)

Lemma str_eqb_eq a : forall b, str_eqb a b = true -> a = b.
Proof.
  induction a as [|x a IH]; intros [|y b] H; simpl in H; try discriminate; [reflexivity|].
  apply andb_true_iff in H. destruct H as [H1 H2]. apply Z.eqb_eq in H1. subst.
  rewrite (IH b H2). reflexivity.
Qed.

Lemma ostr_eqb_eq a b : ostr_eqb a b = true -> a = b.
Proof.
  destruct a as [x|], b as [y|]; simpl; intros H; try discriminate; [|reflexivity].
  rewrite (str_eqb_eq x y H). reflexivity.
Qed.

Theorem single_roundtrip sd dflt v : decode_single dflt (encode_single sd dflt v) = v.
Proof.
  destruct v as [s|]; unfold encode_single.
  - destruct (negb (ostr_eqb (Some s) dflt) || sd) eqn:E; [reflexivity|].
    apply orb_false_iff in E. destruct E as [E _]. apply negb_false_iff in E.
    simpl. symmetry. exact (ostr_eqb_eq _ _ E).
  - destruct (sd || negb (ostr_eqb dflt None)) eqn:E; [reflexivity|].
    apply orb_false_iff in E. destruct E as [_ E]. apply negb_false_iff in E.
    simpl. exact (ostr_eqb_eq _ _ E).
Qed.

(* the same with the default an EAttribute declares: literal, explicit value, or the type's *)
Theorem single_roundtrip_declared sd literal explicit type_default v :
  let d := effective_default literal explicit type_default in
  decode_single d (encode_single sd d v) = v.
Proof. intros d. exact (single_roundtrip sd d v). Qed.

(* writer and reader must agree on the default: a writer that tests against another default
   than the one an absent feature reads as loses the value (the shape of a seeded regression:
   `value == attr.default_value` instead of get_default_value()) *)
Example single_two_defaults_lose_the_value :
  let type_default := Some [48] in            (* '0' *)
  let declared := effective_default (Some [51]) None type_default in     (* literal '3' *)
  decode_single declared (encode_single false type_default (Some [48])) = Some [51].
Proof. vm_compute. reflexivity. Qed.

(* ---- reference lists ---- *)

Lemma has_space_blank s : has_space s = false -> has_blank s = false.
Proof.
  unfold has_space, has_blank. induction s as [|c s IH]; simpl; [reflexivity|].
  intros H. apply orb_false_iff in H. destruct H as [Hc Hs]. rewrite (IH Hs).
  destruct (Z.eqb_spec c 32) as [->|_]; [discriminate Hc | reflexivity].
Qed.

Lemma normalize_good s : good s -> normalize s = s.
Proof. intros [_ H]. unfold normalize. rewrite (has_space_blank s H). reflexivity. Qed.

(* a fragment that stays inside the resource holds no '#' *)
Definition local (s : str) : Prop := good s /\ has_hash s = false.

Lemma drop_qualifiers_local known (l : list str) :
  Forall local l -> drop_qualifiers known l = l.
Proof.
  induction 1 as [|t r Ht HF IH]; simpl; [reflexivity|].
  rewrite IH. destruct r as [|n r']; [reflexivity|].
  inversion HF as [|n' r'' [_ Hn] _]; subst. rewrite Hn.
  rewrite andb_false_r. reflexivity.
Qed.

Theorem refs_roundtrip known (frags : list str) :
  Forall local frags -> decode_refs known (encode_refs frags) = frags.
Proof.
  intros HL. assert (HF : Forall good frags).
  { apply Forall_forall. intros x Hx. rewrite Forall_forall in HL. exact (proj1 (HL x Hx)). }
  destruct frags as [|f r]; [reflexivity|].
  unfold encode_refs, decode_refs. rewrite (split_join _ HF).
  rewrite (drop_qualifiers_local known _ HL).
  remember (f :: r) as l. clear Heql HL. induction HF as [|s l Hs HF IH]; simpl; [reflexivity|].
  pose proof (normalize_good s Hs) as Hn. destruct Hs as [Hne Hns]. rewrite Hne. simpl.
  rewrite Hn, IH. reflexivity.
Qed.

(* single-valued reference: the attribute text is the fragment; load normalises it *)
Theorem ref_single_roundtrip f : good f -> normalize f = f.
Proof. exact (normalize_good f). Qed.

(* every fragment _build_path_from hands out is fit for the list when the URI fragment is *)
Theorem ref_fragment_good id uf : good uf -> good (ref_fragment id uf).
Proof.
  intros Hu. unfold ref_fragment. destruct id as [s|]; [|exact Hu].
  destruct (usable_id s) eqn:E; [|exact Hu].
  unfold usable_id in E. repeat (apply andb_true_iff in E; destruct E as [E ?]).
  split; apply negb_true_iff; assumption.
Qed.

Theorem ref_fragment_local id uf : local uf -> local (ref_fragment id uf).
Proof.
  intros [Hu Hh]. split; [exact (ref_fragment_good id uf Hu)|].
  unfold ref_fragment. destruct id as [s|]; [|exact Hh].
  destruct (usable_id s) eqn:E; [|exact Hh].
  unfold usable_id in E. repeat (apply andb_true_iff in E; destruct E as [E ?]).
  unfold has_hash. apply negb_true_iff. assumption.
Qed.

(* an id that is used never reads as a path or as an external reference *)
Theorem ref_fragment_id_shape s uf :
  ref_fragment (Some s) uf = s \/ ref_fragment (Some s) uf = uf.
Proof. unfold ref_fragment. destruct (usable_id s); [left | right]; reflexivity. Qed.
