(* C05: observers can mirror the model from notifications alone — the
   attribute half: for a feature that is not a reference, every accepted
   operation changes exactly the addressed slot and appends exactly the
   notification(s) that describe that change. *)
From Coq Require Import ZArith List Bool Arith Lia.
From PyecoreV Require Import Lib.PyBase Lib.PyList Model.Kernel Proofs.PyListFacts Proofs.KernelFacts.
Import ListNotations.
Open Scope nat_scope.

Definition mk (m : mm) (s : state) (x : oid) (f : fid) (k : nkind) (old new : payload) : notif :=
  {| n_obj := x; n_feat := f; n_kind := k; n_old := old; n_new := new; n_res := eresource_of m s x |}.

Section Attr.
Variable m : mm.
Variable f : fid.
Hypothesis Hattr : f_isref (fd m f) = false.

Lemma link_elem_attr s x v : link_elem m s x f v = s.
Proof. unfold link_elem. rewrite Hattr. reflexivity. Qed.

Lemma unlink_elem_attr s x v : unlink_elem m s x f v = s.
Proof. unfold unlink_elem. rewrite Hattr. reflexivity. Qed.

Lemma fold_unlink_attr s x l : fold_left (fun acc v => unlink_elem m acc x f v) l s = s.
Proof. induction l as [|v l IH]; simpl; [reflexivity|]. rewrite unlink_elem_attr. exact IH. Qed.

Lemma fold_link_attr s x l : fold_left (fun acc v => link_elem m acc x f v) l s = s.
Proof. induction l as [|v l IH]; simpl; [reflexivity|]. rewrite link_elem_attr. exact IH. Qed.

(* x.f = v  (also unset and del, which assign None / the default) *)
Theorem attr_set s x v :
  check_single m f v = true ->
  let s' := snd (set_full m s (x, f) v) in
  vals s' = upd (vals s) (x, f) [v] /\
  log s' = mk m (set_vals s (x, f) [v]) x f (match v with VNone => KUnset | _ => KSet end)
              (POne (single s (x, f))) (POne v) :: log s /\
  cont s' = cont s /\ rcont s' = rcont s /\ eres s' = eres s.
Proof.
  intros Hc. unfold set_full. rewrite Hc, Hattr. cbn [negb snd]. repeat split; reflexivity.
Qed.

(* append / add / insert *)
Theorem attr_add s x pos v :
  check_elem m f v = true ->
  let s' := snd (coll_add_full m s (x, f) pos v) in
  let l' := match pos with
            | Some i => raw_insert (f_unique (fd m f)) i v (vals s (x, f))
            | None => raw_append (f_unique (fd m f)) v (vals s (x, f)) end in
  vals s' = upd (vals s) (x, f) l' /\
  log s' = mk m (set_vals s (x, f) l') x f KAdd (POne VNone) (POne v) :: log s.
Proof.
  intros Hc. unfold coll_add_full. rewrite Hc. cbn [negb snd]. rewrite link_elem_attr.
  split; reflexivity.
Qed.

(* remove *)
Theorem attr_remove s x v :
  vmem v (vals s (x, f)) = true ->
  let s' := snd (coll_remove_top m s (x, f) v) in
  let l' := raw_remove v (vals s (x, f)) in
  vals s' = upd (vals s) (x, f) l' /\
  log s' = mk m (set_vals s (x, f) l') x f KRemove (POne v) (POne VNone) :: log s.
Proof.
  intros Hm. unfold coll_remove_top. rewrite Hm. cbn [snd]. unfold coll_remove_full. rewrite Hattr.
  split; reflexivity.
Qed.

(* pop / unique del c[i] *)
Theorem attr_pop s x i v l' :
  py_pop i (vals s (x, f)) = Some (v, l') ->
  let r := coll_pop_full m s (x, f) i in
  vals (snd (fst r)) = upd (vals s) (x, f) l' /\
  log (snd (fst r)) = mk m (set_vals s (x, f) l') x f KRemove (POne v) (POne VNone) :: log s /\
  snd r = Some v /\ fst (fst r) = None.
Proof.
  intros Hp. unfold coll_pop_full.
  destruct (vals s (x, f)) as [|a l] eqn:El.
  { rewrite py_pop_nil in Hp. discriminate. }
  rewrite Hp. cbn [fst snd]. rewrite unlink_elem_attr. repeat split; reflexivity.
Qed.

(* clear / del x.f on a collection: one REMOVE_MANY carrying everything, or nothing at all when empty *)
Theorem attr_clear s x :
  let s' := coll_clear_full m s (x, f) in
  match vals s (x, f) with
  | [] => s' = s
  | l => vals s' = upd (vals s) (x, f) [] /\
         log s' = mk m (set_vals s (x, f) []) x f KRemoveMany (PMany l) (PMany []) :: log s
  end.
Proof.
  unfold coll_clear_full. destruct (vals s (x, f)) as [|a l] eqn:El; [reflexivity|].
  rewrite fold_unlink_attr. split; reflexivity.
Qed.

(* extend / update / += : one ADD_MANY carrying the argument *)
Theorem attr_extend s x vs :
  forallb (check_elem m f) vs = true ->
  let s' := snd (coll_extend_full m s (x, f) vs) in
  let l' := if f_unique (fd m f)
            then fold_left (fun acc v => raw_append true v acc) vs (vals s (x, f))
            else vals s (x, f) ++ vs in
  vals s' (x, f) = l' /\
  (forall k, k <> (x, f) -> vals s' k = vals s k) /\
  exists s0, log s' = mk m s0 x f KAddMany (POne VNone) (PMany vs) :: log s.
Proof.
  intros Hc. unfold coll_extend_full. rewrite Hc. cbn [negb snd].
  destruct (f_unique (fd m f)).
  - assert (G : forall l s0,
       let sf := fold_left (fun acc v => link_elem m (set_vals acc (x, f) (raw_append true v (vals acc (x, f)))) x f v) l s0 in
       vals sf (x, f) = fold_left (fun acc v => raw_append true v acc) l (vals s0 (x, f)) /\
       (forall k, k <> (x, f) -> vals sf k = vals s0 k) /\ log sf = log s0).
    { induction l as [|v l IH]; intros s0; simpl; [repeat split; reflexivity|].
      rewrite link_elem_attr.
      destruct (IH (set_vals s0 (x, f) (raw_append true v (vals s0 (x, f))))) as [H1 [H2 H3]].
      cbn [vals set_vals log] in *. rewrite upd_same in H1. split; [exact H1|]. split; [|exact H3].
      intros k Hk. rewrite (H2 k Hk). apply upd_other. congruence. }
    destruct (G vs s) as [H1 [H2 H3]]. cbn [vals log notify push_log set_isset].
    split; [exact H1|]. split; [exact H2|]. eexists. rewrite H3. reflexivity.
  - rewrite fold_link_attr. cbn [vals log notify push_log set_isset set_vals].
    split; [apply upd_same|]. split; [intros k Hk; apply upd_other; congruence|].
    eexists. reflexivity.
Qed.

End Attr.
