"""C14 — references across resources reach the right object after a reload.

Corners:
  oracle (implementation only): pairs/triples of generated models over a small metamodel, with cross-resource
      references (single, many, mixed with local targets, with and without opposites), saved under generated directory
      layouts as XMI and as JSON; ONE of them is loaded in a fresh ResourceSet, every reference is followed and compared
      with direct navigation of the other resource obtained from the same ResourceSet: ==, hash, identity of
      force_resolve()/_wrapped, reads/writes through the reference, in/index on the collection, order of targets,
      the opposite end, deletion through the reference.  Failing cases are shrunk (layout -> same directory, links,
      targets, opposites, resources removed) before their signature is computed.
  correspondence:
      (a) coq/Model/Paths.v (extracted: run_paths) against os.path.normpath/dirname/join/relpath and against
          pyecore's URI.normalize/relative_from_me/apply_relative_from_me on generated absolute paths,
      (b) coq/Model/Proxy.v + Lib/PyDict.v (extracted: run_proxy) against real EProxy objects and a real
          EOrderedSet: scripts of force_resolve / hash / == / attribute read / write / add / in / index.
  theorems: coq/Props/C14.v."""
import itertools
import json
import os
import random
import shutil
import tempfile
import time

from harness import common

NS = 'http://verif/c14/m'

# feature -> (many, opposite feature or None)
REFS = {
    'one': (False, None), 'many': (True, None), 'lst': (True, None),      # lst: many-valued, NOT unique (a list)
    'fwd': (True, 'bwd'), 'bwd': (True, 'fwd'),
    'boss': (False, 'staff'), 'staff': (True, 'boss'),
    'left': (False, 'right'), 'right': (False, 'left'),
}
PLAIN_OF = {'fwd': 'many', 'bwd': 'many', 'staff': 'many', 'boss': 'one', 'left': 'one', 'right': 'one'}


def pye():
    common.use_repo()
    import pyecore.ecore as E
    return E


def make_mm():
    E = pye()
    p = E.EPackage('m', nsURI=NS, nsPrefix='m')
    N = E.EClass('N')
    p.eClassifiers.append(N)
    N.eStructuralFeatures.append(E.EAttribute('name', E.EString))
    N.eStructuralFeatures.append(E.EAttribute('val', E.EInt))
    N.eStructuralFeatures.append(E.EReference('kids', N, upper=-1, containment=True))
    feats = {}
    for n, (many, opp) in REFS.items():
        feats[n] = E.EReference(n, N, upper=-1 if many else 1, unique=(n != 'lst'))
        N.eStructuralFeatures.append(feats[n])
    for n, (many, opp) in REFS.items():
        if opp and feats[n].eOpposite is None:
            feats[n].eOpposite = feats[opp]
    return p, N


_MM = {}


def fresh_rset(fmt, side='load'):
    """A fresh ResourceSet; the (never modified) metamodel is built once per side: the saving side and the loading
    side use two independent copies registered under the same nsURI."""
    common.use_repo()
    from pyecore.resources import ResourceSet
    from pyecore.resources.json import JsonResource
    rs = ResourceSet()
    if side not in _MM:
        _MM[side] = make_mm()
    p, N = _MM[side]
    rs.metamodel_registry[NS] = p
    if fmt == 'json':
        rs.resource_factory['json'] = lambda uri: JsonResource(uri)
    return rs, N


def scratch():
    p = os.path.join(common.BUILD, 'scratch')
    os.makedirs(p, exist_ok=True)
    return p


# --------------------------------------------------------------------------- cases

DIRS = ['a', 'b', 'dir.x', 'data-1', 'm_n', 'deep', 'my dir', 'x y z']      # (directory and file names may hold spaces)
LAYOUTS = ('same-dir', 'sibling-dirs', 'nested', 'dotdot')


TOUCHES = ['read', 'write', 'eq', 'hash', 'in', 'force_resolve', 'isinstance']


def first_touch(case, on, f, i):
    t = case.get('touch', 'read')
    if t == 'random':
        t = random.Random(f'{case.get("touch_seed", 0)}:{on}:{f}:{i}').choice(TOUCHES)
    return t


def gen_layout(rng, kind, n, ext):
    """n relative file paths (below the case's temporary root)"""
    names = rng.sample(['one', 'two', 'three', 'model.v2', 'x-y', 'b c'], n)
    d = rng.sample(DIRS, 4)
    if kind == 'same-dir':
        base = rng.choice(['', d[0], d[0] + '/' + d[1]])
        dirs = [base] * n
    elif kind == 'sibling-dirs':
        dirs = [d[i % 3] for i in range(n)]
        if n == 3 and rng.random() < 0.5:
            dirs[2] = dirs[0]
    elif kind == 'nested':
        dirs = [d[0], d[0] + '/' + d[1] + '/' + d[2], d[0] + '/' + d[1]][:n]
        rng.shuffle(dirs)
    else:  # dotdot: the way from one to the other goes up at least two levels
        dirs = [d[0] + '/' + d[1] + '/' + d[2], d[3], d[0] + '/' + d[3]][:n]
        rng.shuffle(dirs)
    return [(x + '/' if x else '') + nm + '.' + ext for x, nm in zip(dirs, names)]


def gen_case(rng):
    fmt = rng.choice(['xmi', 'json'])
    nres = rng.choice([2, 2, 3])
    kind = rng.choice(LAYOUTS)
    nk = [rng.randint(1, 3) for _ in range(nres)]
    objs = [(r, k) for r in range(nres) for k in range(-1, nk[r])]
    links = []
    used_single = set()
    for _ in range(rng.randint(1, 6)):
        feat = rng.choice(['one', 'one', 'many', 'many', 'lst', 'lst', 'fwd', 'fwd', 'bwd', 'boss', 'staff', 'left'])
        src = rng.choice(objs)
        many, opp = REFS[feat]
        if (tuple(src), feat) in used_single:
            continue
        cross = [o for o in objs if o[0] != src[0]]
        local = [o for o in objs if o[0] == src[0] and o != src]
        if many:
            n = rng.randint(1, 4)
            pool = cross * 2 + (local if rng.random() < 0.6 else [])
            tg = []
            for _ in range(n):
                t = rng.choice(pool)
                if t not in tg:
                    tg.append(t)
        else:
            tg = [rng.choice(cross if rng.random() < 0.8 or not local else local)]
        used_single.add((tuple(src), feat))
        links.append({'src': list(src), 'feat': feat, 'targets': [list(t) for t in tg]})
    return {'format': fmt, 'layout': {'kind': kind, 'paths': gen_layout(rng, kind, nres, fmt)},
            'kids': nk, 'links': links, 'load': rng.randrange(nres),
            'spelling': rng.choice(['plain', 'plain', 'dotted', 'relative']),
            'delete_pick': rng.randrange(100),
            # how every followed proxy is touched FIRST, and how the deletion clause deletes
            'touch': rng.choice(['random', 'random', 'random'] + TOUCHES), 'touch_seed': rng.randrange(1 << 20),
            'delete_mode': rng.choice(['through', 'direct']),
            'delete_recursive': rng.random() < 0.6}


def oname(o):
    r, k = o
    return f'r{r}' if k < 0 else f'r{r}k{k}'


def build_and_save(case, root):
    """Build the resources in one ResourceSet, apply the links, save everything.
    -> expected: {object name: {feature: [target names in order]}}"""
    from pyecore.resources import URI
    rs, N = fresh_rset(case['format'], side='save')
    objs = {}
    resources = []
    for r, rel in enumerate(case['layout']['paths']):
        path = os.path.join(root, rel)
        os.makedirs(os.path.dirname(path), exist_ok=True)
        res = rs.create_resource(URI(path))
        top = N(name=f'r{r}', val=r * 100)
        objs[(r, -1)] = top
        for k in range(case['kids'][r]):
            kid = N(name=f'r{r}k{k}', val=r * 100 + k + 1)
            top.kids.append(kid)
            objs[(r, k)] = kid
        res.append(top)
        resources.append(res)
    for ln in case['links']:
        src = objs[tuple(ln['src'])]
        many, _ = REFS[ln['feat']]
        for t in ln['targets']:
            if many:
                src.eGet(ln['feat']).append(objs[tuple(t)])
            else:
                src.eSet(ln['feat'], objs[tuple(t)])
    expected = {}
    for key, o in objs.items():
        e = {}
        for f, (many, _) in REFS.items():
            v = o.eGet(f)
            vals = list(v) if many else ([v] if v is not None else [])
            e[f] = [x.name for x in vals]
        expected[oname(key)] = e
    for res in resources:
        res.save()
    return expected


def where(case, name):
    """object name -> (resource index, kid index)"""
    r = int(name[1:].split('k')[0])
    k = int(name.split('k')[1]) if 'k' in name else -1
    return r, k


def shape_of(case, expected, owner, feat):
    many, opp = REFS[feat]
    ro = where(case, owner)[0]
    tg = expected[owner][feat]
    loc = [t for t in tg if where(case, t)[0] == ro]
    s = ('many-nonunique' if feat == 'lst' else 'many') if many else 'single'
    if many and loc and len(loc) < len(tg):
        s += '-mixed'
    if opp:
        s += '-opposite'
    return s


class Fail(Exception):
    pass


def evaluate(case, stats=None):
    """-> list of failures {'clause','shape','what'} (at most one per clause and shape)"""
    from pyecore.resources import URI
    E = pye()
    fails = []
    seen = set()

    def fail(clause, shape, what):
        if (clause, shape) not in seen:
            seen.add((clause, shape))
            fails.append({'clause': clause, 'shape': shape, 'what': what})

    root = tempfile.mkdtemp(prefix='c14_', dir=scratch())
    try:
        expected = build_and_save(case, root)
        paths = [os.path.join(root, rel) for rel in case['layout']['paths']]
        fmt = case['format']
        rs, N = fresh_rset(fmt)
        lp = paths[case['load']]
        if case.get('spelling') == 'dotted':
            d, b = os.path.split(lp)
            lp = os.path.join(d, '.', '..', os.path.basename(d), b) if os.path.basename(d) else lp
        elif case.get('spelling') == 'relative':
            lp = os.path.relpath(lp)          # relative to the current directory of the check
        try:
            L = rs.get_resource(URI(lp))
        except Exception as e:
            fail('load', 'any', f'loading {case["layout"]["paths"][case["load"]]} raises {type(e).__name__}: {e}'[:300])
            return fails
        lroot = L.contents[0]
        lobjs = {lroot.name: lroot}
        for kid in lroot.kids:
            lobjs[kid.name] = kid
        li = case['load']
        nfollowed = 0
        touches = {}
        nwritten = [0]
        written_by = {}          # id(proxy) -> value written through it as its first touch
        writers = []
        cross_refs = []          # (owner obj, owner name, feat, index, value, target name)
        # ---- phase 1: follow every reference of the loaded resource, by position
        for oname_, o in lobjs.items():
            for f, (many, opp) in REFS.items():
                exp = expected[oname_][f]
                sh = shape_of(case, expected, oname_, f)
                try:
                    v = o.eGet(f)
                    vals = list(v) if many else ([v] if v is not None else [])
                except Exception as e:
                    fail('reach', sh, f'{oname_}.{f}: reading raises {type(e).__name__}: {e}'[:300])
                    continue
                try:
                    # the FIRST use of every loaded proxy is one of TOUCHES (each resolves along its own code path,
                    # or not at all); only then the names are read
                    for i, x in enumerate(vals):
                        if isinstance(x, E.EProxy) and not x.resolved:
                            t = first_touch(case, oname_, f, i)
                            touches[t] = touches.get(t, 0) + 1
                            if t == 'read':
                                x.val
                            elif t == 'write':
                                nwritten[0] += 1
                                x.val = 5000 + nwritten[0]
                                written_by[id(x)] = 5000 + nwritten[0]
                                writers.append(x)
                            elif t == 'eq':
                                x == o
                            elif t == 'hash':
                                hash(x)
                            elif t == 'in':
                                (o in v) if many else (x == o)
                            elif t == 'force_resolve':
                                x.force_resolve()
                            else:
                                isinstance(x, N)
                    got = [x.name for x in vals]
                except Exception as e:
                    fail('reach', sh, f'{oname_}.{f}: following raises {type(e).__name__}: {e}'[:300])
                    continue
                nfollowed += len(vals)
                if got != exp:
                    if sorted(got) == sorted(exp):
                        fail('order', sh, f'{oname_}.{f}: saved {exp} loaded {got}')
                    elif sorted(set(got)) == sorted(set(exp)) and len(got) > len(exp):
                        fail('duplicate', sh, f'{oname_}.{f}: saved {exp} loaded {got}')
                    else:
                        fail('targets', sh, f'{oname_}.{f}: saved {exp} loaded {got}')
                    continue
                for i, (x, tn) in enumerate(zip(vals, exp)):
                    if where(case, tn)[0] != li:
                        cross_refs.append((o, oname_, f, i, x, tn))
        # ---- the other resources, as the same ResourceSet gives them now
        direct = {}
        touched = sorted({where(case, c[5])[0] for c in cross_refs})
        for r in touched:
            before = {id(x) for x in rs.resources.values()}
            try:
                other = rs.get_resource(URI(paths[r]))
            except Exception as e:
                fail('reach', 'any', f'get_resource({case["layout"]["paths"][r]}) raises {type(e).__name__}: {e}'[:300])
                continue
            if id(other) not in before:
                fail('reload', 'any', f'{case["layout"]["paths"][r]} was loaded a second time by get_resource after '
                                      f'a reference into it had been followed')
            top = other.contents[0]
            direct[top.name] = top
            for kid in top.kids:
                direct[kid.name] = kid
        by_path = {}
        for x in rs.resources.values():
            by_path.setdefault(x.uri.normalize(), set()).add(id(x))
        twice = sorted(os.path.relpath(k, root) for k, v in by_path.items() if len(v) > 1)
        if twice:
            fail('reload', 'any', f'more than one resource object for {twice}')
        # ---- phase 2: read-only comparison with direct navigation
        last_written = {}        # per target instance: several proxies of one target may have written
        for x in writers:
            t = id(x.force_resolve())
            last_written[t] = max(last_written.get(t, 0), written_by[id(x)])
        for o, on, f, i, x, tn in cross_refs:
            many, opp = REFS[f]
            sh = shape_of(case, expected, on, f)
            d = direct.get(tn)
            if d is None:
                continue
            try:
                if id(x) in written_by and d.val != last_written.get(id(d)):
                    fail('write', sh, f'the value written through {on}.{f}[{i}] as its first use is not on {tn}')
                if not (x == d and d == x and not (x != d)):
                    fail('eq', sh, f'{on}.{f}[{i}] does not compare equal to {tn} navigated directly')
                if hash(x) != hash(d):
                    fail('hash', sh, f'hash({on}.{f}[{i}]) != hash({tn})')
                if x.force_resolve() is not d or getattr(x, '_wrapped', d) is not d:
                    fail('identity', sh, f'{on}.{f}[{i}] resolves to another instance than {tn} navigated directly')
                if x.val != d.val or x.name != d.name or x.eContainer() is not d.eContainer():
                    fail('read', sh, f'{on}.{f}[{i}] reads differently from {tn}')
                if many:
                    coll = o.eGet(f)
                    ok_in = d in coll
                    try:
                        ok_idx = coll.index(d) == i
                    except (KeyError, ValueError):
                        ok_idx = False
                    ok_self = x in coll
                    if not (ok_in and ok_idx):      # ok_self depends on addresses (see proxy_corr): information
                        fail('member', sh, f'{tn} in {on}.{f}: {ok_in}; index({tn}) == {i}: {ok_idx}')
                else:
                    if not (o.eGet(f) == d):
                        fail('member', sh, f'{on}.{f} == {tn} is False')
                if opp:
                    om, _ = REFS[opp]
                    back = d.eGet(opp)
                    bl = list(back) if om else ([back] if back is not None else [])
                    hits = [b for b in bl if b.force_resolve() is o]
                    if len(hits) == 0:
                        fail('opposite', sh, f'{tn}.{opp} does not hold the loaded {on}')
                    elif len(hits) > 1:
                        fail('duplicate', sh, f'{tn}.{opp} holds {on} {len(hits)} times')
            except Exception as e:
                fail('reach', sh, f'{on}.{f}[{i}]: {type(e).__name__}: {e}'[:300])
        # ---- phase 3: writes through the reference / on the instance
        for n, (o, on, f, i, x, tn) in enumerate(cross_refs):
            d = direct.get(tn)
            if d is None:
                continue
            sh = shape_of(case, expected, on, f)
            try:
                x.val = 7000 + n
                if d.val != 7000 + n:
                    fail('write', sh, f'a write through {on}.{f}[{i}] is not visible on {tn}')
                d.name = f'{tn}_w{n}'
                if x.name != f'{tn}_w{n}':
                    fail('write', sh, f'a write on {tn} is not visible through {on}.{f}[{i}]')
                d.name = tn
            except Exception as e:
                fail('write', sh, f'{on}.{f}[{i}]: {type(e).__name__}: {e}'[:300])
        # ---- phase 4: deletion, through one reference or of the target directly
        if cross_refs:
            o, on, f, i, x, tn = cross_refs[case.get('delete_pick', 0) % len(cross_refs)]
            d = direct.get(tn)
            many, opp = REFS[f]
            sh = shape_of(case, expected, on, f)
            mode = case.get('delete_mode', 'through')
            if d is not None:
                # collections that hold the target (or something it contains: delete() is recursive) under a stale
                # hash: the membership defect. It explains a delete() that raises, and a reference left in THOSE
                # collections; anything else keeps the shape of the reference the deletion went through
                recursive = case.get('delete_recursive', True)

                def content_view():
                    # what the contents of the target hold and who refers to them (by name): untouched by delete(recursive=False)
                    v = {}
                    for c in d.eAllContents():
                        own = {f2: [getattr(y.force_resolve() if isinstance(y, E.EProxy) else y, 'name', None)
                                    for y in (list(c.eGet(f2)) if m2 else ([c.eGet(f2)] if c.eGet(f2) is not None else []))
                                    if (y.force_resolve() if isinstance(y, E.EProxy) else y) is not d]   # (what refers to d goes)
                               for f2, (m2, _) in REFS.items()}
                        refd = sorted((on2, f2) for on2, o2 in lobjs.items() for f2, (m2, _) in REFS.items()
                                      for y in (list(o2.eGet(f2)) if m2 else ([o2.eGet(f2)] if o2.eGet(f2) is not None else []))
                                      if (y.force_resolve() if isinstance(y, E.EProxy) else y) is c and o2 is not d)
                        v[c.name] = (own, refd)
                    return v
                before_contents = content_view() if not recursive else None
                doomed = [d] + list(d.eAllContents())
                stale = set()
                for on2, o2 in lobjs.items():
                    for f2, (m2, _) in REFS.items():
                        if m2:
                            c2 = o2.eGet(f2)
                            # (the probe is the TARGET of a held proxy: deterministic, unlike the proxy itself)
                            has_stale = any(isinstance(y, E.EProxy) and y.force_resolve() not in c2 for y in c2)
                            if has_stale and any(y.force_resolve() is dd for y in c2 for dd in doomed):
                                stale.add((on2, f2))     # removing from it fails, or corrupts its index
                how = f'delete() through {on}.{f}[{i}]' if mode == 'through' else f'{tn}.delete() (reached by {on}.{f}[{i}])'
                if not recursive:
                    how += ' with recursive=False'
                try:
                    parent = d.eContainer()
                    contents = list(d.eAllContents())
                    if mode == 'through':
                        x.delete() if recursive else x.delete(recursive=False)
                    else:
                        d.delete() if recursive else d.delete(recursive=False)
                    problems = []
                    left_in = []
                    if not recursive and not stale:
                        after = {}
                        for c in contents:
                            own = {f2: [getattr(y.force_resolve() if isinstance(y, E.EProxy) else y, 'name', None)
                                        for y in (list(c.eGet(f2)) if m2 else ([c.eGet(f2)] if c.eGet(f2) is not None else []))
                                        if (y.force_resolve() if isinstance(y, E.EProxy) else y) is not d]
                                   for f2, (m2, _) in REFS.items()}
                            refd = sorted((on2, f2) for on2, o2 in lobjs.items() for f2, (m2, _) in REFS.items()
                                          for y in (list(o2.eGet(f2)) if m2 else ([o2.eGet(f2)] if o2.eGet(f2) is not None else []))
                                          if (y.force_resolve() if isinstance(y, E.EProxy) else y) is c and o2 is not d)
                            after[c.name] = (own, refd)
                        # references held BY the deleted object itself are cleared (also those to its contents: kids)
                        changed = [n for n in before_contents
                                   if {k: v for k, v in before_contents[n][0].items()} != {k: v for k, v in after.get(n, ({}, []))[0].items()}
                                   or before_contents[n][1] != after.get(n, ({}, []))[1]]
                        if changed:
                            problems.append(f'delete(recursive=False) touched the contents {changed[:3]} of {tn} '
                                            f'(before {[before_contents[c] for c in changed[:1]]}, after {[after.get(c) for c in changed[:1]]})')
                    if parent is not None and any(k is d for k in parent.kids):
                        problems.append(f'{tn} is still a child of its container')
                    if parent is not None and d.eContainer() is not None:
                        problems.append(f'{tn} still has a container')
                    for on2, o2 in lobjs.items():
                        for f2, (m2, _) in REFS.items():
                            v2 = o2.eGet(f2)
                            for y in (list(v2) if m2 else ([v2] if v2 is not None else [])):
                                if y.force_resolve() is d:
                                    left_in.append((on2, f2))
                    explained = not problems and left_in and all(k in stale for k in left_in)
                    for on2, f2 in sorted(set(left_in)):
                        problems.append(f'{on2}.{f2} still reaches {tn}')
                    if problems:
                        if explained:
                            sh = STALE
                        elif left_in:
                            k = sorted(k for k in set(left_in) if k not in stale)
                            if k:
                                sh = shape_of(case, expected, k[0][0], k[0][1])
                        fail('delete', sh, f'{how}: ' + '; '.join(problems[:3]))
                except Exception as e:
                    import traceback as _tb
                    in_oset = any('ordered_set' in (fr.filename or '') for fr in _tb.extract_tb(e.__traceback__))
                    if isinstance(e, (KeyError, RuntimeError)) and (stale or in_oset):
                        # OrderedSet.remove/discard on a stale key: KeyError, or the index dict grows while it is walked
                        # (raised from inside ordered_set: the membership defect, whatever the probe above saw)
                        sh = STALE
                    fail('delete', sh, f'{how} raises {type(e).__name__}: {e}'[:300])
        if stats is not None:
            stats['refs_followed'] = stats.get('refs_followed', 0) + nfollowed
            stats['cross_refs_compared'] = stats.get('cross_refs_compared', 0) + len(cross_refs)
            ft = stats.setdefault('first_touches', {})
            for k, v in touches.items():
                ft[k] = ft.get(k, 0) + v
            if cross_refs:
                dm = stats.setdefault('deletions', {})
                dm[case.get('delete_mode', 'through')] = dm.get(case.get('delete_mode', 'through'), 0) + 1
            for c in cross_refs:
                sh = shape_of(case, expected, c[1], c[2])
                stats.setdefault('cross_refs_by_shape', {})
                stats['cross_refs_by_shape'][sh] = stats['cross_refs_by_shape'].get(sh, 0) + 1
    finally:
        shutil.rmtree(root, ignore_errors=True)
    return fails


# --------------------------------------------------------------------------- shrinking

def _variants(case):
    """smaller cases, most aggressive first"""
    out = []
    c = json.loads(json.dumps(case))
    if c['layout']['kind'] != 'same-dir':
        c2 = json.loads(json.dumps(c))
        c2['layout'] = {'kind': 'same-dir', 'paths': [os.path.basename(p) for p in c['layout']['paths']]}
        out.append(c2)
    if c.get('spelling') != 'plain':
        c2 = json.loads(json.dumps(c))
        c2['spelling'] = 'plain'
        out.append(c2)
    for i in range(len(c['links'])):
        c2 = json.loads(json.dumps(c))
        del c2['links'][i]
        out.append(c2)
    for i, ln in enumerate(c['links']):
        for j in range(len(ln['targets'])):
            if len(ln['targets']) > 1:
                c2 = json.loads(json.dumps(c))
                del c2['links'][i]['targets'][j]
                out.append(c2)
        if ln['feat'] in PLAIN_OF:
            c2 = json.loads(json.dumps(c))
            c2['links'][i]['feat'] = PLAIN_OF[ln['feat']]
            if not any(k != i and l2['src'] == ln['src'] and l2['feat'] == c2['links'][i]['feat']
                       for k, l2 in enumerate(c['links'])):
                out.append(c2)
    # drop the last resource when nothing mentions it
    n = len(c['kids'])
    if n > 2 and c['load'] != n - 1 and not any(
            ln['src'][0] == n - 1 or any(t[0] == n - 1 for t in ln['targets']) for ln in c['links']):
        c2 = json.loads(json.dumps(c))
        c2['kids'].pop()
        c2['layout']['paths'].pop()
        out.append(c2)
    # fewer children
    for r in range(n):
        k = c['kids'][r] - 1
        if k >= 0 and not any((ln['src'][0] == r and ln['src'][1] == k) or any(t == [r, k] for t in ln['targets'])
                              for ln in c['links']):
            c2 = json.loads(json.dumps(c))
            c2['kids'][r] = k
            out.append(c2)
    return out


STALE = 'target-held-under-stale-hash'


def same_kind(f, clause, shape):
    """a shrunk failure must keep the clause, and must not slip into (or out of) the stale-hash explanation"""
    return f['clause'] == clause and ((f['shape'] == STALE) == (shape == STALE))


def shrink(case, clause, budget_s=6.0, shape=None):
    t0 = time.time()
    cur = case
    progress = True
    while progress and time.time() - t0 < budget_s:
        progress = False
        for v in _variants(cur):
            if time.time() - t0 > budget_s:
                break
            try:
                fs = evaluate(v)
            except Exception:
                continue
            if any(same_kind(f, clause, shape) for f in fs):
                cur = v
                progress = True
                break
    return cur


# --------------------------------------------------------------------------- correspondence (a): paths

SEGS = ['a', 'b', 'dir.x', 'x-1', '..a', 'a..', '.h', 'é', 'one.xmi', 'two.json']


def cps(s):
    return [len(s)] + [ord(c) for c in s]


def from_cps(t):
    return ''.join(chr(c) for c in t)


def path_corr(ctx, out, model, thorough):
    import posixpath
    from pyecore.resources import URI
    n = 0
    diffs = 0
    dist = {}

    def cmp(op, name, args, want):
        nonlocal n, diffs
        toks = [op]
        for a in args:
            toks += cps(a)
        got = from_cps(model.ask('paths', toks))
        n += 1
        dist[name] = dist.get(name, 0) + 1
        if got != want:
            diffs += 1
            out.diff(f'paths model vs implementation: {name}{tuple(args)} model {got!r} implementation {want!r}',
                     {'op': name, 'args': list(args)})

    # exhaustive: every absolute path over {a, b, '.', '..', ''} up to 4 segments (also a trailing slash)
    alpha = ['a', 'b', '.', '..', '']
    small = []
    for k in range(0, 5):
        for tup in itertools.product(alpha, repeat=k):
            s = '/' + '/'.join(tup)
            if s.startswith('//') and not s.startswith('///'):
                continue          # exactly two leading slashes: implementation-defined in POSIX, not modelled
            small.append(s)
    for s in small:
        cmp(1, 'normpath', [s], posixpath.normpath(s))
        if not s.startswith('//'):      # a head made of slashes only is kept as it is: outside the model
            cmp(2, 'dirname', [s], posixpath.dirname(s))
        cmp(5, 'URI.normalize', [s], URI(s).normalize())
    rng = ctx.rng
    rels = ['x', '../x', '../../y/z', './x', 'x/../y', '', '.', '..', 'a//b', 'a/', '/abs/p']
    for s in rng.sample(small, min(len(small), 300 if not thorough else len(small))):
        for r in rng.sample(rels, 4):
            cmp(3, 'join', [s, r], posixpath.join(s, r))
    pairs = 2500 if not thorough else 30000
    for _ in range(pairs):
        def rnd():
            k = rng.randint(0, 5)
            segs = [rng.choice(SEGS if rng.random() < 0.85 else ['.', '..', '']) for _ in range(k)]
            s = '/' + '/'.join(segs)
            if rng.random() < 0.1:
                s += '/'
            if s.startswith('//') and not s.startswith('///'):
                s = '/' + s.lstrip('/')
            return s
        a, b = rnd(), rnd()
        cmp(4, 'relpath', [a, b], posixpath.relpath(a, b))
        ua, ub = URI(a), URI(b)
        rel = ua.relative_from_me(ub)
        cmp(6, 'URI.relative_from_me', [a, b], rel)
        cmp(7, 'URI.apply_relative_from_me', [a, rel], ua.apply_relative_from_me(rel))
        cmp(8, 'roundtrip', [a, b], URI(ua.apply_relative_from_me(ua.relative_from_me(ub))).normalize())
        # the property of the path algebra, on the implementation
        if URI(ua.apply_relative_from_me(ua.relative_from_me(ub))).normalize() != ub.normalize():
            out.fail({'property': 'C14', 'clause': 'path-roundtrip', 'format': 'any', 'layout': 'any', 'shape': 'any'},
                     f'URI({a!r}): apply_relative_from_me(relative_from_me({b!r})) normalises to '
                     f'{URI(ua.apply_relative_from_me(ua.relative_from_me(ub))).normalize()!r}',
                     {'kind': 'paths', 'a': a, 'b': b})
    return n, dist


# --------------------------------------------------------------------------- correspondence (b): proxies and the set

def proxy_corr(ctx, out, model, thorough):
    E = pye()
    from pyecore.resources import URI
    from pyecore.resources.xmi import XMIResource
    p, N = make_mm()
    rng = ctx.rng
    nscripts = 400 if not thorough else 5000
    nops = 0
    stale_skips = 0
    dist = {}
    names = {1: 'force_resolve', 2: 'hash==', 3: '==', 4: 'read', 5: 'write', 6: 'add', 7: 'in', 8: 'index',
             9: 'any=='}
    for sc in range(nscripts):
        n = rng.randint(1, 3)
        np_ = rng.randint(1, 3)
        paths = [rng.randint(1, n + 1) if rng.random() < 0.85 else n + 1 for _ in range(np_)]
        top = N(name='top')
        kids = []
        for i in range(1, n + 1):
            k = N(name=f'k{i}', val=100 + i)
            top.kids.append(k)
            kids.append(k)
        res = XMIResource(URI('mem.xmi'))
        res.append(top)
        proxies = [E.EProxy(path=f'//@kids.{k - 1}', resource=res) for k in paths]
        holder = N(name='holder')
        coll = holder.many

        def val(z):
            return proxies[z - 1001] if z > 1000 else kids[z - 1]

        def kid_index(o):
            for i, k in enumerate(kids):
                if k is o:
                    return i + 1
            return -7

        script = []
        want = []
        ins_hash = {}
        vals = list(range(1, n + 1)) + [1001 + j for j in range(np_)]
        for _ in range(rng.randint(3, 10)):
            op = rng.choice([1, 2, 3, 3, 4, 5, 6, 6, 6, 7, 7, 8, 9])
            a = rng.choice(vals)
            b = rng.choice(vals) if op in (2, 3) else (rng.randint(200, 300) if op == 5 else 0)
            if op == 1 and a <= 1000:
                a = 1001
            if op in (6, 7, 8) and any(e is val(a) and ins_hash[id(e)] != hash(e) for e in coll):
                # CPython checks identity before the stored hash on whatever slot the probe reaches: the very
                # object held under a stale hash is found or not depending on addresses; not compared
                op = 9
                stale_skips += 1
            script += [op, a, b]
            dist[names[op]] = dist.get(names[op], 0) + 1
            try:
                if op == 1:
                    r = [0, kid_index(val(a).force_resolve())]
                elif op == 2:
                    r = [0, int(hash(val(a)) == hash(val(b)))]
                elif op == 3:
                    r = [0, int(val(a) == val(b))]
                elif op == 4:
                    r = [0, val(a).val]
                elif op == 5:
                    val(a).val = b
                    r = [0, 0]
                elif op == 6:
                    before = len(coll)
                    coll.add(val(a))
                    if len(coll) > before:
                        ins_hash[id(coll[-1])] = hash(coll[-1])
                    r = [0, 0]
                elif op == 7:
                    r = [0, int(val(a) in coll)]
                elif op == 8:
                    r = [0, coll.index(val(a))]
                else:
                    r = [0, int(any(x == val(a) for x in coll))]
            except Exception:
                r = [1, 0]
            obs = r + [len(coll)] + [kid_index(q._wrapped) if q.resolved else 0 for q in proxies]
            want.append(obs)
        got = model.ask('proxy', [n, np_] + paths + script)
        w = 3 + np_
        rows = [got[i:i + w] for i in range(0, len(got), w)]
        nops += len(want)
        for i, (g, x) in enumerate(zip(rows, want)):
            g2 = list(g)
            if g2[0] != 0:
                g2[0] = 1         # exception classes are not C14's business
            if g2 != x or len(rows) != len(want):
                out.diff(f'proxy model vs implementation at step {i} ({names[script[3 * i]]} {script[3 * i + 1]} '
                         f'{script[3 * i + 2]}): model {g2} implementation {x}',
                         {'kind': 'proxy-script', 'n': n, 'paths': paths, 'script': script})
                break
    dist['(add/in/index of the very object held under a stale hash: replaced by any==)'] = stale_skips
    return nops, dist


# --------------------------------------------------------------------------- run / replay

def sig_of(case, f):
    shape = f['shape']
    if f['clause'] == 'order':
        shape = shape.replace('-nonunique', '')     # the order of a list and of an ordered set is lost the same way
        if shape.endswith('-opposite'):
            shape = 'many-opposite'  # with an opposite the order comes from the handshake, mixed with local targets or not
    layout = case['layout']['kind']
    if f['clause'] == 'member' or shape == STALE:
        layout = 'any'       # the stale-hash membership defect and its consequences do not depend on the directory layout
    return {'property': 'C14', 'clause': f['clause'], 'format': case['format'],
            'layout': layout, 'shape': shape}


# witnesses of the known findings and of the defects this check found (fixed in /repo), evaluated first on every run
def _w(fmt, links, kids=(1, 1), load=0, pick=0, n=2, touch='read', mode='through'):
    names = ['one', 'two', 'three'][:n]
    return {'format': fmt, 'layout': {'kind': 'same-dir', 'paths': [f'{x}.{fmt}' for x in names]}, 'kids': list(kids),
            'links': links, 'load': load, 'spelling': 'plain', 'delete_pick': pick, 'touch': touch, 'touch_seed': 0,
            'delete_mode': mode}


_MANY = [{'src': [0, -1], 'feat': 'many', 'targets': [[1, 0]]}]
_MIXED = [{'src': [0, -1], 'feat': 'many', 'targets': [[1, 0], [0, 0]]}]
_OPP = [{'src': [0, -1], 'feat': 'fwd', 'targets': [[1, -1], [1, 0]]}]
WITNESSES = [
    # known findings (known/C14_*.json)
    _w('xmi', _MANY), _w('json', _MANY), _w('xmi', _MIXED), _w('xmi', _OPP, (0, 1)), _w('json', _OPP, (0, 1)),
    # fixed 6fb740d: single end -> root of the other file, many-valued opposite
    _w('xmi', [{'src': [0, -1], 'feat': 'boss', 'targets': [[1, -1]]}], (0, 0)),
    _w('json', [{'src': [0, -1], 'feat': 'staff', 'targets': [[1, -1]]}], (0, 0)),
    # fixed f0a03ff: the other file points back to objects of the first one that are decoded later
    _w('xmi', [{'src': [1, 2], 'feat': 'staff', 'targets': [[0, 2], [0, 0]]}], (3, 3)),
    # fixed b5972f7: two references, two proxies, one target; deletion through the first
    _w('xmi', [{'src': [0, -1], 'feat': 'boss', 'targets': [[1, 0]]}, {'src': [0, 0], 'feat': 'one', 'targets': [[1, 0]]}]),
    _w('json', [{'src': [0, -1], 'feat': 'one', 'targets': [[1, 0]]}, {'src': [0, 0], 'feat': 'one', 'targets': [[1, 0]]}]),
    # fixed b06dee3: deleting a root whose child is the single end of a bidirectional reference into another file
    _w('json', [{'src': [2, 1], 'feat': 'boss', 'targets': [[0, 1]]}, {'src': [1, 0], 'feat': 'bwd', 'targets': [[2, -1]]},
                {'src': [2, 0], 'feat': 'left', 'targets': [[0, 2]]}], (3, 1, 2), load=1, pick=81, n=3),
    _w('xmi', [{'src': [2, 1], 'feat': 'boss', 'targets': [[0, 1]]}, {'src': [1, 0], 'feat': 'bwd', 'targets': [[2, -1]]},
               {'src': [2, 0], 'feat': 'left', 'targets': [[0, 2]]}], (3, 1, 2), load=1, pick=81, n=3),
    # one single-valued reference, every layout kind is exercised by the generator; here the plainest positive case
    _w('xmi', [{'src': [0, -1], 'feat': 'one', 'targets': [[1, 0]]}]),
] + [
    # every first use of a proxy x both ways of deleting, on the references that record their holders on the proxy
    # (no opposite): single-valued and list-valued
    _w(fmt, [{'src': [0, -1], 'feat': 'one', 'targets': [[1, 0]]}, {'src': [0, 0], 'feat': 'lst', 'targets': [[1, 1], [1, 0]]}],
       (1, 2), touch=t, mode=m)
    for fmt in ('xmi', 'json') for t in TOUCHES for m in ('through', 'direct')
]


def run(ctx, out):
    pye()
    thorough = ctx.tier == 'thorough'
    t0 = time.time()
    model = common.Model()
    npaths, pdist = path_corr(ctx, out, model, thorough)
    nproxy, xdist = proxy_corr(ctx, out, model, thorough)
    model.close()
    budget = 400 if thorough else 22
    ncases = 12000 if thorough else 1200
    stats = {}
    reported = set()
    final = set()
    shapes = set()
    dist = {'format': {}, 'layout': {}, 'resources': {}}
    samples = []
    evaluated = 0
    t1 = time.time()

    def handle(case, fails):
        for f in fails:
            k = (f['clause'], case['format'], f['shape'])
            stats.setdefault('failures_by_clause_format', {})
            kk = f'{f["clause"]}/{case["format"]}/{f["shape"]}'
            stats['failures_by_clause_format'][kk] = stats['failures_by_clause_format'].get(kk, 0) + 1
            if k in reported:
                continue
            reported.add(k)
            small = shrink(case, f['clause'], budget_s=1.5 if not thorough else 10.0, shape=f['shape'])
            again = [g for g in evaluate(small) if same_kind(g, f['clause'], f['shape'])]
            g = again[0] if again else f
            c = small if again else case
            sg = sig_of(c, g)
            if common.sig_key(sg) in final:
                continue          # shrinks to a kind already reported
            final.add(common.sig_key(sg))
            out.fail(sg, f'{g["clause"]} ({c["format"]}, {c["layout"]["kind"]}, {g["shape"]}): {g["what"]}',
                     {'kind': 'resources', 'case': c})

    for w in WITNESSES:
        handle(w, evaluate(w, stats))
        evaluated += 1
        shapes.add(json.dumps(w, sort_keys=True))
    for i in range(ncases):
        if time.time() - t1 > budget:
            break
        case = gen_case(ctx.rng)
        fails = evaluate(case, stats)
        evaluated += 1
        shapes.add(json.dumps(case, sort_keys=True))
        dist['format'][case['format']] = dist['format'].get(case['format'], 0) + 1
        dist['layout'][case['layout']['kind']] = dist['layout'].get(case['layout']['kind'], 0) + 1
        dist['resources'][len(case['kids'])] = dist['resources'].get(len(case['kids']), 0) + 1
        if len(samples) < 2 and i % 97 == 5:
            samples.append(case)
        handle(case, fails)
    out.coverage.update({
        'evaluations': evaluated,
        'distinct_nontrivial': len(shapes),
        'rule': 'a case = one set of 2-3 resources with links, one format, one directory layout, one resource loaded '
                'first; every reference of the loaded resource is followed; distinct_nontrivial counts distinct case '
                'descriptions',
        'samples': samples,
        'traces_validated_against_impl': npaths + nproxy,
        'path_comparisons_model_vs_ospath_and_URI': npaths,
        'path_comparisons_by_function': pdist,
        'proxy_script_steps_model_vs_EProxy_and_EOrderedSet': nproxy,
        'proxy_script_steps_by_operation': xdist,
        'cases_by_format': dist['format'], 'cases_by_layout': dist['layout'], 'cases_by_resources': dist['resources'],
        'references_followed': stats.get('refs_followed', 0),
        'cross_references_compared_with_direct_navigation': stats.get('cross_refs_compared', 0),
        'cross_references_by_shape': stats.get('cross_refs_by_shape', {}),
        'first_touches_of_loaded_proxies': stats.get('first_touches', {}),
        'deletions_by_mode': stats.get('deletions', {}),
        'failures_by_clause_and_format(before shrinking)': stats.get('failures_by_clause_format', {}),
        'time_budget_s': budget,
    })
    out.assumptions += [
        'POSIX paths; a path starting with exactly two slashes, relative inputs of abspath (current directory), http '
        'URIs, URI mappers/converters are outside the model and the generator',
        'exception classes are compared as ok/error only',
        'dict lookup is modelled as: stored hash equal, then identity, then == (entries visited in insertion order)',
        'one failure per (clause, format) is shrunk and reported; its signature is computed from the shrunk case',
    ]


def replay(ctx, rep):
    pye()
    c = rep['case']
    sig = rep.get('signature', {})
    if c.get('kind') == 'paths':
        from pyecore.resources import URI
        ua, ub = URI(c['a']), URI(c['b'])
        got = URI(ua.apply_relative_from_me(ua.relative_from_me(ub))).normalize()
        print('relative', ua.relative_from_me(ub), 'applied+normalised', got, 'wanted', ub.normalize())
        bad = got != ub.normalize()
        print('REPRODUCED' if bad else 'not reproduced')
        return 1 if bad else 0
    case = c['case'] if 'case' in c else c
    fails = evaluate(case)
    for f in fails:
        print('FAIL', f['clause'], f['shape'], '-', f['what'])
    hit = [f for f in fails if not sig or f['clause'] == sig.get('clause')]
    print('REPRODUCED' if hit else 'not reproduced')
    return 1 if hit else 0


# ---------------------------------------------------------------------------
# a resource removed from the resource set and got again (e.g. it changed on disk): references followed
# afterwards reach the CURRENT resource of the set (oracle on the implementation only)

def reload_scenarios(ctx, out):
    import tempfile as _tf
    from pyecore.ecore import EClass, EAttribute, EReference, EString, EPackage
    from pyecore.resources import ResourceSet, URI
    from pyecore.resources.json import JsonResource
    rng = common.rng_for(ctx.seed, 'C14:reload')
    n = 16 if ctx.tier != 'thorough' else 300
    cnt = 0
    for it in range(n):
        fmt = 'xmi' if it % 2 == 0 else 'json'
        pkg = EPackage('p', nsURI=f'http://verif/c14/reload/{it}', nsPrefix='p')
        Node = EClass('Node')
        Node.eStructuralFeatures.append(EAttribute('name', EString))
        Node.eStructuralFeatures.append(EReference('kids', Node, upper=-1, containment=True))
        Node.eStructuralFeatures.append(EReference('one', Node))
        Node.eStructuralFeatures.append(EReference('two', Node))
        pkg.eClassifiers.append(Node)

        def new_rset():
            rs = ResourceSet()
            rs.metamodel_registry[pkg.nsURI] = pkg
            if fmt == 'json':
                rs.resource_factory['json'] = lambda uri: JsonResource(uri)
            return rs
        layout = rng.choice(['same-dir', 'sibling-dirs', 'nested'])
        nk = rng.randrange(2, 5)
        links = [(rng.randrange(0, nk + 1), rng.choice(['one', 'two']), rng.randrange(0, nk + 1)) for _ in range(rng.randrange(2, 5))]
        follow_first = rng.randrange(len(links))
        edit = rng.random() < 0.6
        how_get = rng.choice(['uri', 'str'])
        hist = {'format': fmt, 'layout': layout, 'kids': nk, 'links': links, 'followed_before': follow_first, 'edited_on_disk': edit,
                'get_by': how_get}
        case = {'scenario': 'reload', 'seed': ctx.seed, 'tier': ctx.tier, 'history': hist}
        sig = {'property': 'C14', 'clause': None, 'scenario': 'reload', 'format': fmt}
        with _tf.TemporaryDirectory() as tmp:
            da, db = {'same-dir': ('', ''), 'sibling-dirs': ('d1', 'd2'), 'nested': ('', 'sub/deep')}[layout]
            os.makedirs(os.path.join(tmp, da), exist_ok=True)
            os.makedirs(os.path.join(tmp, db), exist_ok=True)
            pa, pb = os.path.join(tmp, da, f'a.{fmt}'), os.path.join(tmp, db, f'b.{fmt}')

            def tree(nm):
                r = Node(name=nm)
                for i in range(nk):
                    r.kids.append(Node(name=f'{nm}.k{i}'))
                return r

            def pick(root, i):
                return root if i == nk else root.kids[i]
            rs = new_rset()
            a, b = tree('a'), tree('b')
            ra, rb = rs.create_resource(URI(pa)), rs.create_resource(URI(pb))
            ra.append(a)
            rb.append(b)
            seen = set()
            real_links = []
            for (i, f, j) in links:
                if (i, f) in seen:
                    continue
                seen.add((i, f))
                setattr(pick(a, i), f, pick(b, j))
                real_links.append((i, f, j))
            try:
                ra.save()
                rb.save()
                rs = new_rset()
                la = rs.get_resource(URI(pa)).contents[0]
                i0, f0, j0 = real_links[follow_first % len(real_links)]
                getattr(pick(la, i0), f0).name            # follows one reference: b is loaded on demand
                old_b = rs.get_resource(URI(pb) if how_get == 'uri' else pb)
                if edit:
                    other = new_rset()
                    ob = other.get_resource(URI(pb))
                    for k in ob.contents[0].kids:
                        k.name = k.name + ' (edited)'
                    ob.save()
                rs.remove_resource(old_b)
                still = [str(k) for k, v in rs.resources.items() if v is old_b]
                if still:
                    sig['clause'] = 'removed-resource-still-registered'
                    out.fail(sig, f'after remove_resource the resource set still maps {still} to the removed resource', case)
                    continue
                new_b = rs.get_resource(URI(pb))
                cnt += 1
                for (i, f, j) in real_links:
                    if (i, f, j) == (i0, f0, j0):
                        continue          # followed before the reload: it legitimately keeps the old object
                    ref = getattr(pick(la, i), f)
                    target = pick(new_b.contents[0], j)
                    got = ref.force_resolve() if hasattr(ref, 'force_resolve') else ref
                    if got is not target:
                        sig['clause'] = 'reference-reaches-a-detached-copy'
                        out.fail(sig, f'a{"" if i == nk else f".kids[{i}]"}.{f}, first followed after b was removed and got again, '
                                      f'reaches {got.name!r} in a resource that is {"not " if got.eResource is not new_b else ""}the '
                                      f'resource set\'s b (expected the instance {target.name!r} of the current b)', case)
                        break
            except Exception as e:  # noqa
                sig['clause'] = 'reload-raised'
                out.fail(sig, f'{type(e).__name__}: {e}', case)
    out.coverage['reload_scenarios'] = cnt


_run_main = run


def run(ctx, out):   # noqa: F811
    _run_main(ctx, out)
    reload_scenarios(ctx, out)


_replay_main = replay


def replay(ctx, rep):   # noqa: F811
    if rep.get('case', {}).get('scenario') == 'reload':
        pye()
        return common.scenario_replay(ctx, rep, {'reload': reload_scenarios})
    return _replay_main(ctx, rep)


# ---------------------------------------------------------------------------
# the same relative path string names different files from different directories

def same_relative_scenarios(ctx, out):
    import tempfile as _tf
    from pyecore.ecore import EClass, EAttribute, EReference, EString, EPackage
    from pyecore.resources import ResourceSet, URI
    from pyecore.resources.json import JsonResource
    rng = common.rng_for(ctx.seed, 'C14:samerel')
    n = 12 if ctx.tier != 'thorough' else 200
    cnt = 0
    for it in range(n):
        fmt = 'xmi' if it % 2 == 0 else 'json'
        pkg = EPackage('p', nsURI=f'http://verif/c14/samerel/{it}', nsPrefix='p')
        Node = EClass('Node')
        Node.eStructuralFeatures.append(EAttribute('name', EString))
        Node.eStructuralFeatures.append(EReference('kids', Node, upper=-1, containment=True))
        Node.eStructuralFeatures.append(EReference('one', Node))
        pkg.eClassifiers.append(Node)

        def new_rset():
            rs = ResourceSet()
            rs.metamodel_registry[pkg.nsURI] = pkg
            if fmt == 'json':
                rs.resource_factory['json'] = lambda uri: JsonResource(uri)
            return rs
        rel = rng.choice(['', 'sub', '../shared'])          # where the target lies relatively to each referrer
        ndirs = rng.choice([2, 2, 3])
        order = list(range(ndirs))
        rng.shuffle(order)
        touch = rng.choice(['name', 'force', 'eq'])
        hist = {'format': fmt, 'relative_dir': rel, 'dirs': ndirs, 'load_order': order, 'touch': touch}
        case = {'scenario': 'samerel', 'seed': ctx.seed, 'tier': ctx.tier, 'history': hist}
        sig = {'property': 'C14', 'clause': None, 'scenario': 'samerel', 'format': fmt}
        with _tf.TemporaryDirectory() as tmp:
            try:
                rs = new_rset()
                pas, pbs = [], []
                for d in range(ndirs):
                    base = os.path.join(tmp, f'd{d}', 'in')
                    tdir = os.path.normpath(os.path.join(base, rel))
                    os.makedirs(base, exist_ok=True)
                    os.makedirs(tdir, exist_ok=True)
                    pa, pb = os.path.join(base, f'a.{fmt}'), os.path.join(tdir, f'b.{fmt}')
                    a, b = Node(name=f'a{d}'), Node(name=f'b{d}')
                    b.kids.append(Node(name=f'b{d}.k'))
                    ra, rb = rs.create_resource(URI(pa)), rs.create_resource(URI(pb))
                    ra.append(a)
                    rb.append(b)
                    a.one = b.kids[0] if rng.random() < 0.5 else b
                    hist.setdefault('targets', []).append(a.one.name)
                    pas.append(pa)
                    pbs.append(pb)
                for r in list(rs.resources.values()):
                    r.save()
                rs2 = new_rset()
                for d in order:
                    la = rs2.get_resource(URI(pas[d])).contents[0]
                    ref = la.one
                    cnt += 1
                    want = hist['targets'][d]
                    if touch == 'name':
                        got = ref.name
                    elif touch == 'force':
                        got = ref.force_resolve().name
                    else:       # compared with the object reached by loading the intended file directly
                        tres = rs2.get_resource(URI(pbs[d]))
                        cands = [x for root in tres.contents for x in [root] + list(root.eAllContents())]
                        got = next((x.name for x in cands if x.name == want and ref == x), None) or \
                            f'something else ({ref.name!r} of {getattr(ref.eResource, "uri", None) and os.path.relpath(ref.eResource.uri.normalize(), tmp)})'
                    if got != want:
                        sig['clause'] = 'same-relative-path-reaches-another-directory'
                        out.fail(sig, f'{os.path.relpath(pas[d], tmp)} refers to {want!r} through the relative path '
                                      f'{os.path.join(rel, "b." + fmt)!r} but reaches {got!r} '
                                      f'(load order {order}, keys {sorted(os.path.relpath(k, tmp) if os.path.isabs(str(k)) else str(k) for k in rs2.resources)})', case)
                        break
            except Exception as e:  # noqa
                sig['clause'] = 'samerel-raised'
                out.fail(sig, f'{type(e).__name__}: {e}', case)
    out.coverage['same_relative_path_references'] = cnt


_run_main2 = run


def run(ctx, out):   # noqa: F811
    _run_main2(ctx, out)
    same_relative_scenarios(ctx, out)


_replay_main2 = replay


def replay(ctx, rep):   # noqa: F811
    if rep.get('case', {}).get('scenario') == 'samerel':
        pye()
        return common.scenario_replay(ctx, rep, {'samerel': same_relative_scenarios})
    return _replay_main2(ctx, rep)


# ---------------------------------------------------------------------------
# ResourceSet.can_resolve / resolve vs Model/Href.v (resolve_relfirst): which registered resource an href reaches,
# with registries that also hold aliases (raw strings), for referrers in several directories

def href_corr(ctx, out):
    from pyecore.ecore import EClass, EAttribute, EString
    from pyecore.resources import ResourceSet, URI
    from pyecore.resources.resource import Resource
    rng = common.rng_for(ctx.seed, 'C14:href')
    n = 300 if ctx.tier != 'thorough' else 6000
    model = common.Model()
    A = EClass('A')
    A.eStructuralFeatures.append(EAttribute('name', EString))
    segs = ['d1', 'd2', 'x', 'sub', 'a', 'b', 'c.xmi', 'b.xmi']
    cnt = hits = alias_cases = 0
    try:
        for it in range(n):
            def rp():
                return '/' + '/'.join(rng.choice(segs) for _ in range(rng.randrange(1, 4)))
            files = list(dict.fromkeys(rp() for _ in range(rng.randrange(2, 5))))
            frm = rng.choice(files)
            rs = ResourceSet()
            reg = []
            res_of = {}
            for i, fpath in enumerate(files):
                r = Resource(URI(fpath))
                o = A(name=f'obj{i}')
                r.append(o)
                rs.resources[URI(fpath).normalize()] = r
                r.resource_set = rs
                res_of[i] = r
                reg.append((URI(fpath).normalize(), i))
            # the href: what save would write for a target, or an arbitrary relative string
            tgt = rng.randrange(len(files))
            if rng.random() < 0.7:
                href = URI(frm).relative_from_me(URI(files[tgt]))
            else:
                href = '/'.join(rng.choice(segs + ['..']) for _ in range(rng.randrange(1, 4)))
            # aliases: raw strings mapped to some resource (as the on-demand loader / a user may register)
            for _ in range(rng.randrange(0, 3)):
                k = href if rng.random() < 0.5 else rng.choice(segs)
                if k not in [x for x, _ in reg]:
                    j = rng.randrange(len(files))
                    rs.resources[k] = res_of[j]
                    reg.append((k, j))
                    alias_cases += 1
            frm_res = rs.resources[URI(frm).normalize()]
            try:
                can = rs.can_resolve(f'{href}#/', frm_res)
                got = rs.resolve(f'{href}#/', frm_res) if can else None
                impl = [1, int(got.name[3:])] if got is not None else [0, 0]
            except Exception as e:  # noqa
                impl = ['exc', type(e).__name__]
            t = [len(frm)] + [ord(c) for c in frm] + [len(href)] + [ord(c) for c in href] + [len(reg)]
            for k, v in reg:
                t += [len(k)] + [ord(c) for c in k] + [v]
            mod = model.ask('href', t)
            cnt += 1
            hits += int(impl[0] == 1)
            if list(mod) != impl:
                out.diff(f'href resolution: from {frm!r} href {href!r} registry {reg}: model {list(mod)} implementation {impl}',
                         {'kind': 'href', 'from': frm, 'href': href, 'registry': reg})
                if cnt > 20 and len([1]) and out is not None and getattr(out, 'diffs', None) and len(out.diffs) > 5:
                    break
    finally:
        model.close()
    out.coverage['href_resolutions_model_vs_ResourceSet'] = cnt
    out.coverage['href_resolutions_found'] = hits
    out.coverage['href_registries_with_aliases'] = alias_cases


_run_main3 = run


def run(ctx, out):   # noqa: F811
    _run_main3(ctx, out)
    href_corr(ctx, out)


# ---------------------------------------------------------------------------
# a resource given another location (Resource.uri) and saved again: the hrefs written by the second save follow

def relocate_scenarios(ctx, out):
    import tempfile as _tf
    from pyecore.ecore import EClass, EAttribute, EReference, EString, EPackage
    from pyecore.resources import ResourceSet, URI
    from pyecore.resources.json import JsonResource
    rng = common.rng_for(ctx.seed, 'C14:relocate')
    n = 16 if ctx.tier != 'thorough' else 300
    cnt = 0
    for it in range(n):
        fmt = 'json' if it % 2 == 0 else 'xmi'
        pkg = EPackage('p', nsURI=f'http://verif/c14/relocate/{it}', nsPrefix='p')
        N = EClass('N')
        N.eStructuralFeatures.append(EAttribute('name', EString))
        N.eStructuralFeatures.append(EReference('kids', N, upper=-1, containment=True))
        N.eStructuralFeatures.append(EReference('one', N))
        N.eStructuralFeatures.append(EReference('lst', N, upper=-1, unique=False))
        pkg.eClassifiers.append(N)

        def new_rset():
            rs = ResourceSet()
            rs.metamodel_registry[pkg.nsURI] = pkg
            if fmt == 'json':
                rs.resource_factory['json'] = lambda uri: JsonResource(uri)
            return rs
        dirs = ['d1', 'd2', 'd3/sub', '.']
        da, db, da2, db2 = (rng.choice(dirs) for _ in range(4))
        move = rng.choice(['b', 'a', 'both'])
        hist = {'format': fmt, 'dirs': [da, db, da2, db2], 'moved': move}
        case = {'scenario': 'relocate', 'seed': ctx.seed, 'tier': ctx.tier, 'history': hist}
        sig = {'property': 'C14', 'clause': None, 'scenario': 'relocate', 'format': fmt}
        with _tf.TemporaryDirectory() as tmp:
            try:
                for d in dirs:
                    os.makedirs(os.path.join(tmp, d), exist_ok=True)
                pa, pb = os.path.join(tmp, da, f'a.{fmt}'), os.path.join(tmp, db, f'b.{fmt}')
                rs = new_rset()
                ra, rb = rs.create_resource(URI(pa)), rs.create_resource(URI(pb))
                a, b = N(name='a'), N(name='b')
                for i in range(2):
                    a.kids.append(N(name=f'a.k{i}'))
                    b.kids.append(N(name=f'b.k{i}'))
                ra.append(a)
                rb.append(b)
                a.one = b.kids[0]
                a.kids[0].lst.extend([b, b.kids[1]])
                b.one = a.kids[1]
                ra.save()
                rb.save()
                # the application moves one of them (or both) and edits it, then saves everything again
                pa2, pb2 = os.path.join(tmp, da2, f'a2.{fmt}'), os.path.join(tmp, db2, f'b2.{fmt}')
                if move in ('b', 'both'):
                    rb.uri = URI(pb2)
                    for o in [b] + list(b.kids):
                        o.name = o.name + '*'
                else:
                    pb2 = pb
                if move in ('a', 'both'):
                    ra.uri = URI(pa2)
                else:
                    pa2 = pa
                ra.save()
                rb.save()
                rs2 = new_rset()
                la = rs2.get_resource(URI(pa2)).contents[0]
                got = [la.one.name, [x.name for x in la.kids[0].lst]]
                star = '*' if move in ('b', 'both') else ''
                want = [f'b.k0{star}', [f'b{star}', f'b.k1{star}']]
                cnt += 1
                where = la.one.eResource.uri.normalize() if la.one.eResource is not None else None
                lb = rs2.get_resource(URI(pb2)).contents[0]
                direct = lb.kids[0]
                if got != want or os.path.normpath(where or '') != os.path.normpath(pb2) or la.one.force_resolve() is not direct:
                    sig['clause'] = 'references-follow-the-old-location'
                    out.fail(sig, f'after moving {move} and saving again, a.one / a.k0.lst read {got} (expected {want}) from '
                                  f'{os.path.relpath(where, tmp) if where else None} (expected {os.path.relpath(pb2, tmp)}); '
                                  f'same instance as direct navigation: {la.one.force_resolve() is direct}', case)
                    continue
                back = lb.one
                if back.name != 'a.k1' or os.path.normpath(back.eResource.uri.normalize()) != os.path.normpath(pa2):
                    sig['clause'] = 'references-follow-the-old-location'
                    out.fail(sig, f'b.one reads {back.name!r} from {os.path.relpath(back.eResource.uri.normalize(), tmp)}', case)
            except Exception as e:  # noqa
                sig['clause'] = 'relocate-raised'
                out.fail(sig, f'{type(e).__name__}: {e}', case)
    out.coverage['relocate_scenarios'] = cnt


_run_main4 = run


def run(ctx, out):   # noqa: F811
    _run_main4(ctx, out)
    relocate_scenarios(ctx, out)


_replay_main4 = replay


def replay(ctx, rep):   # noqa: F811
    if rep.get('case', {}).get('scenario') == 'relocate':
        pye()
        return common.scenario_replay(ctx, rep, {'relocate': relocate_scenarios})
    return _replay_main4(ctx, rep)


# ---------------------------------------------------------------------------
# namesake files in different directories referring to each other (similarly shaped models, so that the fragment of
# the target also exists in the referrer's own file), and resources with DIFFERENT uuid settings referring to each
# other: after save and a reload in a fresh resource set, every file loaded first in turn, each reference reaches
# the object of the intended file (oracle on the implementation only)

def namesake_scenarios(ctx, out):
    import tempfile as _tf
    from pyecore.ecore import EClass, EAttribute, EReference, EString, EPackage
    from pyecore.resources import ResourceSet, URI
    from pyecore.resources.json import JsonResource
    rng = common.rng_for(ctx.seed, 'C14:namesake')
    n = 16 if ctx.tier != 'thorough' else 300
    cnt = 0
    for it in range(n):
        fmt = 'xmi' if it % 2 == 0 else 'json'
        pkg = EPackage('p', nsURI=f'http://verif/c14/namesake/{it}', nsPrefix='p')
        Node = EClass('Node')
        Node.eStructuralFeatures.append(EAttribute('name', EString))
        Node.eStructuralFeatures.append(EReference('kids', Node, upper=-1, containment=True))
        Node.eStructuralFeatures.append(EReference('one', Node))
        Node.eStructuralFeatures.append(EReference('many', Node, upper=-1))
        pkg.eClassifiers.append(Node)

        def new_rset():
            rs = ResourceSet()
            rs.metamodel_registry[pkg.nsURI] = pkg
            if fmt == 'json':
                rs.resource_factory['json'] = lambda uri: JsonResource(uri)
            return rs
        nfiles = rng.choice([2, 3])
        same_name = rng.random() < 0.6
        uuids = [rng.random() < 0.4 for _ in range(nfiles)] if rng.random() < 0.6 else [False] * nfiles
        save_order = list(range(nfiles))
        rng.shuffle(save_order)
        hist = {'format': fmt, 'files': nfiles, 'same_file_name': same_name, 'use_uuid': uuids, 'save_order': save_order,
                'links': []}
        case = {'scenario': 'namesake', 'seed': ctx.seed, 'tier': ctx.tier, 'history': hist}
        sig = {'property': 'C14', 'clause': None, 'scenario': 'namesake', 'format': fmt,
               'mixed_uuid': len(set(uuids)) > 1, 'same_file_name': same_name}
        with _tf.TemporaryDirectory() as tmp:
            try:
                rs = new_rset()
                paths, roots = [], []
                for d in range(nfiles):
                    base = os.path.join(tmp, f'd{d}')
                    os.makedirs(base, exist_ok=True)
                    p = os.path.join(base, ('model' if same_name else f'm{d}') + '.' + fmt)
                    root = Node(name=f'r{d}')
                    for k in range(3):
                        root.kids.append(Node(name=f'r{d}.k{k}'))
                    res = rs.create_resource(URI(p))
                    res.use_uuid = uuids[d]
                    res.append(root)
                    paths.append(p)
                    roots.append(root)
                expected = {}       # referrer name -> (feature, [target names])
                for d in range(nfiles):
                    for src in [roots[d]] + list(roots[d].kids):
                        if rng.random() < 0.6:
                            e = rng.choice([x for x in range(nfiles) if x != d])
                            tgt = rng.choice([roots[e]] + list(roots[e].kids))
                            src.one = tgt
                            expected[(src.name, 'one')] = [tgt.name]
                            hist['links'].append([src.name, 'one', tgt.name])
                        if rng.random() < 0.3:
                            ts = []
                            for _ in range(rng.randrange(1, 3)):
                                e = rng.choice([x for x in range(nfiles) if x != d])
                                tgt = rng.choice([roots[e]] + list(roots[e].kids))
                                if tgt not in ts:
                                    ts.append(tgt)
                            src.many.extend(ts)
                            expected[(src.name, 'many')] = [t.name for t in ts]
                            hist['links'].append([src.name, 'many', [t.name for t in ts]])
                for d in save_order:
                    rs.get_resource(URI(paths[d])).save()
                for first in range(nfiles):
                    rs2 = new_rset()
                    order = [first] + [x for x in range(nfiles) if x != first]
                    loaded = {}
                    for d in order:
                        r = rs2.get_resource(URI(paths[d]))
                        root = r.contents[0]
                        for o in [root] + list(root.kids):
                            loaded[o.name] = o
                    for (sname, feat), tnames in sorted(expected.items()):
                        src = loaded[sname]
                        vals = [src.one] if feat == 'one' else list(src.many)
                        cnt += 1
                        got = []
                        for v in vals:
                            if v is None:
                                got.append(None)
                                continue
                            nm = v.name         # follows the proxy
                            tgt = loaded.get(nm)
                            same = tgt is not None and (v == tgt)
                            resp = v.eResource.uri.normalize() if getattr(v, 'eResource', None) else None
                            got.append(nm if same and resp == tgt.eResource.uri.normalize() else f'{nm} (another instance, of {resp and os.path.relpath(resp, tmp)})')
                        if sorted(map(str, got)) != sorted(tnames):
                            sig['clause'] = 'reference-reaches-another-object'
                            out.fail(sig, f'{sname}.{feat} was saved pointing to {tnames}; after a reload (file {first} first) it '
                                          f'reaches {got}', case)
                            raise StopIteration
            except StopIteration:
                pass
            except Exception as e:  # noqa
                sig['clause'] = 'namesake-raised'
                out.fail(sig, f'{type(e).__name__}: {e}', case)
    out.coverage['namesake_and_mixed_uuid_references'] = cnt


_run_main5 = run


def run(ctx, out):   # noqa: F811
    _run_main5(ctx, out)
    namesake_scenarios(ctx, out)


_replay_main5 = replay


def replay(ctx, rep):   # noqa: F811
    if rep.get('case', {}).get('scenario') == 'namesake':
        pye()
        return common.scenario_replay(ctx, rep, {'namesake': namesake_scenarios})
    return _replay_main5(ctx, rep)


# ---------------------------------------------------------------------------
# chains a -> b <-> c over three directories (loading b needs c), directory names with characters that mean something
# in a URI ('#', ' ', '%', non-ASCII), and a target that is missing the first time the reference is followed and back
# the second time: the first attempt fails, the second reaches the very objects of b and c
# (oracle on the implementation only)

def chain_scenarios(ctx, out):
    import shutil as _sh
    import tempfile as _tf
    from pyecore.ecore import EClass, EAttribute, EReference, EString, EPackage
    from pyecore.resources import ResourceSet, URI
    from pyecore.resources.json import JsonResource
    rng = common.rng_for(ctx.seed, 'C14:chain')
    n = 30 if ctx.tier != 'thorough' else 300
    cnt = 0
    NAMES = ['d', 'rev#2', 'my dir', 'p%20q', 'données', 'a+b', 'x#y#z']
    for it in range(n):
        fmt = 'xmi' if it % 2 == 0 else 'json'
        pkg = EPackage('p', nsURI=f'http://verif/c14/chain/{it}', nsPrefix='p')
        N = EClass('N')
        N.eStructuralFeatures.append(EAttribute('name', EString))
        N.eStructuralFeatures.append(EReference('kids', N, upper=-1, containment=True))
        N.eStructuralFeatures.append(EReference('one', N))
        fw = EReference('fw', N, upper=-1)
        bw = EReference('bw', N, upper=-1, eOpposite=fw)
        N.eStructuralFeatures.extend([fw, bw])
        pkg.eClassifiers.append(N)

        def new_rset():
            rs = ResourceSet()
            rs.metamodel_registry[pkg.nsURI] = pkg
            if fmt == 'json':
                rs.resource_factory['json'] = lambda uri: JsonResource(uri)
            return rs
        dirs = [rng.choice(NAMES) + str(i) for i in range(3)]
        away = rng.choice([None, None, 'c', 'b'])
        preload = rng.random() < 0.3          # b asked for explicitly before the reference is followed
        hist = {'format': fmt, 'dirs': dirs, 'missing_first': away, 'b_loaded_explicitly': preload}
        case = {'scenario': 'chain', 'seed': ctx.seed, 'tier': ctx.tier, 'history': hist}
        sig = {'property': 'C14', 'clause': None, 'scenario': 'chain', 'format': fmt, 'missing_first': away is not None,
               'special_dir': any(ch in ''.join(dirs) for ch in '#% +')}
        tmp = _tf.mkdtemp(prefix='c14chain_')
        try:
            paths = {'a': os.path.join(tmp, dirs[0], 'a.' + fmt), 'b': os.path.join(tmp, dirs[1], 'sub', 'b.' + fmt),
                     'c': os.path.join(tmp, dirs[2], 'c.' + fmt)}
            rs = new_rset()
            roots = {}
            for key, p in paths.items():
                os.makedirs(os.path.dirname(p))
                root = N(name=key)
                root.kids.append(N(name=key + '1'))
                rs.create_resource(URI(p)).append(root)
                roots[key] = root
            roots['a'].one = roots['b'].kids[0]
            roots['b'].kids[0].fw.append(roots['c'].kids[0])
            for res in list(rs.resources.values()):
                res.save()
            rs2 = new_rset()
            x = rs2.get_resource(URI(paths['a'])).contents[0]
            if away:
                _sh.move(paths[away], paths[away] + '.away')
                try:
                    x.one.name
                    list(x.one.fw)[0].name
                    sig['clause'] = 'missing-target-followed'
                    out.fail(sig, f'following a.one (and on to c) succeeded although the file of {away} is missing', case)
                    continue
                except Exception:  # noqa
                    pass
                _sh.move(paths[away] + '.away', paths[away])
            elif preload:
                rs2.get_resource(URI(paths['b']))
            cnt += 1
            problems = []
            try:
                p = x.one
                if p.name != 'b1':
                    problems.append(f'a.one reaches {p.name!r} instead of b1')
                got = [t.name for t in p.fw]
                if got != ['c1']:
                    problems.append(f'a.one.fw reads {got}; the document of b says [c1]')
                db = rs2.get_resource(URI(paths['b'])).contents[0].kids[0]
                dc = rs2.get_resource(URI(paths['c'])).contents[0].kids[0]
                if not (p == db and hash(p) == hash(db) and p.force_resolve() is db):
                    problems.append('a.one is not the b1 found by navigating b directly')
                if db not in dc.bw:
                    problems.append(f'c1.bw does not hold b1: {[t.name for t in dc.bw]}')
                if [t.name for t in db.fw] != ['c1'] or db.fw[0].force_resolve() is not dc:
                    problems.append(f'b1.fw navigated directly does not reach the c1 of c: {[t.name for t in db.fw]}')
            except Exception as e:  # noqa
                problems.append(f'following a.one raised {type(e).__name__}: {e}')
            if problems:
                sig['clause'] = 'chain-reference-reaches-another-object'
                out.fail(sig, f'{hist}: {problems[0]}', case)
        except Exception as e:  # noqa
            sig['clause'] = 'chain-raised'
            out.fail(sig, f'{type(e).__name__}: {e}', case)
        finally:
            _sh.rmtree(tmp, ignore_errors=True)
    out.coverage['chain_references_followed'] = cnt


_run_main6 = run


def run(ctx, out):   # noqa: F811
    _run_main6(ctx, out)
    chain_scenarios(ctx, out)


_replay_main6 = replay


def replay(ctx, rep):   # noqa: F811
    if rep.get('case', {}).get('scenario') == 'chain':
        pye()
        return common.scenario_replay(ctx, rep, {'chain': chain_scenarios})
    return _replay_main6(ctx, rep)


# ---------------------------------------------------------------------------
# cross-resource targets that are FALSY (static classes whose instances define __bool__ / are empty containers):
# the reference is followed all the same and reaches the very object (oracle on the implementation only)

def falsy_target_scenarios(ctx, out):
    import tempfile as _tf
    from harness import kstatic
    from pyecore.resources import ResourceSet, URI
    from pyecore.resources.json import JsonResource
    rng = common.rng_for(ctx.seed, 'C14:falsy')
    n = 10 if ctx.tier != 'thorough' else 150
    cnt = 0
    mm = {'classes': [{'name': 'FNode', 'supers': [], 'features': [
        {'name': 'name', 'kind': 'attr', 'type': 'EString', 'many': False, 'ordered': True, 'unique': True, 'containment': False, 'opposite': None},
        {'name': 'kids', 'kind': 'ref', 'type': 'FNode', 'many': True, 'ordered': True, 'unique': True, 'containment': True, 'opposite': None},
        {'name': 'one', 'kind': 'ref', 'type': 'FNode', 'many': False, 'ordered': True, 'unique': True, 'containment': False, 'opposite': None},
        {'name': 'many', 'kind': 'ref', 'type': 'FNode', 'many': True, 'ordered': True, 'unique': True, 'containment': False, 'opposite': None}]}],
        'enums': []}
    for it in range(n):
        fmt = 'xmi' if it % 2 == 0 else 'json'
        mod, classes, nsuri = kstatic.render(mm, rng.choice(['meta', 'decorator']), falsy=True)
        N = classes['FNode']

        def new_rset():
            rs = ResourceSet()
            rs.metamodel_registry[nsuri] = mod
            if fmt == 'json':
                rs.resource_factory['json'] = lambda uri: JsonResource(uri)
            return rs
        hist = {'format': fmt}
        case = {'scenario': 'falsy', 'seed': ctx.seed, 'tier': ctx.tier, 'history': hist}
        sig = {'property': 'C14', 'clause': None, 'scenario': 'falsy', 'format': fmt}
        try:
            with _tf.TemporaryDirectory() as tmp:
                pa, pb = os.path.join(tmp, 'd1', 'a.' + fmt), os.path.join(tmp, 'd2', 'b.' + fmt)
                os.makedirs(os.path.dirname(pa))
                os.makedirs(os.path.dirname(pb))
                rs = new_rset()
                a, b = N(), N()
                a.name, b.name = 'a', 'b'
                for i in range(2):
                    k = N()
                    k.name = f'b{i}'
                    b.kids.append(k)
                ra, rb = rs.create_resource(URI(pa)), rs.create_resource(URI(pb))
                ra.append(a)
                rb.append(b)
                tgt = rng.choice([b, b.kids[0], b.kids[1]])
                a.one = tgt
                a.many.extend([b.kids[1], b])
                hist['target'] = tgt.name
                ra.save()
                rb.save()
                rs2 = new_rset()
                la = rs2.get_resource(URI(pa)).contents[0]
                cnt += 1
                how = rng.choice(['read', 'write', 'eq'])
                hist['touch'] = how
                if how == 'read':
                    got = la.one.name
                elif how == 'write':
                    la.one.name = 'changed'
                    got = hist['target']
                else:
                    got = hist['target'] if la.one == la.one else '?'
                lb = rs2.get_resource(URI(pb)).contents[0]
                direct = {x.name: x for x in [lb] + list(lb.kids)}
                want = direct['changed'] if how == 'write' else direct[hist['target']]
                if got != hist['target'] or la.one.force_resolve() is not want or [x.name for x in la.many][1] not in ('b', 'changed'):
                    sig['clause'] = 'falsy-target-not-reached'
                    out.fail(sig, f'a.one was saved pointing to the (falsy) {hist["target"]}; after reload ({how}) it reaches {got!r} / '
                                  f'{getattr(la.one.force_resolve(), "name", None)!r}', case)
        except Exception as e:  # noqa
            sig['clause'] = 'falsy-target-raised'
            out.fail(sig, f'{type(e).__name__}: {e}', case)
        finally:
            kstatic.forget(mod)
    out.coverage['falsy_cross_resource_targets_followed'] = cnt


_run_main7 = run


def run(ctx, out):   # noqa: F811
    _run_main7(ctx, out)
    falsy_target_scenarios(ctx, out)


_replay_main7 = replay


def replay(ctx, rep):   # noqa: F811
    if rep.get('case', {}).get('scenario') == 'falsy':
        pye()
        return common.scenario_replay(ctx, rep, {'falsy': falsy_target_scenarios})
    return _replay_main7(ctx, rep)


# ---------------------------------------------------------------------------
# the target resource CHANGES SHAPE between two follows: references written while it had several roots (fragments
# '/<n>/...'), one followed (the target is loaded on demand), then roots removed / added / reordered in the loaded
# target, then the not-yet-followed references followed (oracle on the implementation only)

def reshaped_target_scenarios(ctx, out):
    import tempfile as _tf
    from pyecore.ecore import EClass, EAttribute, EReference, EString, EPackage
    from pyecore.resources import ResourceSet, URI
    from pyecore.resources.json import JsonResource
    rng = common.rng_for(ctx.seed, 'C14:reshaped')
    n = 24 if ctx.tier != 'thorough' else 300
    cnt = 0
    for it in range(n):
        fmt = 'xmi' if it % 2 == 0 else 'json'
        pkg = EPackage('p', nsURI=f'http://verif/c14/reshaped/{it}', nsPrefix='p')
        N = EClass('N')
        N.eStructuralFeatures.append(EAttribute('name', EString))
        N.eStructuralFeatures.append(EReference('kids', N, upper=-1, containment=True))
        N.eStructuralFeatures.append(EReference('one', N))
        N.eStructuralFeatures.append(EReference('many', N, upper=-1, unique=False))
        pkg.eClassifiers.append(N)

        def new_rset():
            rs = ResourceSet()
            rs.metamodel_registry[pkg.nsURI] = pkg
            if fmt == 'json':
                rs.resource_factory['json'] = lambda uri: JsonResource(uri)
            return rs
        nroots = rng.choice([2, 2, 3])
        hist = {'format': fmt, 'roots': nroots}
        case = {'scenario': 'reshaped', 'seed': ctx.seed, 'tier': ctx.tier, 'history': hist}
        sig = {'property': 'C14', 'clause': None, 'scenario': 'reshaped', 'format': fmt}
        try:
            with _tf.TemporaryDirectory() as tmp:
                pa, pb = os.path.join(tmp, 'd1', 'a.' + fmt), os.path.join(tmp, 'd2', 'b.' + fmt)
                os.makedirs(os.path.dirname(pa))
                os.makedirs(os.path.dirname(pb))
                rs = new_rset()
                ra, rb = rs.create_resource(URI(pa)), rs.create_resource(URI(pb))
                a = N(name='a')
                ra.append(a)
                pool = []
                for r in range(nroots):
                    root = N(name=f'r{r}')
                    for k in range(2):
                        root.kids.append(N(name=f'r{r}.k{k}'))
                    rb.append(root)
                    pool += [root] + list(root.kids)
                keep_root = rng.randrange(nroots)         # references go into this root's tree only
                inside = [o for o in pool if o.name.startswith(f'r{keep_root}')]
                a.one = rng.choice(inside)
                a.many.extend(rng.choice(inside) for _ in range(3))
                hist['targets'] = [a.one.name] + [x.name for x in a.many]
                ra.save()
                rb.save()
                rs2 = new_rset()
                la = rs2.get_resource(URI(pa)).contents[0]
                first = la.one.name                      # the target resource is loaded on demand now
                lb = rs2.get_resource(URI(pb))
                edit = rng.choice(['remove-others', 'remove-one-other', 'add-root-front-no', 'none'])
                hist['edit'] = edit
                others = [r for r in list(lb.contents) if r.name != f'r{keep_root}']
                if edit == 'remove-others':
                    for r in others:
                        lb.remove(r)
                elif edit == 'remove-one-other' and others:
                    lb.remove(others[-1]) if lb.contents[-1] is others[-1] else None
                cnt += 1
                got = [first] + [x.name for x in la.many]
                # (positions of the kept root may have shifted when an EARLIER root left: a reference is then stale by
                #  design; only the cases in which the kept root keeps its position are judged)
                pos_now = next(i for i, r in enumerate(lb.contents) if r.name == f'r{keep_root}')
                if pos_now == keep_root and got != hist['targets']:
                    sig['clause'] = 'reference-after-reshaping-reaches-another-object'
                    out.fail(sig, f'references saved to {hist["targets"]}; after the target lost roots ({edit}; the kept root still at '
                                  f'position {pos_now}) they reach {got}', case)
        except Exception as e:  # noqa
            hist['raised'] = type(e).__name__
            pos_ok = True
            try:
                pos_ok = next(i for i, r in enumerate(lb.contents) if r.name == f'r{keep_root}') == keep_root
            except Exception:  # noqa
                pass
            if pos_ok:
                sig['clause'] = 'reshaped-raised'
                out.fail(sig, f'{type(e).__name__}: {e}', case)
    out.coverage['references_followed_after_target_reshaped'] = cnt


_run_main8 = run


def run(ctx, out):   # noqa: F811
    _run_main8(ctx, out)
    reshaped_target_scenarios(ctx, out)


_replay_main8 = replay


def replay(ctx, rep):   # noqa: F811
    if rep.get('case', {}).get('scenario') == 'reshaped':
        pye()
        return common.scenario_replay(ctx, rep, {'reshaped': reshaped_target_scenarios})
    return _replay_main8(ctx, rep)
