(* Name-based fragments of classifiers and sub-packages ('#//a/b/C'), as
   EModelElement.eURIFragment writes them (parent's fragment + '/' + name) and as
   Resource._navigate_from walks them: at each segment the SUB-PACKAGES of the
   current package are searched first, the classifiers only when no sub-package has
   that name.  Names are numbers here.  No proofs in this file. *)
From Coq Require Import ZArith List Bool.
Import ListNotations.

Inductive pkg : Type := Pkg (name : Z) (classifiers : list Z) (subs : list pkg).

Definition pkg_name (p : pkg) : Z := match p with Pkg n _ _ => n end.
Definition pkg_classifiers (p : pkg) : list Z := match p with Pkg _ c _ => c end.
Definition pkg_subs (p : pkg) : list pkg := match p with Pkg _ _ s => s end.

(* what a fragment designates: a package (by the path of names from the root) or a
   classifier of such a package *)
Inductive target : Type :=
| TPackage (path : list Z)
| TClassifier (path : list Z) (name : Z).

Fixpoint find_sub (n : Z) (l : list pkg) : option pkg :=
  match l with
  | [] => None
  | q :: r => if Z.eqb (pkg_name q) n then Some q else find_sub n r
  end.

Definition has_classifier (p : pkg) (n : Z) : bool := existsb (Z.eqb n) (pkg_classifiers p).

(* the segments written for a target *)
Definition fragment (t : target) : list Z :=
  match t with
  | TPackage path => path
  | TClassifier path n => path ++ [n]
  end.

(* the walk: sub-packages first *)
Fixpoint resolve_from (p : pkg) (here : list Z) (segs : list Z) : option target :=
  match segs with
  | [] => Some (TPackage here)
  | n :: rest =>
      match find_sub n (pkg_subs p) with
      | Some q => resolve_from q (here ++ [n]) rest
      | None =>
          match rest with
          | [] => if has_classifier p n then Some (TClassifier here n) else None
          | _ => None      (* the members of a classifier are another model's business *)
          end
      end
  end.

Definition resolve (root : pkg) (segs : list Z) : option target := resolve_from root [] segs.

(* the package reached by a path of sub-package names *)
Fixpoint package_at (p : pkg) (path : list Z) : option pkg :=
  match path with
  | [] => Some p
  | n :: rest => match find_sub n (pkg_subs p) with
                 | Some q => package_at q rest
                 | None => None
                 end
  end.

(* no classifier of p is named like a sub-package of p *)
Definition kinds_disjoint_at (p : pkg) : bool :=
  forallb (fun c => match find_sub c (pkg_subs p) with Some _ => false | None => true end)
          (pkg_classifiers p).

(* ---- executable face for the correspondence (harness/props/c10.py, family nsprefix) ----
   tokens: a package in preorder  name, #classifiers, classifier names..., #sub-packages, sub-packages...
           then  #segments, segments...
   answer: [0] nothing; 1 :: path  a package; 2 :: path ++ [name]  a classifier *)
Fixpoint dec_n (dec : list Z -> option (pkg * list Z)) (k : nat) (ts : list Z) : option (list pkg * list Z) :=
  match k with
  | O => Some ([], ts)
  | S k' => match dec ts with
            | Some (p, r) => match dec_n dec k' r with
                             | Some (ps, r') => Some (p :: ps, r')
                             | None => None
                             end
            | None => None
            end
  end.

Fixpoint dec_pkg (fuel : nat) (ts : list Z) : option (pkg * list Z) :=
  match fuel with
  | O => None
  | S f =>
      match ts with
      | name :: nc :: r =>
          let k := Z.to_nat nc in
          match skipn k r with
          | ns :: r2 =>
              match dec_n (dec_pkg f) (Z.to_nat ns) r2 with
              | Some (subs, r3) => Some (Pkg name (firstn k r) subs, r3)
              | None => None
              end
          | [] => None
          end
      | _ => None
      end
  end.

Definition run_namefrag (ts : list Z) : list Z :=
  match dec_pkg (S (length ts)) ts with
  | Some (root, n :: segs) =>
      match resolve root (firstn (Z.to_nat n) segs) with
      | Some (TPackage path) => 1%Z :: path
      | Some (TClassifier path c) => 2%Z :: path ++ [c]
      | None => [0%Z]
      end
  | _ => [0%Z]
  end.
