#!/bin/bash
# Build everything under /verif from files on disk only (offline).
#   1. translator: regenerate coq/Gen/*.v from /repo's current working tree
#   2. coq_makefile + make (full .vo build, no -vos)
#   3. extraction + ocamlfind ocamlopt -> build/modelrun
set -u
cd "$(dirname "$0")"
V=$(pwd)
mkdir -p build evidence replays
exec 9>build/.lock
flock 9
if [ -f translator/translate.py ]; then
  /venv/bin/python -P translator/translate.py || { [ -s build/translator.status ] || echo "TRANSLATOR-FAILED" > build/translator.status; }
fi
cd "$V/coq"
if [ ! -f Makefile ] || [ _CoqProject -nt Makefile ]; then
  coq_makefile -f _CoqProject -o Makefile 2>&1 | grep -v -i warning
fi
timeout 3000 make -k -j"${VERIF_JOBS:-16}" > "$V/build/make.log" 2>&1
echo "make-exit=$?" >> "$V/build/make.log"
cd "$V/build"
# extraction (needs only Model/*.vo); rebuild the driver when the extracted code changed
if timeout 600 coqc -Q "$V/coq" PyecoreV "$V/coq/Extract/Extract.v" > extract.log 2>&1; then
  if ! cmp -s modelgen.ml modelgen.ml.built 2>/dev/null || [ ! -x modelrun ] \
     || [ "$V/ocaml/driver.ml" -nt modelrun ] || [ "$V/ocaml/models.ml" -nt modelrun ]; then
    cp "$V/ocaml/driver.ml" "$V/ocaml/models.ml" .
    rm -f modelgen.mli
    if ocamlfind ocamlopt -O3 -w -a modelgen.ml models.ml driver.ml -o modelrun > ocaml.log 2>&1 \
       || ocamlfind ocamlopt -w -a modelgen.ml models.ml driver.ml -o modelrun > ocaml.log 2>&1; then
      cp modelgen.ml modelgen.ml.built
    else
      echo "ocaml build failed"; cat ocaml.log; exit 2
    fi
  fi
else
  echo "extraction failed"; cat extract.log; exit 2
fi
grep -q "make-exit=0" "$V/build/make.log" || { echo "coq build has failures (see build/make.log)"; tail -30 "$V/build/make.log"; }
exit 0
