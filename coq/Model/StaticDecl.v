(* Static and dynamic DECLARATION of one metamodel, as far as the reflective
   description is concerned (property C13, first half).

   One abstract description `descr` (classes with supertypes, ordered feature
   declarations, operations; the data types visible in the module) is
     * rendered as Python class statements (`render_static`: what
       harness/kstatic.py and harness/staticdecl.py write, MetaEClass or
       @EMetaclass style) and executed by `promote`: class body evaluation
       (objects are created before the class exists, the namespace is a
       dict), then MetaEClass.__init__ / EMetaclass -> Core.register_classifier
       -> Core._promote (ecore.py 73-114) statement by statement, @abstract,
       then the module-level statements `C.f.eType = T`, `C.f.eOpposite = D.g`;
     * built through the dynamic API (`build_dynamic`: EClass(name,
       abstract=..), eSuperTypes.append, eStructuralFeatures.append(EAttribute
       (name, type, ..)), eOpposite assignments, eOperations.append) as
       harness/kimpl.py and harness/staticdecl.py do;
   and `describe` reads the resulting objects back the way
   harness/props/c13.py's description helper does (names, flags, supertypes in
   order, features IN ORDER, opposite as (containing class, name), default).

   Feature objects have identity: a location (class statement, allocation
   index); names, owner, type and opposite are fields mutated in place.

   Left out (say so where it matters): Python's C3 check of the bases (a class
   statement is assumed to be accepted), attribute lookup through the MRO in
   `C.f` (own namespace only; anything else is `None` = outside the model),
   class bodies that mention an existing feature object a second time
   (aliasing), the dunder entries Python itself puts into a class namespace
   (never features), data types and classes live in separate scopes, and the
   creation of the Python method by eOperations.append (C20).  No proofs here. *)
From Coq Require Import String Ascii ZArith Bool List.
From PyecoreV Require Import Lib.PyBase Lib.PyList Model.Operations.
Import ListNotations.
Open Scope Z_scope.

(* ---------- the abstract description ---------- *)

Definition qname := (name * name)%type.          (* class name, feature name *)

Record fdecl : Type := mkF {
  fd_name : name;
  fd_ref : bool;                  (* EReference / EAttribute *)
  fd_type : name;                 (* data type name / class name *)
  fd_lower : Z;
  fd_upper : Z;
  fd_ordered : bool;
  fd_unique : bool;
  fd_cont : bool;
  fd_opp : option qname;
  fd_default : option Z           (* token of the default_value literal *)
}.

Definition odecl := (name * list (name * bool))%type.   (* operation: name, (parameter, required) *)

Record cdecl : Type := mkC {
  cd_name : name;
  cd_abstract : bool;
  cd_supers : list name;
  cd_feats : list fdecl;
  cd_ops : list odecl
}.

(* a data type bound in the module (EInt.., enumerations): name, token of its default_value *)
Record tdecl : Type := mkT { td_name : name; td_default : option Z }.

Record descr : Type := mkD { d_types : list tdecl; d_classes : list cdecl }.

(* ---------- Python source, as data ---------- *)

Inductive style : Type :=
| SMeta        (* class X(EObject, metaclass=MetaEClass) *)
| SDeco        (* @EMetaclass class X(object) *)
| SInherit.    (* class X(A, B): the metaclass comes from the bases *)

Inductive base : Type :=
| BEObject
| BObject
| BName (n : name).     (* a name bound by an earlier class statement of the module *)

(* EAttribute(...) / EReference(...) written in a class body *)
Record fentry : Type := mkFE {
  fe_name : option name;          (* explicit name= argument *)
  fe_ref : bool;
  fe_type : option name;          (* eType= argument: a data type name *)
  fe_lower : Z;
  fe_upper : Z;
  fe_ordered : bool;
  fe_unique : bool;
  fe_cont : bool;
  fe_default : option Z
}.

Inductive entry : Type :=
| EFeat (k : name) (e : fentry)       (* k = EAttribute(...) *)
| EMem (k : name) (m : member).       (* def k(...) / k = staticmethod(..) / k = <other> *)

Record pyclass : Type := mkPC {
  py_name : name;
  py_style : style;
  py_abstract : bool;             (* @abstract, outermost decorator *)
  py_bases : list base;
  py_body : list entry
}.

Inductive stmt : Type :=
| SSetType (c k t : name)             (* c.k.eType = t *)
| SSetOpp (a b : qname).              (* a.eOpposite = b *)

Record pymodule : Type := mkM {
  m_types : list tdecl;
  m_classes : list pyclass;
  m_post : list stmt
}.

(* ---------- objects of both worlds ---------- *)

Definition loc := (nat * nat)%type.      (* class statement / class index, allocation index *)

Inductive tyref : Type :=
| TyData (n : name)
| TyClass (i : nat).

(* an EStructuralFeature object *)
Record fobj : Type := mkO {
  o_name : option name;
  o_ref : bool;
  o_type : option tyref;
  o_lower : Z;
  o_upper : Z;
  o_ordered : bool;
  o_unique : bool;
  o_cont : bool;
  o_opp : option loc;             (* _eopposite *)
  o_default : option Z;           (* default_value *)
  o_owner : option nat            (* eContainingClass *)
}.

Definition set_name (n : name) (o : fobj) : fobj :=
  mkO (Some n) (o_ref o) (o_type o) (o_lower o) (o_upper o) (o_ordered o) (o_unique o) (o_cont o)
      (o_opp o) (o_default o) (o_owner o).
Definition set_type (t : tyref) (o : fobj) : fobj :=
  mkO (o_name o) (o_ref o) (Some t) (o_lower o) (o_upper o) (o_ordered o) (o_unique o) (o_cont o)
      (o_opp o) (o_default o) (o_owner o).
Definition set_oppf (l : loc) (o : fobj) : fobj :=
  mkO (o_name o) (o_ref o) (o_type o) (o_lower o) (o_upper o) (o_ordered o) (o_unique o) (o_cont o)
      (Some l) (o_default o) (o_owner o).
Definition set_owner (i : nat) (o : fobj) : fobj :=
  mkO (o_name o) (o_ref o) (o_type o) (o_lower o) (o_upper o) (o_ordered o) (o_unique o) (o_cont o)
      (o_opp o) (o_default o) (Some i).

(* an EClass object: supertypes are class indices, features are locations *)
Record eclass : Type := mkE {
  e_name : name;
  e_abstract : bool;
  e_supers : list nat;
  e_feats : list loc;
  e_ops : list (name * list param)
}.

Definition heap := list (list fobj).
Record world : Type := mkW { w_heap : heap; w_ecl : list eclass }.

Fixpoint upd_nth {A} (n : nat) (f : A -> A) (l : list A) {struct l} : list A :=
  match l with
  | [] => []
  | x :: r => match n with O => f x :: r | S n' => x :: upd_nth n' f r end
  end.

(* in-place mutation of the object at a location *)
Definition upd_loc (l : loc) (f : fobj -> fobj) (h : heap) : heap :=
  upd_nth (fst l) (upd_nth (snd l) f) h.

Definition get_loc (l : loc) (h : heap) : option fobj :=
  match nth_error h (fst l) with
  | Some row => nth_error row (snd l)
  | None => None
  end.

(* EReference.eOpposite setter: self._eopposite = value; value._eopposite = self *)
Definition set_opp (p q : loc) (h : heap) : heap :=
  upd_loc q (set_oppf p) (upd_loc p (set_oppf q) h).

(* ---------- Python dicts and scopes ---------- *)

(* d[k] = v : an existing key keeps its position *)
Fixpoint dict_set {V} (d : list (name * V)) (k : name) (v : V) : list (name * V) :=
  match d with
  | [] => [(k, v)]
  | (k', v') :: r => if name_eqb k k' then (k', v) :: r else (k', v') :: dict_set r k v
  end.

Fixpoint dict_get {V} (d : list (name * V)) (k : name) : option V :=
  match d with
  | [] => None
  | (k', v) :: r => if name_eqb k k' then Some v else dict_get r k
  end.

(* a sequence of bindings / dict assignments read afterwards: the last one wins *)
Fixpoint assoc_last {K V} (eqb : K -> K -> bool) (k : K) (l : list (K * V)) : option V :=
  match l with
  | [] => None
  | (k', v) :: r =>
    match assoc_last eqb k r with
    | Some v' => Some v'
    | None => if eqb k k' then Some v else None
    end
  end.

Definition qname_eqb (a b : qname) : bool := name_eqb (fst a) (fst b) && name_eqb (snd a) (snd b).

Definition is_some {A} (o : option A) : bool := match o with Some _ => true | None => false end.

Fixpoint number_from {A} (i : nat) (l : list A) : list (nat * A) :=
  match l with
  | [] => []
  | x :: r => (i, x) :: number_from (S i) r
  end.

Definition lookup_type (types : list tdecl) (t : name) : option tdecl :=
  assoc_last name_eqb t (map (fun td => (td_name td, td)) types).

(* an ordered unique collection: append of a present element changes nothing *)
Definition oset_add (j : nat) (acc : list nat) : list nat :=
  if existsb (Nat.eqb j) acc then acc else acc ++ [j].

(* value of a class namespace entry *)
Inductive value : Type :=
| VFeat (l : loc)
| VMem (fname : name) (m : member).    (* fname: the function's __name__ *)

Definition ns := list (name * value).

(* the module scope: class name -> (index of the class statement, its __dict__) *)
Definition pyscope := list (name * (nat * ns)).

Definition lookup_py (py : pyscope) (n : name) : option (nat * ns) := assoc_last name_eqb n py.

(* ---------- execution of a class statement ---------- *)

(* EAttribute.__init__ / EReference.__init__ in a class body.  None: the call
   raises (unbound type name) or is outside the model (inline type or default
   on a reference). *)
Definition new_feature (types : list tdecl) (fe : fentry) : option fobj :=
  if fe_ref fe then
    match fe_type fe, fe_default fe with
    | None, None =>
      Some (mkO (fe_name fe) true None (fe_lower fe) (fe_upper fe) (fe_ordered fe) (fe_unique fe)
                (fe_cont fe) None None None)
    | _, _ => None
    end
  else
    match fe_type fe with
    | None =>
      Some (mkO (fe_name fe) false None (fe_lower fe) (fe_upper fe) (fe_ordered fe) (fe_unique fe)
                false None (fe_default fe) None)
    | Some t =>
      match lookup_type types t with
      | None => None
      | Some td =>
        (* default_value is None and isinstance(eType, EDataType): the type's default *)
        Some (mkO (fe_name fe) false (Some (TyData t)) (fe_lower fe) (fe_upper fe) (fe_ordered fe)
                  (fe_unique fe) false None
                  (match fe_default fe with Some d => Some d | None => td_default td end) None)
      end
    end.

(* evaluation of the class body: the namespace (keys mangled by the compiler)
   and the objects allocated, in allocation order *)
Fixpoint eval_body (types : list tdecl) (cname : name) (i : nat) (b : list entry)
         (d : ns) (row : list fobj) : option (ns * list fobj) :=
  match b with
  | [] => Some (d, row)
  | EFeat k fe :: r =>
    match new_feature types fe with
    | None => None
    | Some o => eval_body types cname i r (dict_set d (mangle cname k) (VFeat (i, length row))) (row ++ [o])
    end
  | EMem k m :: r => eval_body types cname i r (dict_set d (mangle cname k) (VMem k m)) row
  end.

Definition base_eqb (a b : base) : bool :=
  match a, b with
  | BEObject, BEObject => true
  | BObject, BObject => true
  | BName x, BName y => name_eqb x y
  | _, _ => false
  end.

Fixpoint dup_bases (l : list base) : bool :=
  match l with
  | [] => false
  | b :: r => existsb (base_eqb b) r || dup_bases r
  end.

Definition is_bname (b : base) : bool := match b with BName _ => true | _ => false end.
Definition is_beobject (b : base) : bool := match b with BEObject => true | _ => false end.
Definition is_bobject (b : base) : bool := match b with BObject => true | _ => false end.

(* the class headers of the modelled fragment (everything else: None) *)
Definition header_ok (py : pyscope) (c : pyclass) : bool :=
  let bs := py_bases c in
  negb (dup_bases bs)
  && forallb (fun b => match b with BName n => is_some (lookup_py py n) | _ => true end) bs
  && match py_style c with
     | SMeta => negb (existsb is_bobject bs) && (existsb is_beobject bs || existsb is_bname bs)
     | SDeco => match bs with [] => true | [BObject] => true | _ => false end
     | SInherit => negb (existsb is_bobject bs) && existsb is_bname bs
     end.

(* EMetaclass: object is replaced by EObject (EObject is put first otherwise) *)
Definition effective_bases (c : pyclass) : list base :=
  match py_style c with SDeco => [BEObject] | _ => py_bases c end.

(* _promote, "init super types": EObject is skipped, a base without eClass is ignored *)
Fixpoint promote_supers (py : pyscope) (bs : list base) (acc : list nat) : list nat :=
  match bs with
  | [] => acc
  | BName n :: r =>
    match lookup_py py n with
    | Some (j, _) => promote_supers py r (oset_add j acc)
    | None => promote_supers py r acc
    end
  | _ :: r => promote_supers py r acc
  end.

(* names _promote and EClass.__new__ assign on the class before the loop over __dict__ *)
Definition reserved : list name :=
  map of_string ["dyn_inst"; "eClass"; "_staticEClass"]%string.

Definition overwrite_reserved (d : ns) : ns :=
  fold_left (fun d k => dict_set d k (VMem k MOther)) reserved d.

(* `if not feature.name: feature.name = k`, then eStructuralFeatures.append(feature) *)
Definition promote_feat (i : nat) (k : name) (o : fobj) : fobj :=
  set_owner i (match o_name o with
               | None => set_name k o
               | Some [] => set_name k o
               | Some _ => o
               end).

(* the loop over rcls.__dict__.items(), features *)
Fixpoint promote_feats (i : nat) (d : ns) (h : heap) (acc : list loc) : heap * list loc :=
  match d with
  | [] => (h, acc)
  | (k, VFeat l) :: r => promote_feats i r (upd_loc l (promote_feat i k) h) (acc ++ [l])
  | (_, VMem _ _) :: r => promote_feats i r h acc
  end.

(* the same loop, functions (Operations.promote_ns) *)
Definition ns_members (d : ns) : list (name * name * member) :=
  flat_map (fun kv => match snd kv with VMem f m => [(fst kv, f, m)] | VFeat _ => [] end) d.

Record sstate : Type := mkS { s_world : world; s_py : pyscope }.

Definition exec_class (types : list tdecl) (c : pyclass) (s : sstate) : option sstate :=
  let py := s_py s in
  let i := length py in
  if negb (header_ok py c) then None else
  match eval_body types (py_name c) i (py_body c) [] [] with
  | None => None
  | Some (d, row) =>
    let h1 := w_heap (s_world s) ++ [row] in
    (* Core._promote *)
    let d' := overwrite_reserved d in
    let sups := promote_supers py (effective_bases c) [] in
    let '(h2, feats) := promote_feats i d' h1 [] in
    let ops := promote_ns (ns_members d') in
    (* _promote leaves abstract False; @abstract sets it afterwards *)
    let e := mkE (py_name c) (py_abstract c) sups feats ops in
    Some (mkS (mkW h2 (w_ecl (s_world s) ++ [e])) (py ++ [(py_name c, (i, d'))]))
  end.

Fixpoint exec_classes (types : list tdecl) (cs : list pyclass) (s : sstate) : option sstate :=
  match cs with
  | [] => Some s
  | c :: r => match exec_class types c s with
              | Some s' => exec_classes types r s'
              | None => None
              end
  end.

(* ---------- module-level statements ---------- *)

(* `C.k`: own namespace only (no MRO walk), must be a feature *)
Definition resolve_s (py : pyscope) (q : qname) : option loc :=
  match lookup_py py (fst q) with
  | Some (_, d) => match dict_get d (snd q) with
                   | Some (VFeat l) => Some l
                   | _ => None
                   end
  | None => None
  end.

Fixpoint exec_opps (R : qname -> option loc) (l : list (qname * qname)) (h : heap) : option heap :=
  match l with
  | [] => Some h
  | (a, b) :: r =>
    match R a, R b with
    | Some p, Some q => exec_opps R r (set_opp p q h)
    | _, _ => None
    end
  end.

Definition exec_stmt (py : pyscope) (types : list tdecl) (s : stmt) (h : heap) : option heap :=
  match s with
  | SSetType c k t =>
    match resolve_s py (c, k) with
    | None => None
    | Some l =>
      match lookup_py py t with
      | Some (j, _) => Some (upd_loc l (set_type (TyClass j)) h)
      | None => match lookup_type types t with
                | Some _ => Some (upd_loc l (set_type (TyData t)) h)
                | None => None
                end
      end
    end
  | SSetOpp a b => exec_opps (resolve_s py) [(a, b)] h
  end.

Fixpoint exec_post (py : pyscope) (types : list tdecl) (l : list stmt) (h : heap) : option heap :=
  match l with
  | [] => Some h
  | s :: r => match exec_stmt py types s h with
              | Some h' => exec_post py types r h'
              | None => None
              end
  end.

(* the whole module: class statements (each one promoted), then the statements *)
Definition promote (m : pymodule) : option world :=
  match exec_classes (m_types m) (m_classes m) (mkS (mkW [] []) []) with
  | None => None
  | Some s =>
    match exec_post (s_py s) (m_types m) (m_post m) (w_heap (s_world s)) with
    | None => None
    | Some h => Some (mkW h (w_ecl (s_world s)))
    end
  end.

(* ---------- rendering a description as a static module ---------- *)

Definition feat_entry (f : fdecl) : entry :=
  EFeat (fd_name f)
        (mkFE None (fd_ref f) (if fd_ref f then None else Some (fd_type f)) (fd_lower f) (fd_upper f)
              (fd_ordered f) (fd_unique f) (fd_ref f && fd_cont f) (fd_default f)).

(* def name(self, p, q=None): *)
Definition op_sig (ps : list (name * bool)%type) : signature :=
  self_code :: map (fun p : (name * bool)%type => mkPcode (fst p) (if snd p then None else Some (TLit NONE_DEFAULT))) ps.

Definition op_entry (o : odecl) : entry :=
  EMem (fst o) (MFunc (mkSpec (map pc_name (op_sig (snd o))) (defaults_of (op_sig (snd o))))).

(* def __init__(self, **kwargs): written by the MetaEClass style *)
Definition init_entry : entry := EMem (of_string "__init__") (MFunc (mkSpec [SELF] [])).

Definition render_class (deco : bool) (c : cdecl) : pyclass :=
  mkPC (cd_name c)
       (match cd_supers c with [] => if deco then SDeco else SMeta | _ => SInherit end)
       (cd_abstract c)
       (match cd_supers c with
        | [] => [if deco then BObject else BEObject]
        | sups => map BName sups
        end)
       (map feat_entry (cd_feats c) ++ map op_entry (cd_ops c) ++ (if deco then [] else [init_entry])).

Definition type_stmts (cs : list cdecl) : list stmt :=
  flat_map (fun c => flat_map (fun f => if fd_ref f then [SSetType (cd_name c) (fd_name f) (fd_type f)] else [])
                              (cd_feats c)) cs.

(* every declared opposite, in declaration order: (owner.feature, opposite) *)
Definition all_opps (cs : list cdecl) : list (qname * qname) :=
  flat_map (fun c => flat_map (fun f => match fd_opp f with
                                        | Some q => [((cd_name c, fd_name f), q)]
                                        | None => []
                                        end) (cd_feats c)) cs.

Definition same_pair (p q : qname * qname) : bool :=
  (qname_eqb (fst p) (fst q) && qname_eqb (snd p) (snd q))
  || (qname_eqb (fst p) (snd q) && qname_eqb (snd p) (fst q)).

(* the renderer writes one assignment per unordered pair (its `seen` set) *)
Fixpoint dedup_pairs (seen l : list (qname * qname)) : list (qname * qname) :=
  match l with
  | [] => []
  | p :: r => if existsb (same_pair p) seen then dedup_pairs seen r
              else p :: dedup_pairs (p :: seen) r
  end.

(* classes are written in the order of the description (the renderers' loop
   writes a class once its supertypes are written: the same order whenever
   supertypes are declared first, which wf_descr demands) *)
Definition render_static (deco : bool) (D : descr) : pymodule :=
  mkM (d_types D)
      (map (render_class deco) (d_classes D))
      (type_stmts (d_classes D)
       ++ map (fun p => SSetOpp (fst p) (snd p)) (dedup_pairs [] (all_opps (d_classes D)))).

(* ---------- the dynamic construction ---------- *)

Fixpoint all_some {A} (l : list (option A)) : option (list A) :=
  match l with
  | [] => Some []
  | None :: _ => None
  | Some x :: r => match all_some r with Some xs => Some (x :: xs) | None => None end
  end.

(* classes[name] = EClass(name, abstract=..) for every class, read afterwards *)
Definition class_index (cs : list cdecl) : list (name * nat) :=
  map (fun ic => (cd_name (snd ic), fst ic)) (number_from O cs).

Definition lookup_cls (cs : list cdecl) (n : name) : option nat :=
  assoc_last name_eqb n (class_index cs).

(* EAttribute(name, type, lower=, upper=, ordered=, unique=, default_value=) /
   EReference(name, classes[type], ..., containment=), then
   eStructuralFeatures.append *)
Definition dyn_obj (types : list tdecl) (cs : list cdecl) (i : nat) (f : fdecl) : option fobj :=
  if fd_ref f then
    match lookup_cls cs (fd_type f), fd_default f with
    | Some j, None =>
      Some (mkO (Some (fd_name f)) true (Some (TyClass j)) (fd_lower f) (fd_upper f) (fd_ordered f)
                (fd_unique f) (fd_cont f) None None (Some i))
    | _, _ => None
    end
  else
    match lookup_type types (fd_type f) with
    | None => None
    | Some td =>
      Some (mkO (Some (fd_name f)) false (Some (TyData (fd_type f))) (fd_lower f) (fd_upper f)
                (fd_ordered f) (fd_unique f) false None
                (match fd_default f with Some d => Some d | None => td_default td end) (Some i))
    end.

Definition dyn_heap (types : list tdecl) (cs : list cdecl) : option heap :=
  all_some (map (fun ic => all_some (map (dyn_obj types cs (fst ic)) (cd_feats (snd ic)))) (number_from O cs)).

(* byname[(class, feature)] = f *)
Definition byname (cs : list cdecl) : list (qname * loc) :=
  flat_map (fun ic => map (fun jf => ((cd_name (snd ic), fd_name (snd jf)), (fst ic, fst jf)))
                          (number_from O (cd_feats (snd ic)))) (number_from O cs).

Definition resolve_d (cs : list cdecl) (q : qname) : option loc := assoc_last qname_eqb q (byname cs).

Definition dyn_supers (cs : list cdecl) (c : cdecl) : option (list nat) :=
  match all_some (map (lookup_cls cs) (cd_supers c)) with
  | Some js => Some (fold_left (fun acc j => oset_add j acc) js [])
  | None => None
  end.

(* EOperation(name, params=[EParameter(p, eType=ENativeType, required=r)]) *)
Definition dyn_op (o : odecl) : name * list param :=
  (fst o, map (fun p => mkParam (fst p) (snd p) (DLit NONE_DEFAULT)) (snd o)).

Definition dyn_ecl (cs : list cdecl) (sups : list (list nat)) : list eclass :=
  map (fun x => let '((i, c), s) := x in
                mkE (cd_name c) (cd_abstract c) s
                    (map (fun jf => (i, fst jf)) (number_from O (cd_feats c)))
                    (map dyn_op (cd_ops c)))
      (combine (number_from O cs) sups).

Definition build_dynamic (D : descr) : option world :=
  let cs := d_classes D in
  match all_some (map (dyn_supers cs) cs), dyn_heap (d_types D) cs with
  | Some sups, Some h0 =>
    match exec_opps (resolve_d cs) (all_opps cs) h0 with
    | Some h => Some (mkW h (dyn_ecl cs sups))
    | None => None
    end
  | _, _ => None
  end.

(* ---------- reading the description back (harness/props/c13.py, reflect) ---------- *)

Definition cls_name (w : world) (i : nat) : name :=
  match nth_error (w_ecl w) i with Some e => e_name e | None => [] end.

Definition type_name (w : world) (t : option tyref) : name :=
  match t with
  | Some (TyData n) => n
  | Some (TyClass i) => cls_name w i
  | None => []
  end.

Definition oname (o : fobj) : name := match o_name o with Some n => n | None => [] end.

Definition describe_feat (w : world) (l : loc) : fdecl :=
  match get_loc l (w_heap w) with
  | Some o =>
    mkF (oname o) (o_ref o) (type_name w (o_type o)) (o_lower o) (o_upper o) (o_ordered o)
        (o_unique o) (o_cont o)
        (match o_opp o with
         | Some l' =>
           match get_loc l' (w_heap w) with
           | Some o' => Some (match o_owner o' with Some i => cls_name w i | None => [] end, oname o')
           | None => None
           end
         | None => None
         end)
        (o_default o)
  | None => mkF [] false [] 0 0 false false false None None
  end.

(* static reflection lists the receiver; the declaration does not *)
Definition strip_self (ps : list param) : list param :=
  match ps with
  | p :: r => if name_eqb (p_name p) SELF then r else ps
  | [] => []
  end.

Definition describe_op (o : name * list param) : odecl :=
  (fst o, map (fun p => (p_name p, p_required p)) (strip_self (snd o))).

Definition describe (w : world) : list cdecl :=
  map (fun e => mkC (e_name e) (e_abstract e) (map (cls_name w) (e_supers e))
                    (map (describe_feat w) (e_feats e)) (map describe_op (e_ops e)))
      (w_ecl w).

(* the description itself, the default of an attribute resolved against its type *)
Definition canon_feat (types : list tdecl) (f : fdecl) : fdecl :=
  if fd_ref f then f else
  mkF (fd_name f) false (fd_type f) (fd_lower f) (fd_upper f) (fd_ordered f) (fd_unique f) (fd_cont f)
      (fd_opp f)
      (match fd_default f with
       | Some d => Some d
       | None => match lookup_type types (fd_type f) with Some td => td_default td | None => None end
       end).

Definition canonical (D : descr) : list cdecl :=
  map (fun c => mkC (cd_name c) (cd_abstract c) (cd_supers c) (map (canon_feat (d_types D)) (cd_feats c))
                    (cd_ops c)) (d_classes D).

(* ---------- well-formed descriptions (boolean) ---------- *)

Definition find_fdecl (cs : list cdecl) (q : qname) : option fdecl :=
  match find (fun c => name_eqb (fst q) (cd_name c)) cs with
  | Some c => find (fun f => name_eqb (snd q) (fd_name f)) (cd_feats c)
  | None => None
  end.

Definition is_none {A} (o : option A) : bool := negb (is_some o).

Definition key_ok (k : name) : bool := negb (starts_dunder k) && negb (nmem k reserved).

Definition wf_feat (D : descr) (c : cdecl) (f : fdecl) : bool :=
  key_ok (fd_name f)
  && if fd_ref f then
       is_some (lookup_cls (d_classes D) (fd_type f)) && is_none (fd_default f)
       && match fd_opp f with
          | None => true
          | Some q =>
            match find_fdecl (d_classes D) q with
            | Some g => fd_ref g && match fd_opp g with
                                    | Some q' => qname_eqb q' (cd_name c, fd_name f)
                                    | None => false
                                    end
            | None => false
            end
          end
     else is_some (lookup_type (d_types D) (fd_type f)) && negb (fd_cont f) && is_none (fd_opp f).

Definition wf_op (o : odecl) : bool :=
  key_ok (fst o)
  && negb (has_dup (map fst (snd o)))
  && negb (nmem SELF (map fst (snd o)))
  && negb (req_after_opt false (op_sig (snd o))).

Definition wf_class (D : descr) (prev : list name) (c : cdecl) : bool :=
  negb (has_dup (map fd_name (cd_feats c) ++ map fst (cd_ops c)))
  && forallb (wf_feat D c) (cd_feats c)
  && forallb wf_op (cd_ops c)
  && negb (has_dup (cd_supers c))
  && forallb (fun s => nmem s prev) (cd_supers c).

Fixpoint wf_classes (D : descr) (prev : list name) (cs : list cdecl) : bool :=
  match cs with
  | [] => true
  | c :: r => wf_class D prev c && wf_classes D (prev ++ [cd_name c]) r
  end.

Definition wf_descr (D : descr) : bool :=
  negb (has_dup (map cd_name (d_classes D)))
  && negb (has_dup (map td_name (d_types D)))
  && forallb (fun c => negb (nmem (cd_name c) (map td_name (d_types D)))) (d_classes D)
  && wf_classes D [] (d_classes D).

(* ---------- token codec ---------- *)

Definition dec_z (t : list Z) : Z * list Z := match t with x :: r => (x, r) | [] => (0, []) end.
Definition dec_bool (t : list Z) : bool * list Z := match t with x :: r => (x =? 1, r) | [] => (false, []) end.
Definition dec_opt_z (t : list Z) : option Z * list Z :=
  match t with
  | 0 :: r => (None, r)
  | _ :: x :: r => (Some x, r)
  | _ => (None, [])
  end.

Fixpoint dec_n {A} (dec : list Z -> A * list Z) (k : nat) (t : list Z) : list A * list Z :=
  match k with
  | O => ([], t)
  | S k' => let '(x, r) := dec t in let '(xs, r') := dec_n dec k' r in (x :: xs, r')
  end.

Definition dec_count {A} (dec : list Z -> A * list Z) (t : list Z) : list A * list Z :=
  match t with k :: r => dec_n dec (Z.to_nat k) r | [] => ([], []) end.

Definition dec_opt_name (t : list Z) : option name * list Z :=
  match t with
  | 0 :: r => (None, r)
  | _ :: r => let '(n, r') := dec_name r in (Some n, r')
  | [] => (None, [])
  end.

Definition dec_opt_qname (t : list Z) : option qname * list Z :=
  match t with
  | 0 :: r => (None, r)
  | _ :: r => let '(c, r1) := dec_name r in let '(f, r2) := dec_name r1 in (Some (c, f), r2)
  | [] => (None, [])
  end.

(* feature: name ref type lower upper ordered unique cont opp default *)
Definition dec_fdecl (t : list Z) : fdecl * list Z :=
  let '(n, r1) := dec_name t in
  let '(rf, r2) := dec_bool r1 in
  let '(ty, r3) := dec_name r2 in
  let '(lo, r4) := dec_z r3 in
  let '(up, r5) := dec_z r4 in
  let '(od, r6) := dec_bool r5 in
  let '(un, r7) := dec_bool r6 in
  let '(ct, r8) := dec_bool r7 in
  let '(op, r9) := dec_opt_qname r8 in
  let '(df, r10) := dec_opt_z r9 in
  (mkF n rf ty lo up od un ct op df, r10).

Definition dec_oparam (t : list Z) : (name * bool) * list Z :=
  let '(n, r1) := dec_name t in let '(b, r2) := dec_bool r1 in ((n, b), r2).

Definition dec_odecl (t : list Z) : odecl * list Z :=
  let '(n, r1) := dec_name t in let '(ps, r2) := dec_count dec_oparam r1 in ((n, ps), r2).

(* class: name abstract nsupers supers nfeats feats nops ops *)
Definition dec_cdecl (t : list Z) : cdecl * list Z :=
  let '(n, r1) := dec_name t in
  let '(ab, r2) := dec_bool r1 in
  let '(su, r3) := dec_count dec_name r2 in
  let '(fs, r4) := dec_count dec_fdecl r3 in
  let '(os, r5) := dec_count dec_odecl r4 in
  (mkC n ab su fs os, r5).

Definition dec_tdecl (t : list Z) : tdecl * list Z :=
  let '(n, r1) := dec_name t in let '(d, r2) := dec_opt_z r1 in (mkT n d, r2).

Definition dec_descr (t : list Z) : descr * list Z :=
  let '(ts, r1) := dec_count dec_tdecl t in
  let '(cs, r2) := dec_count dec_cdecl r1 in
  (mkD ts cs, r2).

Definition enc_bool (b : bool) : Z := if b then 1 else 0.
Definition enc_opt_z (o : option Z) : list Z := match o with None => [0] | Some x => [1; x] end.

(* many: ETypedElement._compute_many *)
Definition many_of (upper : Z) : bool := (upper <? 0) || (1 <? upper).

Definition enc_fdecl (f : fdecl) : list Z :=
  enc_name (fd_name f) ++ [enc_bool (fd_ref f)] ++ enc_name (fd_type f)
  ++ [fd_lower f; fd_upper f; enc_bool (many_of (fd_upper f)); enc_bool (fd_ordered f);
      enc_bool (fd_unique f); enc_bool (fd_cont f)]
  ++ (match fd_opp f with None => [0] | Some q => 1 :: enc_name (fst q) ++ enc_name (snd q) end)
  ++ enc_opt_z (fd_default f).

Definition enc_odecl (o : odecl) : list Z :=
  enc_name (fst o) ++ Z.of_nat (length (snd o))
  :: flat_map (fun p => enc_name (fst p) ++ [enc_bool (snd p)]) (snd o).

Definition enc_cdecl (c : cdecl) : list Z :=
  enc_name (cd_name c) ++ [enc_bool (cd_abstract c)]
  ++ Z.of_nat (length (cd_supers c)) :: flat_map enc_name (cd_supers c)
  ++ Z.of_nat (length (cd_feats c)) :: flat_map enc_fdecl (cd_feats c)
  ++ Z.of_nat (length (cd_ops c)) :: flat_map enc_odecl (cd_ops c).

Definition enc_classes (l : list cdecl) : list Z := Z.of_nat (length l) :: flat_map enc_cdecl l.

Definition enc_result (o : option world) : list Z :=
  match o with
  | None => [0]
  | Some w => 1 :: enc_classes (describe w)
  end.

(* --- a module given directly (mode 1): arbitrary class bodies --- *)

Definition dec_base (t : list Z) : base * list Z :=
  match t with
  | 0 :: r => (BEObject, r)
  | 1 :: r => (BObject, r)
  | _ :: r => let '(n, r') := dec_name r in (BName n, r')
  | [] => (BObject, [])
  end.

(* entry: key kind ; kind 0: feature (optname ref opttype lower upper ordered unique cont default)
                     kind 1: function nargs ndefaults args ; 2: static/classmethod ; 3: other *)
Definition dec_entry (t : list Z) : entry * list Z :=
  let '(k, r) := dec_name t in
  match r with
  | 0 :: r0 =>
    let '(en, r1) := dec_opt_name r0 in
    let '(rf, r2) := dec_bool r1 in
    let '(ty, r3) := dec_opt_name r2 in
    let '(lo, r4) := dec_z r3 in
    let '(up, r5) := dec_z r4 in
    let '(od, r6) := dec_bool r5 in
    let '(un, r7) := dec_bool r6 in
    let '(ct, r8) := dec_bool r7 in
    let '(df, r9) := dec_opt_z r8 in
    (EFeat k (mkFE en rf ty lo up od un ct df), r9)
  | 1 :: na :: nd :: r0 =>
    let '(args, r1) := dec_n dec_name (Z.to_nat na) r0 in
    (EMem k (MFunc (mkSpec args (repeat (TLit NONE_DEFAULT) (Z.to_nat nd)))), r1)
  | 2 :: r0 => (EMem k MStatic, r0)
  | _ :: r0 => (EMem k MOther, r0)
  | [] => (EMem k MOther, [])
  end.

Definition dec_style (t : list Z) : style * list Z :=
  match t with
  | 0 :: r => (SMeta, r)
  | 1 :: r => (SDeco, r)
  | _ :: r => (SInherit, r)
  | [] => (SMeta, [])
  end.

Definition dec_pyclass (t : list Z) : pyclass * list Z :=
  let '(n, r1) := dec_name t in
  let '(st, r2) := dec_style r1 in
  let '(ab, r3) := dec_bool r2 in
  let '(bs, r4) := dec_count dec_base r3 in
  let '(bd, r5) := dec_count dec_entry r4 in
  (mkPC n st ab bs bd, r5).

Definition dec_stmt (t : list Z) : stmt * list Z :=
  match t with
  | 0 :: r =>
    let '(c, r1) := dec_name r in let '(k, r2) := dec_name r1 in let '(ty, r3) := dec_name r2 in
    (SSetType c k ty, r3)
  | _ :: r =>
    let '(c, r1) := dec_name r in let '(k, r2) := dec_name r1 in
    let '(c2, r3) := dec_name r2 in let '(k2, r4) := dec_name r3 in
    (SSetOpp (c, k) (c2, k2), r4)
  | [] => (SSetOpp ([], []) ([], []), [])
  end.

Definition dec_module (t : list Z) : pymodule :=
  let '(ts, r1) := dec_count dec_tdecl t in
  let '(cs, r2) := dec_count dec_pyclass r1 in
  let '(ps, _) := dec_count dec_stmt r2 in
  mkM ts cs ps.

(* staticdecl:
     0 deco descr  -> wf ; static result ; dynamic result ; canonical classes
     1 module      -> result of promote *)
Definition run_staticdecl (t : list Z) : list Z :=
  match t with
  | 0 :: dc :: r =>
    let '(D, _) := dec_descr r in
    [enc_bool (wf_descr D)] ++ enc_result (promote (render_static (dc =? 1) D))
    ++ enc_result (build_dynamic D) ++ enc_classes (canonical D)
  | 1 :: r => enc_result (promote (dec_module r))
  | _ => []
  end.
