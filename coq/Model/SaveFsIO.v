(* C16: the executable order-of-effects model instantiated with the orders
   translated from the source (Gen/SaveOrder.v).  No proofs here. *)
From Coq Require Import ZArith List.
From PyecoreV Require Import Model.SaveFs Gen.SaveOrder.

Definition run_savefs (t : list Z) : list Z :=
  run_savefs_with save_order_xmi save_order_json t.
