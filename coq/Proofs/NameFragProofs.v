From Coq Require Import ZArith List Bool Lia.
From PyecoreV Require Import Model.NameFrag.
Import ListNotations.

Lemma resolve_from_package :
  forall path p here q,
    package_at p path = Some q ->
    forall rest, resolve_from p here (path ++ rest) = resolve_from q (here ++ path) rest.
Proof.
  induction path as [|n path IH]; intros p here q Hat rest; simpl in *.
  - inversion Hat; subst. rewrite app_nil_r. reflexivity.
  - destruct (find_sub n (pkg_subs p)) as [s|] eqn:Hs; [|discriminate].
    rewrite (IH s (here ++ [n]) q Hat rest).
    rewrite <- app_assoc. reflexivity.
Qed.

Lemma has_classifier_in :
  forall p n, In n (pkg_classifiers p) -> has_classifier p n = true.
Proof.
  intros p n Hin. unfold has_classifier. apply existsb_exists.
  exists n. split; [exact Hin | apply Z.eqb_refl].
Qed.

Lemma disjoint_no_sub :
  forall p n, kinds_disjoint_at p = true -> In n (pkg_classifiers p) -> find_sub n (pkg_subs p) = None.
Proof.
  intros p n Hd Hin. unfold kinds_disjoint_at in Hd.
  rewrite forallb_forall in Hd. specialize (Hd n Hin).
  destruct (find_sub n (pkg_subs p)); [discriminate | reflexivity].
Qed.

(* a package is found at its own fragment *)
Lemma package_resolves :
  forall root path q, package_at root path = Some q ->
    resolve root (fragment (TPackage path)) = Some (TPackage path).
Proof.
  intros root path q Hat. unfold resolve, fragment.
  rewrite <- (app_nil_r path) at 1.
  rewrite (resolve_from_package path root [] q Hat []). simpl. reflexivity.
Qed.

(* a classifier that has no namesake among the sub-packages of its package is found at its own fragment *)
Lemma classifier_resolves :
  forall root path q n,
    package_at root path = Some q -> In n (pkg_classifiers q) -> kinds_disjoint_at q = true ->
    resolve root (fragment (TClassifier path n)) = Some (TClassifier path n).
Proof.
  intros root path q n Hat Hin Hd. unfold resolve, fragment.
  rewrite (resolve_from_package path root [] q Hat [n]). simpl.
  rewrite (disjoint_no_sub q n Hd Hin).
  rewrite (has_classifier_in q n Hin). reflexivity.
Qed.

(* with a namesake sub-package the classifier's fragment designates the sub-package *)
Lemma namesake_takes_the_subpackage :
  forall root path q n s,
    package_at root path = Some q -> find_sub n (pkg_subs q) = Some s ->
    resolve root (fragment (TClassifier path n)) = Some (TPackage (path ++ [n])).
Proof.
  intros root path q n s Hat Hs. unfold resolve, fragment.
  rewrite (resolve_from_package path root [] q Hat [n]). simpl.
  rewrite Hs. simpl. reflexivity.
Qed.

Lemma name_fragment_partial :
  forall root path q,
    package_at root path = Some q ->
    resolve root (fragment (TPackage path)) = Some (TPackage path) /\
    (forall n, In n (pkg_classifiers q) -> kinds_disjoint_at q = true ->
       resolve root (fragment (TClassifier path n)) = Some (TClassifier path n)).
Proof.
  intros root path q Hat. split.
  - exact (package_resolves root path q Hat).
  - intros n Hin Hd. exact (classifier_resolves root path q n Hat Hin Hd).
Qed.
