"""Runner of the source-to-Coq translators.  Every module translator/*_gen.py
exposes main() -> None, which (re)writes its coq/Gen/*.v files only when their
content changes and raises (or returns a non-empty error string) when the
source has a shape it does not recognise: fail closed.  Called by setup.sh on
every check."""
import glob
import importlib.util
import os
import sys
import traceback

HERE = os.path.dirname(os.path.abspath(__file__))
VERIF = os.path.dirname(HERE)
REPO = os.environ.get('VERIF_REPO', '/repo')


def write_if_changed(path, text):
    old = open(path).read() if os.path.exists(path) else None
    if old != text:
        os.makedirs(os.path.dirname(path), exist_ok=True)
        with open(path, 'w') as f:
            f.write(text)


def main():
    errors = []
    for p in sorted(glob.glob(os.path.join(HERE, '*_gen.py'))):
        name = os.path.basename(p)[:-3]
        try:
            spec = importlib.util.spec_from_file_location(name, p)
            mod = importlib.util.module_from_spec(spec)
            spec.loader.exec_module(mod)
            r = mod.main()
            if r:
                errors.append(f'{name}: {r}')
        except Exception:
            errors.append(f'{name}: ' + traceback.format_exc()[-800:])
    if errors:
        with open(os.path.join(VERIF, 'build', 'translator.status'), 'w') as f:
            f.write('\n'.join(errors))
        print('\n'.join(errors), file=sys.stderr)
        sys.exit(1)


if __name__ == '__main__':
    main()
