(* The XMI encoding decision for attribute values and reference lists
   (pyecore/resources/xmi.py, XMIResource._go_across, the `feat.is_attribute`
   and `not feat.containment` branches; _decode_eattribute_value; _decode_node;
   _decode_ereferences; resource.py Resource.normalize, _build_path_from).

   Level: the strings produced by EDataType.to_string (from_string . to_string
   = id is C17's subject).  A string is a list of code points.  What lxml
   does between the writer's infoset and the reader's infoset is one function
   here: an element whose text was set to '' is read back with text None
   (`lxml_text`); attribute values and non-empty texts come back unchanged
   (assumption A-lxml: XML-legal strings only).

   No proofs here. *)
From Coq Require Import ZArith List Bool.
Import ListNotations.
Open Scope Z_scope.

Definition str := list Z.

(* str.isspace() of a one-character string, CPython 3.12 (_PyUnicode_IsWhitespace);
   the same predicate drives str.split().  The table is compared with CPython over
   the whole code point range by the correspondence. *)
Definition isspace (c : Z) : bool :=
  ((9 <=? c) && (c <=? 13)) || ((28 <=? c) && (c <=? 32)) || (c =? 133) || (c =? 160)
  || (c =? 5760) || ((8192 <=? c) && (c <=? 8202)) || (c =? 8232) || (c =? 8233)
  || (c =? 8239) || (c =? 8287) || (c =? 12288).

Definition has_space (s : str) : bool := existsb isspace s.

Definition is_empty (s : str) : bool := match s with [] => true | _ => false end.

(* ' '.join(l) *)
Fixpoint join_sp (l : list str) : str :=
  match l with
  | [] => []
  | [s] => s
  | s :: r => s ++ 32 :: join_sp r
  end.

(* s.split() : maximal runs of non-whitespace; `cur` is the run being read *)
Fixpoint split_aux (cur : str) (s : str) : list str :=
  match s with
  | [] => if is_empty cur then [] else [cur]
  | c :: r =>
    if isspace c then (if is_empty cur then split_aux [] r else cur :: split_aux [] r)
    else split_aux (cur ++ [c]) r
  end.
Definition split_ws (s : str) : list str := split_aux [] s.

(* ---------- many-valued attribute ---------- *)

(* a value after `None if v is None else to_str(v)` *)
Definition ostr := option str.

(* `not string or any(x.isspace() for x in string)` *)
Definition special (o : ostr) : bool :=
  match o with
  | None => true
  | Some s => is_empty s || has_space s
  end.

Definition unsome (o : ostr) : str := match o with Some s => s | None => [] end.

(* what is added to the XML node for one feature *)
Inductive enc : Type :=
| EAbsent                          (* nothing written *)
| EAttr (text : str)               (* node.attrib[name] = text *)
| EElems (l : list ostr).          (* one sub-element per entry: None = xsi:nil="true", Some t = text t *)

(* _go_across, `feat.many` branch (an empty collection writes nothing) *)
Definition encode_many (vs : list ostr) : enc :=
  match vs with
  | [] => EAbsent
  | _ => if existsb special vs then EElems vs else EAttr (join_sp (map unsome vs))
  end.

(* what the reader finds as node.text for a text set by the writer *)
Definition lxml_text (t : str) : option str := if is_empty t then None else Some t.
(* `node.text if node.text else ''` *)
Definition text_or_empty (t : option str) : str := match t with Some s => s | None => [] end.

(* load: attribute form -> value.split(), each appended; element form ->
   xsi:nil appends None, otherwise the text (or '') is appended *)
Definition decode_many (e : enc) : list ostr :=
  match e with
  | EAbsent => []
  | EAttr t => map Some (split_ws t)
  | EElems l => map (fun o => match o with
                             | None => None
                             | Some t => Some (text_or_empty (lxml_text t))
                             end) l
  end.

(* ---------- single-valued attribute ---------- *)

Fixpoint str_eqb (a b : str) : bool :=
  match a, b with
  | [], [] => true
  | x :: a', y :: b' => (x =? y) && str_eqb a' b'
  | _, _ => false
  end.
Definition ostr_eqb (a b : ostr) : bool :=
  match a, b with
  | None, None => true
  | Some x, Some y => str_eqb x y
  | _, _ => false
  end.

(* _go_across for a single-valued attribute whose value is `v` (None or the
   to_string'ed value) and whose default value is `dflt`;
   sd = SERIALIZE_DEFAULT_VALUES.  Only features in _isset reach this code. *)
Definition encode_single (sd : bool) (dflt v : ostr) : enc :=
  match v with
  | None => if sd || negb (ostr_eqb dflt None) then EElems [None] else EAbsent
  | Some s => if negb (ostr_eqb v dflt) || sd then EAttr s else EAbsent
  end.

(* EAttribute.get_default_value: what an absent feature reads as.  The declared
   defaultValueLiteral (given here by the text of the value it denotes) wins over the
   explicit default_value, which wins over the default of the data type. *)
Definition effective_default (literal explicit type_default : ostr) : ostr :=
  match literal with
  | Some l => Some l
  | None => match explicit with Some e => Some e | None => type_default end
  end.

(* load: nothing -> the default; xsi:nil -> None; attribute -> its text *)
Definition decode_single (dflt : ostr) (e : enc) : ostr :=
  match e with
  | EAbsent => dflt
  | EAttr t => Some t
  | EElems (None :: _) => None
  | EElems (Some t :: _) => Some (text_or_empty (lxml_text t))
  | EElems [] => dflt
  end.

(* ---------- reference lists ---------- *)

(* Resource.normalize : `fragment.split()[-1:][0] if ' ' in fragment else fragment` *)
Definition has_blank (s : str) : bool := existsb (fun c => c =? 32) s.
Definition normalize (s : str) : str :=
  if has_blank s then last (split_ws s) [] else s.

(* many-valued, all targets inside the resource: `' '.join(embedded)` if any *)
Definition encode_refs (frags : list str) : enc :=
  match frags with [] => EAbsent | _ => EAttr (join_sp frags) end.

Definition has_hash (s : str) : bool := existsb (fun c => c =? 35) s.
Definition has_colon (s : str) : bool := existsb (fun c => c =? 58) s.
(* token.split(':')[0] *)
Fixpoint before_colon (s : str) : str :=
  match s with
  | [] => []
  | c :: r => if c =? 58 then [] else c :: before_colon r
  end.

(* XMIResource._split_references: a token 'prefix:Type' (a ':' and no '#', a registered prefix)
   that is followed by a token holding '#' only qualifies that token and is dropped.
   `known` : is this prefix in self.prefixes *)
Fixpoint drop_qualifiers (known : str -> bool) (toks : list str) : list str :=
  match toks with
  | [] => []
  | t :: r =>
    let dropped :=
      match r with
      | n :: _ => negb (has_hash t) && has_colon t && has_hash n && known (before_colon t)
      | [] => false
      end in
    if dropped then drop_qualifiers known r else t :: drop_qualifiers known r
  end.

(* _decode_ereferences: split, drop the type qualifiers, skip the empty tokens;
   _resolve_nonhref normalizes each token before it resolves it *)
Definition decode_refs (known : str -> bool) (e : enc) : list str :=
  match e with
  | EAttr t => map normalize (filter (fun x => negb (is_empty x)) (drop_qualifiers known (split_ws t)))
  | _ => []
  end.

(* _build_path_from, fragment mode: the id value is used when it reads back as a
   reference (non-empty, no whitespace, no leading '/', no '#'), else the URI fragment *)
Definition usable_id (s : str) : bool :=
  negb (is_empty s) && negb (match s with c :: _ => c =? 47 | [] => false end)
  && negb (existsb (fun c => c =? 35) s) && negb (has_space s).
Definition ref_fragment (id : option str) (uri_fragment : str) : str :=
  match id with
  | Some s => if usable_id s then s else uri_fragment
  | None => uri_fragment
  end.

(* ---------- token codec for the extracted driver ---------- *)

Fixpoint take {A} (n : nat) (l : list A) : list A :=
  match n, l with S n', x :: xs => x :: take n' xs | _, _ => [] end.
Fixpoint drop {A} (n : nat) (l : list A) : list A :=
  match n, l with S n', _ :: xs => drop n' xs | _, _ => l end.
Definition zlen {A} (l : list A) : Z := Z.of_nat (length l).

(* an optional string: -1 | len c1..clen *)
Definition get_ostr (t : list Z) : ostr * list Z :=
  match t with
  | n :: r => if n <? 0 then (None, r) else (Some (take (Z.to_nat n) r), drop (Z.to_nat n) r)
  | [] => (None, [])
  end.
Fixpoint get_ostrs (k : nat) (t : list Z) : list ostr * list Z :=
  match k with
  | O => ([], t)
  | S k' => let (o, r) := get_ostr t in let (os, r') := get_ostrs k' r in (o :: os, r')
  end.
Definition put_ostr (o : ostr) : list Z :=
  match o with None => [-1] | Some s => zlen s :: s end.
Definition put_ostrs (l : list ostr) : list Z := zlen l :: flat_map put_ostr l.
Definition put_enc (e : enc) : list Z :=
  match e with
  | EAbsent => [0]
  | EAttr t => 1 :: put_ostr (Some t)
  | EElems l => 2 :: put_ostrs l
  end.

(* requests:
     0 c1..cn                 -> isspace flags
     1 <str>                  -> split()
     2 k <ostr>*k             -> encode_many, then decode_many of it
     3 sd <ostr dflt> <ostr v>-> encode_single, then decode_single of it
     4 k <str>*k              -> encode_refs, then decode_refs of it (every prefix taken as registered)
     5 <ostr id> <str frag>   -> ref_fragment
     6 sd <ostr literal> <ostr explicit> <ostr type default> <ostr v>
                              -> effective default, encode_single against it, decode_single *)
Definition run_xmiattr (t : list Z) : list Z :=
  match t with
  | 0 :: cs => map (fun c => if isspace c then 1 else 0) cs
  | 1 :: r => let (o, _) := get_ostr r in put_ostrs (map Some (split_ws (unsome o)))
  | 2 :: k :: r =>
    let (vs, _) := get_ostrs (Z.to_nat k) r in
    let e := encode_many vs in put_enc e ++ put_ostrs (decode_many e)
  | 3 :: sd :: r =>
    let (d, r1) := get_ostr r in
    let (v, _) := get_ostr r1 in
    let e := encode_single (sd =? 1) d v in put_enc e ++ put_ostr (decode_single d e)
  | 4 :: k :: r =>
    let (vs, _) := get_ostrs (Z.to_nat k) r in
    let e := encode_refs (map unsome vs) in put_enc e ++ put_ostrs (map Some (decode_refs (fun _ => true) e))
  | 6 :: sd :: r =>
    let (l, r1) := get_ostr r in
    let (x, r2) := get_ostr r1 in
    let (td, r3) := get_ostr r2 in
    let (v, _) := get_ostr r3 in
    let d := effective_default l x td in
    let e := encode_single (sd =? 1) d v in put_ostr d ++ put_enc e ++ put_ostr (decode_single d e)
  | 5 :: r =>
    let (id, r1) := get_ostr r in
    let (f, _) := get_ostr r1 in
    put_ostr (Some (ref_fragment id (unsome f)))
  | _ => []
  end.
