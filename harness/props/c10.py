"""C10 — a metamodel survives a trip through an .ecore file.

Corners:
  oracle (implementation only): generated metamodels (dynamic API) -> save .ecore -> reload in a fresh ResourceSet:
      structural signatures equal; every concrete class of the reloaded package instantiable (abstract ones refuse);
      an instance document saved against the original loads against the reloaded metamodel into the same canonical dump
      as against the original; the shipped corpus tests/xmi/xmi-tests/*.ecore: load -> save -> load, same signature.
  correspondence (ties coq/Gen/EcoreMM.v, i.e. the translator's reading of pyecore/ecore.py, to the running library):
      (a) every row of the generated table against the live reflection of pyecore.ecore (names, kinds, types, bounds,
          containment, derived/transient, effective eOpposite),
      (b) the model's prediction `not_written` (extracted: run_ecoremm) against the set of signature features the
          oracle observed to be lost by save/reload,
      (c) Model/EcoreTable.v's `signature_features` against the list `signature` below is built from.
  theorems: coq/Props/C10.v.
The signature is *defined by* SIGNATURE_FEATURES: (metaclass, meta-feature) pairs read through eGet."""
import inspect
import json
import os
import random
import re
import shutil
import tempfile
import time

from harness import common

NS_ECORE = 'http://www.eclipse.org/emf/2002/Ecore'

SIGNATURE_FEATURES = [
    ('EPackage', 'name'), ('EPackage', 'nsURI'), ('EPackage', 'nsPrefix'),
    ('EPackage', 'eClassifiers'), ('EPackage', 'eSubpackages'), ('EPackage', 'eAnnotations'),
    ('EClass', 'name'), ('EClass', 'abstract'), ('EClass', 'eSuperTypes'),
    ('EClass', 'eStructuralFeatures'), ('EClass', 'eOperations'), ('EClass', 'eAnnotations'),
    ('EAttribute', 'name'), ('EAttribute', 'eType'), ('EAttribute', 'lowerBound'), ('EAttribute', 'upperBound'),
    ('EAttribute', 'ordered'), ('EAttribute', 'unique'), ('EAttribute', 'iD'), ('EAttribute', 'derived'),
    ('EAttribute', 'transient'), ('EAttribute', 'changeable'), ('EAttribute', 'volatile'),
    ('EAttribute', 'unsettable'), ('EAttribute', 'defaultValueLiteral'), ('EAttribute', 'eAnnotations'),
    ('EReference', 'name'), ('EReference', 'eType'), ('EReference', 'lowerBound'), ('EReference', 'upperBound'),
    ('EReference', 'ordered'), ('EReference', 'unique'), ('EReference', 'containment'), ('EReference', 'derived'),
    ('EReference', 'transient'), ('EReference', 'changeable'), ('EReference', 'volatile'),
    ('EReference', 'unsettable'), ('EReference', 'eOpposite'), ('EReference', 'eAnnotations'),
    ('EEnum', 'name'), ('EEnum', 'eLiterals'), ('EEnum', 'eAnnotations'),
    ('EEnumLiteral', 'name'), ('EEnumLiteral', 'value'),
    ('EDataType', 'name'), ('EDataType', 'instanceClassName'), ('EDataType', 'eAnnotations'),
    ('EOperation', 'name'), ('EOperation', 'eType'), ('EOperation', 'lowerBound'), ('EOperation', 'upperBound'),
    ('EOperation', 'ordered'), ('EOperation', 'unique'), ('EOperation', 'eParameters'), ('EOperation', 'eExceptions'),
    ('EParameter', 'name'), ('EParameter', 'eType'), ('EParameter', 'lowerBound'), ('EParameter', 'upperBound'),
    ('EParameter', 'ordered'), ('EParameter', 'unique'), ('EParameter', 'required'),
    ('EAnnotation', 'source'), ('EAnnotation', 'details'),
]
SIG_BY_CLASS = {}
for _c, _n in SIGNATURE_FEATURES:
    SIG_BY_CLASS.setdefault(_c, []).append(_n)

SIG_BY_CLASS['Resource'] = ['roots']      # pseudo node: the root packages of one .ecore resource, by position

PRIMS = ['EString', 'EInt', 'EBoolean', 'EFloat', 'EDouble', 'EInteger', 'ELong', 'EDate', 'EBigDecimal',
         'EJavaObject', 'EChar', 'EIntegerObject', 'EBooleanObject']
INST_PRIMS = {'EString', 'EInt', 'EBoolean', 'EFloat', 'EDouble', 'EInteger', 'ELong'}


def ecore():
    common.use_repo()
    import pyecore.ecore as E
    return E


# --------------------------------------------------------------------------- structural signature

def qname(o):
    """Qualified name of a named element: nsURI of the root package + '#' + names from the root down."""
    if o is None:
        return None
    try:
        o = o.force_resolve()
    except Exception as e:      # dangling proxy (corpus files pointing outside)
        return 'unresolved:' + str(getattr(o, '_proxy_path', '?'))
    names = []
    cur = o
    for _ in range(50):
        if inspect.ismodule(cur):
            break
        c = cur.eContainer()
        if c is None:
            break
        names.append(str(getattr(cur, 'name', '?')))
        cur = c
    root = getattr(cur, 'nsURI', None)
    if id(cur) in _ROOT_IDX:
        root = f'[root {_ROOT_IDX[id(cur)]}]{root}'       # which root package of the resource: a mix-up is visible
    if not names and not inspect.ismodule(cur) and not isinstance(cur, ecore().EPackage):
        return '?dangling:' + str(getattr(cur, 'name', '?'))
    return f'{root}#' + '/'.join(reversed(names))


_META = {}
_ROOT_IDX = {}       # id(root package) -> position in its resource, while signature_all runs


def meta_feature(metaclass, name):
    k = (metaclass, name)
    if k not in _META:
        E = ecore()
        _META[k] = getattr(E, metaclass).eClass.findEStructuralFeature(name)
    return _META[k]


def element_sig(obj):
    """Signature of one metamodel element = its SIGNATURE_FEATURES values; containments recurse."""
    mc = obj.eClass.name
    out = {'metaclass': mc}
    for n in SIG_BY_CLASS.get(mc, []):
        mf = meta_feature(mc, n)
        v = obj.eGet(n)
        if n == 'details':
            out[n] = [[str(k), (None if x is None else str(x))] for k, x in (v or {}).items()]
        elif mf.is_attribute:
            out[n] = list(v) if mf.many else v
            if not isinstance(out[n], (str, int, float, bool, list, type(None))):
                out[n] = str(out[n])
        elif mf.containment:
            vals = list(v) if mf.many else ([v] if v is not None else [])
            out[n] = [element_sig(x) for x in vals]
        else:
            out[n] = [qname(x) for x in v] if mf.many else qname(v)
    return out


def signature(epackage):
    return element_sig(epackage)


def signature_all(roots):
    """Signature of a whole .ecore resource: its root packages by position; every referenced element is qualified by
    the position and nsURI of the root package that owns it."""
    global _ROOT_IDX
    roots = list(roots)
    _ROOT_IDX = {id(r): i for i, r in enumerate(roots)}
    try:
        return {'metaclass': 'Resource', 'roots': [element_sig(r) for r in roots]}
    finally:
        _ROOT_IDX = {}


LABEL = {
    'roots': 'root-packages',
    'eSubpackages': 'subpackage', 'eAnnotations': 'annotation', 'source': 'annotation', 'details': 'annotation',
    'eSuperTypes': 'supertypes', 'eLiterals': 'enum-literal', 'eParameters': 'operation-parameter',
    'eOperations': 'operation', 'eExceptions': 'operation', 'eStructuralFeatures': 'feature',
    'eClassifiers': 'classifier', 'instanceClassName': 'datatype',
}


def label(metaclass, feat, a=None, b=None):
    if metaclass == 'EParameter':
        return 'operation-parameter'
    if metaclass == 'EOperation' and feat not in ('eParameters',):
        return 'operation'
    if metaclass == 'EEnumLiteral':
        return 'enum-literal'
    if metaclass == 'EEnum' and feat == 'eLiterals' and isinstance(a, list) and isinstance(b, list) \
            and sorted(json.dumps(x, sort_keys=True) for x in a) == sorted(json.dumps(x, sort_keys=True) for x in b):
        return 'enum-default'     # same literals, another first (= default) literal
    if metaclass == 'EAnnotation':
        return 'annotation'
    return LABEL.get(feat, feat)


def sig_diff(a, b, acc=None, path=''):
    """All differences between two element signatures: list of (construct label, (metaclass, feature), path, a, b)."""
    acc = [] if acc is None else acc
    mc = a.get('metaclass')
    if mc != b.get('metaclass'):
        acc.append(('metaclass', (mc, 'metaclass'), path, mc, b.get('metaclass')))
        return acc
    for n in SIG_BY_CLASS.get(mc, []):
        va, vb = a.get(n), b.get(n)
        if va == vb:
            continue
        is_children = isinstance(va, list) and isinstance(vb, list) and len(va) == len(vb) \
            and all(isinstance(x, dict) for x in va + vb)
        if is_children and label(mc, n, va, vb) != 'enum-default':
            for i, (x, y) in enumerate(zip(va, vb)):
                sig_diff(x, y, acc, f'{path}/{n}.{i}')
        else:
            acc.append((label(mc, n, va, vb), (mc, n), f'{path}/{n}', _short(va), _short(vb)))
    return acc


def _short(v):
    s = json.dumps(v, sort_keys=True, default=str)
    return s if len(s) < 200 else s[:200] + '...'


# --------------------------------------------------------------------------- metamodel descriptions

IDENT = ['alpha', 'beta', 'gamma', 'delta', 'eps', 'zeta', 'eta', 'theta', 'iota', 'kappa', 'lam', 'mu', 'nu', 'xi',
         'omi', 'pi', 'rho', 'sigma', 'tau', 'ups', 'phi', 'chi', 'psi', 'omega']
STRS = ['v', 'some text', 'a<b & "c"', "it's", 'x=1;y=2', 'café 中', 'http://x/y#z', '', '42', 'A  B']


def gen_annotations(rng, p=0.3):
    out = []
    while rng.random() < p and len(out) < 3:
        det = []
        keys = rng.sample(['documentation', 'k', 'key two', 'x.y', 'body', 'n'], rng.randint(0, 3))
        for k in keys:
            det.append([k, rng.choice(STRS)])
        out.append({'source': rng.choice(['http://www.eclipse.org/emf/2002/GenModel', 'src', 'http://a/b c', 'ann'])
                    + str(len(out)), 'details': det})
    return out


def gen_metamodel(rng, size):
    """A JSON-able description of a metamodel over the constructs C10 lists."""
    uid = [0]

    def fresh(prefix):
        uid[0] += 1
        return f'{prefix}{uid[0]}'

    root = {'name': rng.choice(['pk', 'model', 'lib']), 'nsURI': 'http://verif/c10/' + rng.choice(['a', 'b/c', 'x.y']),
            'nsPrefix': rng.choice(['pk', 'm', 'lib']), 'annotations': gen_annotations(rng, 0.25),
            'classifiers': [], 'subpackages': []}
    packages = [('', root)]           # (path, desc)
    nsub = rng.choice([0, 0, 1, 1, 2]) if size > 1 else 0
    for i in range(nsub):
        parent_path, parent = rng.choice(packages)
        nm = f'sub{i}'
        sp = {'name': nm, 'nsURI': parent['nsURI'] + '/' + nm, 'nsPrefix': nm,
              'annotations': gen_annotations(rng, 0.15), 'classifiers': [], 'subpackages': []}
        parent['subpackages'].append(sp)
        packages.append(((parent_path + '/' if parent_path else '') + nm, sp))

    def place(cdesc):
        path, pk = rng.choice(packages) if rng.random() < 0.5 else packages[0]
        pk['classifiers'].append(cdesc)
        return (path + '/' if path else '') + cdesc['name']

    enums, dtypes, classes = [], [], []      # qualified paths
    for _ in range(rng.randint(0, 2)):
        n = rng.randint(1, 4)
        lits = rng.sample(['RED', 'GREEN', 'BLUE', 'NORTH', 'SOUTH', 'ON', 'OFF', 'LOW'], n)
        vals = list(range(n)) if rng.random() < 0.6 else sorted(rng.sample(range(0, 20), n))
        e = {'kind': 'enum', 'name': fresh('En'), 'literals': [[l, v] for l, v in zip(lits, vals)],
             'default': rng.choice(lits) if rng.random() < 0.4 else None, 'annotations': gen_annotations(rng, 0.1)}
        enums.append((place(e), e))
    for _ in range(rng.randint(0, 2)):
        d = {'kind': 'datatype', 'name': fresh('Dt'),
             'instanceClassName': rng.choice(['java.util.Date', 'java.lang.String', 'int', 'com.acme.Money', None,
                                              'java.lang.Integer', 'boolean']),
             'annotations': gen_annotations(rng, 0.1)}
        dtypes.append((place(d), d))
    ncls = rng.randint(1, max(1, size))
    cdescs = []
    for i in range(ncls):
        c = {'kind': 'class', 'name': fresh('Cl'), 'abstract': rng.random() < 0.25, 'supers': [], 'features': [],
             'operations': [], 'annotations': gen_annotations(rng, 0.2)}
        cdescs.append(c)
        classes.append((place(c), c))
    # supertypes: earlier classes only, listed by decreasing index (keeps Python's C3 linearisation consistent)
    anc = {}
    for i, (path, c) in enumerate(classes):
        k = rng.choice([0, 0, 1, 1, 2, 3]) if i else 0
        cand = list(range(i))
        chosen = sorted(rng.sample(cand, min(k, len(cand))), reverse=True)
        # drop a chosen class that is an ancestor of another chosen one (redundant, and order-sensitive)
        chosen = [j for j in chosen if not any(j in anc[m] for m in chosen if m != j)]
        c['supers'] = [classes[j][0] for j in chosen]
        if rng.random() < 0.08:
            # a supertype taken from Ecore itself (as tests/xmi/xmi-tests/EcoreInheritance.ecore does)
            c['supers'].append(rng.choice(['ecore:EModelElement', 'ecore:ENamedElement']))
        anc[i] = set(chosen).union(*[anc[j] for j in chosen]) if chosen else set()
    # names already used along each hierarchy (features and operations share one name space here)
    used = {i: set() for i in range(ncls)}

    def hierarchy(i):
        """classes whose instances see a name declared in i, and classes i sees"""
        down = [j for j in range(ncls) if i in anc[j]]
        return [i] + list(anc[i]) + down + [a for d in down for a in anc[d]]

    def take_name(i, prefix):
        for _ in range(100):
            n = rng.choice(IDENT) + (str(rng.randint(0, 9)) if rng.random() < 0.3 else '')
            n = prefix + n if prefix else n
            if all(n not in used[j] for j in set(hierarchy(i))):
                used[i].add(n)
                return n
        return fresh('f')

    has_id = set()
    for i, (path, c) in enumerate(classes):
        for _ in range(rng.randint(0, 4)):
            if rng.random() < 0.55:       # attribute
                tk = rng.random()
                if tk < 0.15 and enums:
                    tpath, te = rng.choice(enums)
                    ty = tpath
                    dlit = rng.choice(te['literals'])[0] if rng.random() < 0.4 else None
                elif tk < 0.25 and dtypes:
                    ty, dlit = rng.choice(dtypes)[0], None
                else:
                    p = rng.choice(PRIMS)
                    ty = 'ecore:' + p
                    dlit = None
                    if rng.random() < 0.3:
                        dlit = {'EString': rng.choice(['abc', 'two words', '']), 'EInt': '7', 'EInteger': '-3',
                                'ELong': '12', 'EBoolean': 'true', 'EFloat': '1.5', 'EDouble': '2.25'}.get(p)
                upper = rng.choice([1, 1, 1, -1, -1, 3, 5])
                lower = rng.choice([0, 0, 1] + ([2] if upper == -1 or upper > 1 else []))
                f = {'kind': 'attr', 'name': take_name(i, ''), 'type': ty, 'lower': lower, 'upper': upper,
                     'ordered': rng.random() < 0.8, 'unique': rng.random() < 0.7, 'iD': False,
                     'derived': False, 'transient': False, 'changeable': True, 'volatile': False, 'unsettable': False,
                     'defaultValueLiteral': dlit if upper == 1 else None, 'annotations': gen_annotations(rng, 0.08)}
                if upper == 1 and ty == 'ecore:EString' and rng.random() < 0.3 \
                        and not any(j in has_id for j in set(hierarchy(i))):
                    f['iD'] = True
                    f['defaultValueLiteral'] = None
                    has_id.add(i)
                elif rng.random() < 0.12:
                    f.update(derived=rng.random() < 0.7, transient=rng.random() < 0.7, volatile=rng.random() < 0.7,
                             changeable=rng.random() < 0.5, unsettable=rng.random() < 0.3)
                c['features'].append(f)
            else:                          # reference
                j = rng.randrange(ncls)
                upper = rng.choice([1, 1, -1, -1, 4])
                f = {'kind': 'ref', 'name': take_name(i, ''), 'type': classes[j][0],
                     'lower': rng.choice([0, 0, 1]), 'upper': upper,
                     'ordered': rng.random() < 0.85, 'unique': True if rng.random() < 0.8 else False,
                     'containment': rng.random() < 0.35, 'derived': False, 'transient': False, 'changeable': True,
                     'volatile': False, 'unsettable': False, 'opposite': None, 'annotations': gen_annotations(rng, 0.08)}
                if rng.random() < 0.08:
                    f.update(derived=True, transient=True, volatile=True, changeable=False, containment=False)
                c['features'].append(f)
                r = rng.random()
                if r < 0.45 and not f['derived']:
                    # the other end, declared by the target class and typed by this one
                    g = {'kind': 'ref', 'name': take_name(j, 'r'), 'type': path, 'lower': 0,
                         'upper': 1 if f['containment'] else rng.choice([1, -1, -1]),
                         'ordered': True, 'unique': True, 'containment': False, 'derived': False, 'transient': False,
                         'changeable': True, 'volatile': False, 'unsettable': False,
                         'opposite': path + '/' + f['name'], 'annotations': []}
                    f['unique'] = True
                    f['opposite'] = classes[j][0] + '/' + g['name']
                    classes[j][1]['features'].append(g)
                elif r < 0.5 and j == i and not f['containment'] and not f['derived']:
                    f['unique'] = True
                    f['opposite'] = path + '/' + f['name']        # its own opposite
        for _ in range(rng.choice([0, 0, 1, 2])):
            params = []
            nreq = rng.randint(0, 2)
            for k in range(rng.randint(0, 3)):
                pt = rng.choice(['ecore:EString', 'ecore:EInt', 'ecore:EBoolean'] + [x[0] for x in classes[:3]]
                                + [x[0] for x in enums[:1]])
                pu = rng.choice([1, 1, -1])
                # an optional enum-typed parameter makes EOperation code generation fail (C20's subject): required
                req = k < nreq or pt in [x[0] for x in enums]
                params.append({'name': f'p{k}' + rng.choice(['', 'x', '_v']), 'type': pt, 'required': req,
                               'lower': 1 if req and rng.random() < 0.5 else 0, 'upper': pu,
                               'ordered': rng.random() < 0.9, 'unique': rng.random() < 0.9})
            params.sort(key=lambda p: not p['required'])      # required parameters first (a Python signature)
            c['operations'].append({
                'name': take_name(i, 'op_'),
                'type': rng.choice([None, 'ecore:EString', 'ecore:EInt'] + [x[0] for x in classes[:2]]),
                'lower': 0, 'upper': rng.choice([1, 1, -1]), 'ordered': True, 'unique': True, 'params': params,
                'exceptions': ([rng.choice(classes)[0]] if rng.random() < 0.15 else [])
                + (['ecore:EString'] if rng.random() < 0.05 else []),
            })
    return root


def roots_of(desc):
    return desc['roots'] if 'roots' in desc else [desc]


def _classes_of(d, path=''):
    for c in d['classifiers']:
        if c['kind'] == 'class':
            yield (path + '/' if path else '') + c['name'], c
    for sp in d['subpackages']:
        yield from _classes_of(sp, (path + '/' if path else '') + sp['name'])


def gen_desc(rng, size):
    """One .ecore resource: mostly one root package; a share with 2-3 root packages, some of them TWINS (same
    classifier, feature, enum and sub-package names as the first root, so that the same fragment path exists under
    several roots), with references, opposites and supertypes that cross from one root to another."""
    first = gen_metamodel(rng, size)
    if rng.random() < 0.6:
        return first
    roots = [first]
    for j in range(1, rng.choice([2, 2, 3])):
        if rng.random() < 0.65:
            d = json.loads(json.dumps(first))           # twin: every name is equal
            for _, c in _classes_of(d):
                for f in c['features']:
                    if rng.random() < 0.25:
                        f['ordered'] = not f['ordered']
                    if rng.random() < 0.2 and not f.get('opposite') and not f.get('iD'):
                        f['upper'] = rng.choice([1, -1, 3])
                        f['lower'] = min(f['lower'], 1)
                        if f['upper'] != 1 and f['kind'] == 'attr':
                            f['defaultValueLiteral'] = None
                if rng.random() < 0.4:
                    c['features'].append({
                        'kind': 'attr', 'name': f'only_in_{j}', 'type': 'ecore:EString', 'lower': 0, 'upper': 1,
                        'ordered': True, 'unique': True, 'iD': False, 'derived': False, 'transient': False,
                        'changeable': True, 'volatile': False, 'unsettable': False, 'defaultValueLiteral': None,
                        'annotations': []})
                    break
        else:
            d = gen_metamodel(rng, rng.choice([1, 2, 3, size]))   # names overlap anyway: the counters restart
        roots.append(d)
    for i, d in enumerate(roots):
        d['name'] = f'{d["name"]}_{i}'
        d['nsURI'] = f'{d["nsURI"]}/r{i}'
        d['nsPrefix'] = f'{d["nsPrefix"]}{i}'
        stack = list(d['subpackages'])
        while stack:
            sp = stack.pop()
            sp['nsURI'] = f'{sp["nsURI"]}/r{i}'
            sp['nsPrefix'] = f'{sp["nsPrefix"]}r{i}'
            stack.extend(sp['subpackages'])
    # links across roots: reference, bidirectional reference, supertype
    n = 0
    for j in range(1, len(roots)):
        k = rng.randrange(j)                                    # an earlier root
        here = list(_classes_of(roots[j]))
        there = list(_classes_of(roots[k]))
        if not here or not there:
            continue
        for _ in range(rng.randint(1, 3)):
            n += 1
            (pa, ca), (pb, cb) = rng.choice(here), rng.choice(there)
            f = _ref(f'xr{n}', f'@{k}:{pb}', upper=rng.choice([1, -1]))
            ca['features'].append(f)
            if rng.random() < 0.5:
                g = _ref(f'xb{n}', f'@{j}:{pa}', upper=rng.choice([1, -1]), opposite=f'@{j}:{pa}/xr{n}')
                f['opposite'] = f'@{k}:{pb}/xb{n}'
                cb['features'].append(g)
        if rng.random() < 0.5:
            pb, cb = rng.choice(there)
            # a fresh class (no name can clash with what it inherits) whose supertype lives in another root
            roots[j]['classifiers'].append(_cls(f'Xsub{j}', supers=[f'@{k}:{pb}'], abstract=rng.random() < 0.3))
    return {'roots': roots}


def split_ref(t, ri):
    """'@k:path' names something of root package k, a bare path something of the root package it is written in"""
    if t.startswith('@'):
        k, rest = t[1:].split(':', 1)
        return int(k), rest
    return ri, t


def build(desc):
    """Description -> list of root EPackages through the dynamic API (constructors, collections, setters)."""
    E = ecore()
    table = {}

    def mk_annotations(elem, anns):
        for a in anns or []:
            ann = E.EAnnotation(source=a['source'])
            for k, v in a['details']:
                ann.details[k] = v
            elem.eAnnotations.append(ann)

    def mk_package(d, path, ri):
        p = E.EPackage(d['name'], nsURI=d['nsURI'], nsPrefix=d['nsPrefix'])
        mk_annotations(p, d.get('annotations'))
        # sub-packages first or classifiers first: both are separate containments
        for c in d['classifiers']:
            q = (ri, (path + '/' if path else '') + c['name'])
            if c['kind'] == 'class':
                x = E.EClass(c['name'], abstract=c['abstract'])
            elif c['kind'] == 'enum':
                x = E.EEnum(c['name'])
                for ln, lv in c['literals']:
                    x.eLiterals.append(E.EEnumLiteral(ln, value=lv))
                if c.get('default'):
                    x.default_value = c['default']
            else:
                x = E.EDataType(c['name'], instanceClassName=c['instanceClassName'])
            mk_annotations(x, c.get('annotations'))
            p.eClassifiers.append(x)
            table[q] = x
        for s in d['subpackages']:
            p.eSubpackages.append(mk_package(s, (path + '/' if path else '') + s['name'], ri))
        return p

    rdescs = roots_of(desc)
    roots = [mk_package(d, '', ri) for ri, d in enumerate(rdescs)]

    def ty(t, ri):
        if t is None:
            return None
        if t.startswith('ecore:'):
            x = getattr(E, t[6:])
            return x.eClass if isinstance(x, type) else x
        return table[split_ref(t, ri)]

    def all_classes(d, path):
        for c in d['classifiers']:
            if c['kind'] == 'class':
                yield (path + '/' if path else '') + c['name'], c
        for s in d['subpackages']:
            yield from all_classes(s, (path + '/' if path else '') + s['name'])

    cl = [((ri, q), c) for ri, d in enumerate(rdescs) for q, c in all_classes(d, '')]
    for q, c in cl:
        for s in c['supers']:
            table[q].eSuperTypes.append(ty(s, q[0]))
    feats = {}
    for q, c in cl:
        ri = q[0]
        for f in c['features']:
            common_kw = dict(lower=f['lower'], upper=f['upper'], ordered=f['ordered'], unique=f['unique'],
                             derived=f['derived'], transient=f['transient'], changeable=f['changeable'],
                             volatile=f['volatile'], unsettable=f['unsettable'])
            if f['kind'] == 'attr':
                x = E.EAttribute(f['name'], ty(f['type'], ri), iD=f['iD'],
                                 defaultValueLiteral=f['defaultValueLiteral'], **common_kw)
            else:
                x = E.EReference(f['name'], ty(f['type'], ri), containment=f['containment'], **common_kw)
            mk_annotations(x, f.get('annotations'))
            table[q].eStructuralFeatures.append(x)
            feats[(ri, q[1] + '/' + f['name'])] = (x, f)
    for k, (x, f) in feats.items():
        if f['kind'] == 'ref' and f.get('opposite'):
            x.eOpposite = feats[split_ref(f['opposite'], k[0])][0]
    for q, c in cl:
        ri = q[0]
        for o in c['operations']:
            params = [E.EParameter(p['name'], ty(p['type'], ri), required=p['required'], lower=p['lower'],
                                   upper=p['upper'], ordered=p['ordered'], unique=p['unique'])
                      for p in o['params']]
            op = E.EOperation(o['name'], ty(o['type'], ri), params=params,
                              exceptions=[ty(e, ri) for e in o['exceptions']], lower=o['lower'], upper=o['upper'],
                              ordered=o['ordered'], unique=o['unique'])
            table[q].eOperations.append(op)
    return roots


def all_packages(p):
    """every package below a root package, or below each root package of a list"""
    if isinstance(p, (list, tuple)):
        for r in p:
            yield from all_packages(r)
        return
    yield p
    for s in p.eSubpackages:
        yield from all_packages(s)


def all_eclasses(p):
    E = ecore()
    for pk in all_packages(p):
        for c in pk.eClassifiers:
            if isinstance(c, E.EClass):
                yield c


# --------------------------------------------------------------------------- instances and their canonical dump

def sample_value(E, etype, rng, k):
    n = etype.name
    if isinstance(etype, E.EEnum):
        return rng.choice(list(etype.eLiterals)) if etype.eLiterals else None
    if n == 'EString':
        return rng.choice(['s', 'word', 'x_y', 'Z9']) + str(k)
    if n in ('EInt', 'EInteger', 'ELong'):
        return rng.choice([0, 1, -5, 77, 1000]) + k
    if n == 'EBoolean':
        return rng.random() < 0.5
    if n in ('EFloat', 'EDouble'):
        return rng.choice([0.5, 1.25, -3.0]) + k
    return None


def settable(f):
    return not (f.derived or f.transient or f.volatile or not f.changeable)


def gen_instances(pkg, rng, nper=2):
    """A model over `pkg`: list of root objects (everything reachable is inside)."""
    E = ecore()
    concrete = [c for c in all_eclasses(pkg) if not c.abstract]
    objs = []
    for c in concrete:
        for _ in range(rng.randint(1, nper)):
            objs.append(c())
    if not objs:
        return []
    idc = [0]
    for k, o in enumerate(objs):
        for f in o.eClass.eAllStructuralFeatures():
            if not f.is_attribute or not settable(f):
                continue
            et = f.eType
            if et is None or (not isinstance(et, E.EEnum) and et.name not in INST_PRIMS) \
                    or (not isinstance(et, E.EEnum) and et.ePackage is not E.EString.ePackage):
                continue
            if f.iD:
                idc[0] += 1
                o.eSet(f, f'id{idc[0]}')
                continue
            if rng.random() < 0.4:
                continue
            if f.many:
                n = rng.randint(1, 3) if f.upper < 0 else rng.randint(1, f.upper)
                vals = []
                for i in range(n):
                    v = sample_value(E, et, rng, i)
                    if v is not None and not (f.unique and v in vals):
                        vals.append(v)
                if vals:
                    o.eGet(f).extend(vals)
            else:
                v = sample_value(E, et, rng, k)
                if v is not None:
                    o.eSet(f, v)
    contained = set()
    for i, o in enumerate(objs):
        for f in o.eClass.eAllReferences():
            if not f.containment or not settable(f):
                continue
            cand = [x for x in objs[i + 1:] if id(x) not in contained and isinstance(x, f.eType)]
            rng.shuffle(cand)
            n = rng.randint(0, 2)
            if f.many:
                lim = n if f.upper < 0 else min(n, f.upper)
                for x in cand[:lim]:
                    o.eGet(f).append(x)
                    contained.add(id(x))
            elif cand and n:
                o.eSet(f, cand[0])
                contained.add(id(cand[0]))
    for i, o in enumerate(objs):
        for f in o.eClass.eAllReferences():
            if f.containment or not settable(f) or (f.eOpposite and f.eOpposite.containment):
                continue
            cand = [x for x in objs if isinstance(x, f.eType)]
            if not cand or rng.random() < 0.4:
                continue
            if f.many:
                n = rng.randint(1, 3) if f.upper < 0 else rng.randint(1, f.upper)
                picks = rng.sample(cand, min(n, len(cand)))
                for x in picks:
                    if x not in o.eGet(f):
                        o.eGet(f).append(x)
            else:
                o.eSet(f, rng.choice(cand))
    return [o for o in objs if o.eContainer() is None]


def dump_model(roots):
    """Canonical dump through the public API: class, every non-derived feature's value (defaults included),
    references as positions in the containment forest."""
    E = ecore()
    pos = {}

    def walk(o, path):
        pos[id(o)] = path
        for f in o.eClass.eAllReferences():
            if f.containment and not f.derived:
                v = o.eGet(f)
                vals = list(v) if f.many else ([v] if v is not None else [])
                for i, x in enumerate(vals):
                    walk(x, f'{path}/{f.name}.{i}')
    for i, r in enumerate(roots):
        walk(r, f'/{i}')

    def val(x):
        if isinstance(x, E.EEnumLiteral):
            return 'lit:' + x.name
        if isinstance(x, float):
            return repr(x)
        return x if isinstance(x, (str, int, bool, type(None))) else '<' + type(x).__name__ + '>'

    def d(o):
        out = {'class': qname(o.eClass), 'attrs': {}, 'refs': {}, 'kids': {}}
        for f in sorted(o.eClass.eAllStructuralFeatures(), key=lambda f: f.name):
            if f.derived:
                continue
            v = o.eGet(f)
            if f.is_attribute:
                out['attrs'][f.name] = [val(x) for x in v] if f.many else val(v)
            elif f.containment:
                vals = list(v) if f.many else ([v] if v is not None else [])
                out['kids'][f.name] = [d(x) for x in vals]
            else:
                vals = list(v) if f.many else ([v] if v is not None else [])
                out['refs'][f.name] = [pos.get(id(x.force_resolve()), '?outside') for x in vals]
        return out
    return [d(r) for r in roots]


# --------------------------------------------------------------------------- the oracle on one metamodel

def fresh_rset():
    common.use_repo()
    from pyecore.resources import ResourceSet
    return ResourceSet()


def register(rset, pkg):
    for p in all_packages(pkg):
        if p.nsURI:
            rset.metamodel_registry[p.nsURI] = p


def save_reload(roots, tmp, name='mm.ecore'):
    """all root packages into ONE .ecore resource; reload it in a fresh ResourceSet -> its root packages"""
    from pyecore.resources import URI
    path = os.path.join(tmp, name)
    rs = fresh_rset()
    res = rs.create_resource(URI(path))
    for r in roots:
        res.append(r)
    res.save()
    rs2 = fresh_rset()
    res2 = rs2.get_resource(URI(path))
    return list(res2.contents), path


def _eclass_of(t):
    if isinstance(t, type):
        return t.eClass
    return t.force_resolve()


def check_instantiable(reloaded, rng):
    """-> list of problem strings"""
    E = ecore()
    problems = []
    for c in all_eclasses(reloaded):
        try:
            o = c()
            if c.abstract:
                problems.append(f'abstract class {c.name} was instantiated')
                continue
        except TypeError as e:
            if not c.abstract:
                problems.append(f'concrete class {c.name} refuses instantiation: {e}')
            continue
        except Exception as e:
            problems.append(f'class {c.name}: {type(e).__name__}: {e}')
            continue
        if not isinstance(o, c) or o.eClass is not c:
            problems.append(f'instance of {c.name} does not report its class')
        for f in c.eAllStructuralFeatures():
            try:
                if f.derived:
                    continue
                if f.is_attribute:
                    et = f.eType
                    if et is None or not (isinstance(et.force_resolve(), E.EEnum) or et.name in INST_PRIMS):
                        continue
                    v = sample_value(E, et.force_resolve(), rng, 1)
                    if v is None:
                        continue
                    if f.many:
                        o.eGet(f).append(v)
                        ok = list(o.eGet(f.name)) == [v]
                    else:
                        o.eSet(f, v)
                        ok = o.eGet(f.name) == v and getattr(o, f.name) == v
                elif not _eclass_of(f.eType).abstract:
                    t = _eclass_of(f.eType)()
                    if f.many:
                        o.eGet(f).append(t)
                        ok = list(o.eGet(f.name)) == [t]
                    else:
                        o.eSet(f, t)
                        ok = o.eGet(f.name) is t
                    if f.containment and ok:
                        ok = t.eContainer() is o
                    if f.eOpposite is not None and ok:
                        back = t.eGet(f.eOpposite)
                        ok = (o in back) if f.eOpposite.many else (back is o)
                else:
                    continue
                if not ok:
                    problems.append(f'{c.name}.{f.name}: value set is not the value read')
            except Exception as e:
                problems.append(f'{c.name}.{f.name}: {type(e).__name__}: {e}')
    return problems


def evaluate(desc, inst_seed, tmp, stats=None):
    """Run the whole oracle on one description. -> list of failures
    {'clause','construct','what', 'pairs': [(metaclass, feature)...]}"""
    from pyecore.resources import URI
    fails = []
    orig = build(desc)
    sig0 = signature_all(orig)
    try:
        reloaded, path = save_reload(orig, tmp)
    except Exception as e:
        return [{'clause': 'signature', 'construct': 'save-or-load-raises',
                 'what': f'{type(e).__name__}: {e}', 'pairs': []}]
    sig0b = signature_all(orig)
    if sig0b != sig0:
        fails.append({'clause': 'signature', 'construct': 'save-changes-original',
                      'what': 'saving changed the original metamodel: ' + str(sig_diff(sig0, sig0b)[:2]), 'pairs': []})
    sig1 = signature_all(reloaded)
    diffs = sig_diff(sig0, sig1)
    by_label = {}
    for lab, pair, p, a, b in diffs:
        by_label.setdefault(lab, []).append((pair, p, a, b))
    for lab, items in sorted(by_label.items()):
        pair, p, a, b = items[0]
        fails.append({'clause': 'signature', 'construct': lab,
                      'what': f'{pair[0]}.{pair[1]} at {p}: original {a} / reloaded {b} ({len(items)} place(s))',
                      'pairs': sorted({tuple(x[0]) for x in items})})
    # the construct blamed for behavioural differences: a structural-feature one before operations/annotations
    first_construct = sorted(by_label, key=lambda l: (l in ('operation', 'operation-parameter', 'annotation'), l))[0] \
        if by_label else 'none-in-signature'
    if stats is not None:
        stats['sig_nodes'] = stats.get('sig_nodes', 0) + _count_nodes(sig0)
        _count_nondefault(sig0, stats.setdefault('nondefault', {}))
    # instantiate
    probs = check_instantiable(reloaded, random.Random(inst_seed))
    if probs:
        fails.append({'clause': 'instantiate', 'construct': first_construct, 'what': '; '.join(probs[:3]), 'pairs': []})
    # an instance document saved against the original, loaded against the reloaded metamodel
    try:
        roots = gen_instances(orig, random.Random(inst_seed))
    except Exception as e:
        roots = None
        if stats is not None:
            stats['instance_generation_errors'] = stats.get('instance_generation_errors', 0) + 1
            stats.setdefault('instance_generation_error_samples', []).append(f'{type(e).__name__}: {e}'[:200])
    if roots:
        ipath = os.path.join(tmp, 'inst.xmi')
        rs = fresh_rset()
        register(rs, orig)
        res = rs.create_resource(URI(ipath))
        res.extend(roots)
        want = dump_model(roots)
        try:
            res.save()
            saved = True
        except Exception as e:
            saved = False
            if stats is not None:
                stats['instance_save_errors'] = stats.get('instance_save_errors', 0) + 1
        if saved:
            base = None
            try:
                rs0 = fresh_rset()
                orig2 = build(desc)            # an independent copy of the original metamodel
                register(rs0, orig2)
                base = dump_model(list(rs0.get_resource(URI(ipath)).contents))
            except Exception as e:
                base = ('raises', type(e).__name__)
            try:
                rs1 = fresh_rset()
                register(rs1, reloaded)
                got = dump_model(list(rs1.get_resource(URI(ipath)).contents))
            except Exception as e:
                got = ('raises', type(e).__name__)
            if stats is not None:
                stats['instance_docs'] = stats.get('instance_docs', 0) + 1
                stats['instance_objects'] = stats.get('instance_objects', 0) + _count_objs(want)
                if base != want:
                    # the document does not even reload against its own metamodel: C08's subject, not C10's
                    stats['instance_docs_not_roundtripping_against_original(C08)'] = \
                        stats.get('instance_docs_not_roundtripping_against_original(C08)', 0) + 1
            if got != base:
                fails.append({'clause': 'cross-load', 'construct': first_construct,
                              'what': 'instance document loads differently against the reloaded metamodel: '
                                      + _first_dump_diff(base, got), 'pairs': []})
    return fails


def _count_nodes(s):
    n = 1
    for v in s.values():
        if isinstance(v, list):
            n += sum(_count_nodes(x) for x in v if isinstance(x, dict))
    return n


_DEFAULTS = {'abstract': False, 'lowerBound': 0, 'upperBound': 1, 'ordered': True, 'unique': True, 'iD': False,
             'derived': False, 'transient': False, 'changeable': True, 'volatile': False, 'unsettable': False,
             'containment': False, 'required': False, 'value': 0}


def _count_nondefault(s, acc):
    """how often each (metaclass, feature) carries a non-default value in the generated metamodels"""
    mc = s['metaclass']
    for n in SIG_BY_CLASS.get(mc, []):
        v = s.get(n)
        if v in (None, [], '') or (n in _DEFAULTS and v == _DEFAULTS[n]):
            continue
        k = f'{mc}.{n}'
        if mc != 'Resource':
            acc[k] = acc.get(k, 0) + 1
        if isinstance(v, list):
            for x in v:
                if isinstance(x, dict):
                    _count_nondefault(x, acc)


def _count_objs(d):
    return sum(1 + sum(_count_objs(v) for v in o['kids'].values()) for o in d)


def _first_dump_diff(a, b):
    if not isinstance(a, list) or not isinstance(b, list):
        return f'{_short(a)} vs {_short(b)}'
    if len(a) != len(b):
        return f'{len(a)} vs {len(b)} objects'
    for x, y in zip(a, b):
        if x == y:
            continue
        if x['class'] != y['class']:
            return f'class {x["class"]} vs {y["class"]}'
        for part in ('attrs', 'refs'):
            for k in sorted(set(x[part]) | set(y[part])):
                if x[part].get(k, '<absent>') != y[part].get(k, '<absent>'):
                    return f'{part[:-1]} {k}: {_short(x[part].get(k, "<absent>"))} vs {_short(y[part].get(k, "<absent>"))}'
        for k in sorted(set(x['kids']) | set(y['kids'])):
            if x['kids'].get(k) != y['kids'].get(k):
                return f'{k}: ' + _first_dump_diff(x['kids'].get(k, []), y['kids'].get(k, []))
    return 'equal'


# --------------------------------------------------------------------------- shrinking

def _lists_of(desc):
    """(container list, index) of every removable element of a description"""
    out = []

    def pk(d):
        for key in ('annotations', 'classifiers', 'subpackages'):
            out.extend((d[key], i) for i in range(len(d.get(key, []))))
        for c in d['classifiers']:
            for key in ('features', 'operations', 'annotations', 'supers', 'literals'):
                out.extend((c[key], i) for i in range(len(c.get(key, []))))
            for f in c.get('features', []):
                out.extend((f['annotations'], i) for i in range(len(f.get('annotations', []))))
            for o in c.get('operations', []):
                out.extend((o['params'], i) for i in range(len(o['params'])))
        for s in d['subpackages']:
            pk(s)
    if 'roots' in desc:
        out.extend((desc['roots'], i) for i in range(len(desc['roots'])) if len(desc['roots']) > 1)
    for r in roots_of(desc):
        pk(r)
    return out


def shrink(desc, inst_seed, clause, construct, budget_s=8.0):
    """Greedy one-element deletions that keep a failure with the same (clause, construct)."""
    t0 = time.time()
    cur = json.loads(json.dumps(desc))

    def still_fails(d):
        tmp = tempfile.mkdtemp(prefix='c10s_', dir=scratch())
        try:
            fs = evaluate(d, inst_seed, tmp)
            return any(f['clause'] == clause and f['construct'] == construct for f in fs)
        except Exception:
            return False
        finally:
            shutil.rmtree(tmp, ignore_errors=True)

    progress = True
    while progress and time.time() - t0 < budget_s:
        progress = False
        n = len(_lists_of(cur))
        for k in range(n - 1, -1, -1):
            if time.time() - t0 > budget_s:
                break
            trial = json.loads(json.dumps(cur))
            lists = _lists_of(trial)
            if k >= len(lists):
                continue
            lst, i = lists[k]
            del lst[i]
            if still_fails(trial):
                cur = trial
                progress = True
    return cur


def scratch():
    p = os.path.join(common.BUILD, 'scratch')
    os.makedirs(p, exist_ok=True)
    return p


# --------------------------------------------------------------------------- corpus

def corpus_dir():
    return os.path.join(common.REPO, 'tests', 'xmi', 'xmi-tests')


def corpus_files():
    d = corpus_dir()
    return sorted(f for f in os.listdir(d) if f.endswith('.ecore')) if os.path.isdir(d) else []


def evaluate_corpus(fname, tmp):
    """load -> save next to the copy -> load; compare the signatures of the two loads.
    -> (status, failures)  status in {'ok','unloadable','failed'}"""
    from pyecore.resources import URI
    work = os.path.join(tmp, 'corpus')
    if not os.path.isdir(work):
        shutil.copytree(corpus_dir(), work)
    src = os.path.join(work, fname)
    try:
        rs = fresh_rset()
        res = rs.get_resource(URI(src))
        roots1 = list(res.contents)
        sig1 = [signature(r) for r in roots1]
    except Exception as e:
        return 'unloadable', []
    if 'unresolved:' in json.dumps(sig1):
        # points to resources that need a URI mapper / files the test-suite sets up: outside the claim
        return 'dangling-references', []
    out = os.path.join(work, fname[:-6] + '__resaved.ecore')
    try:
        res.save(output=URI(out))
        rs2 = fresh_rset()
        res2 = rs2.get_resource(URI(out))
        sig2 = [signature(r) for r in res2.contents]
    except Exception as e:
        return 'failed', [{'clause': 'corpus', 'construct': 'save-or-load-raises',
                           'what': f'{fname}: {type(e).__name__}: {e}'[:300], 'pairs': []}]
    fails = []
    if len(sig1) != len(sig2):
        fails.append({'clause': 'corpus', 'construct': 'roots', 'what': f'{fname}: {len(sig1)} vs {len(sig2)} roots',
                      'pairs': []})
    by_label = {}
    for a, b in zip(sig1, sig2):
        for lab, pair, p, x, y in sig_diff(a, b):
            by_label.setdefault(lab, []).append((pair, p, x, y))
    for lab, items in sorted(by_label.items()):
        pair, p, a, b = items[0]
        fails.append({'clause': 'corpus', 'construct': lab,
                      'what': f'{fname}: {pair[0]}.{pair[1]} at {p}: first load {a} / after re-save {b} '
                              f'({len(items)} place(s))', 'pairs': sorted({tuple(x[0]) for x in items})})
    return ('failed' if fails else 'ok'), fails


# --------------------------------------------------------------------------- correspondence with the generated table

def table_vs_reflection(out):
    """Every row of the translator's table against the live reflection of pyecore.ecore."""
    import importlib.util
    E = ecore()
    spec = importlib.util.spec_from_file_location('ecoremm_gen', os.path.join(common.VERIF, 'translator',
                                                                              'ecoremm_gen.py'))
    mod = importlib.util.module_from_spec(spec)
    spec.loader.exec_module(mod)
    t = mod.translate(open(os.path.join(common.REPO, 'pyecore', 'ecore.py')).read())
    rows = 0
    by_key = {(d['owner'], d['pyattr']): d for d in t['features']}
    # table -> implementation
    for d in t['features']:
        rows += 1
        cls = getattr(E, d['owner'], None)
        live = cls.eClass.findEStructuralFeature(d['name']) if cls is not None else None
        own = [f for f in cls.eClass.eStructuralFeatures if f.name == d['name']] if cls is not None else []
        if not own:
            out.diff(f'table row {d["owner"]}.{d["name"]} is not a feature of the live metaclass', {'row': d})
            continue
        f = own[-1]
        opp = f.eOpposite if d['kind'] == 'KRef' else None
        declared = d['opposite']
        if declared is None:
            claim = [k for k, g in by_key.items() if g['opposite'] == (d['owner'], d['pyattr'])]
            declared = claim[0] if claim else None
        want_opp = None
        if declared is not None:
            g = by_key[tuple(declared)]
            want_opp = (g['owner'], g['name'])
        got = {
            'kind': 'KRef' if f.is_reference else 'KAttr', 'type': _tname(f.eType),
            'lower': f.lowerBound, 'upper': f.upperBound, 'ordered': f.ordered, 'unique': f.unique,
            'containment': bool(getattr(f, 'containment', False)), 'derived': f.derived, 'transient': f.transient,
            'volatile': f.volatile, 'unsettable': f.unsettable, 'changeable': f.changeable,
            'iD': bool(getattr(f, 'iD', False)),
            'opp': (opp.eContainingClass.name, opp.name) if opp is not None else None,
            'pyattr_is_descriptor': cls.__dict__.get(d['pyattr']) is f,
        }
        want = {k: d[k] for k in ('kind', 'type', 'lower', 'upper', 'ordered', 'unique', 'containment', 'derived',
                                  'transient', 'volatile', 'unsettable', 'changeable', 'iD')}
        want['opp'] = want_opp
        want['pyattr_is_descriptor'] = True
        if got != want:
            out.diff(f'generated table and live Ecore disagree on {d["owner"]}.{d["name"]}: '
                     f'table {want} live {got}', {'row': d})
    # implementation -> table (nothing missing), class hierarchy
    tcls = dict(t['classes'])
    for cname, bases in t['classes']:
        cls = getattr(E, cname, None)
        if cls is None or not hasattr(cls, 'eClass'):
            continue
        rows += 1
        live_names = sorted(f.name for f in cls.eClass.eStructuralFeatures)
        tab_names = sorted(d['name'] for d in t['features'] if d['owner'] == cname)
        if live_names != tab_names:
            out.diff(f'features of {cname}: table {tab_names} live {live_names}', {'class': cname})
        live_sup = sorted(s.name for s in cls.eClass.eSuperTypes)
        tab_sup = sorted(b for b in bases if b != 'EObject')
        if live_sup != tab_sup:
            out.diff(f'supertypes of {cname}: table {tab_sup} live {live_sup}', {'class': cname})
    return rows, t


def _tname(t):
    if t is None:
        return None
    return t.__name__ if isinstance(t, type) else t.name


def coq_signature_features():
    txt = open(os.path.join(common.COQ, 'Model', 'EcoreTable.v')).read()
    m = re.search(r'Definition signature_features[^:]*:[^=]*:=\s*\[(.*?)\]\.', txt, flags=re.S)
    return [(a, b) for a, b in re.findall(r'\("(\w+)",\s*"(\w+)"\)', m.group(1))] if m else None


# --------------------------------------------------------------------------- run / replay

def sig_of(f):
    return {'property': 'C10', 'clause': f['clause'], 'construct': f['construct']}


def _ref(name, ty, **kw):
    d = {'kind': 'ref', 'name': name, 'type': ty, 'lower': 0, 'upper': 1, 'ordered': True, 'unique': True,
         'containment': False, 'derived': False, 'transient': False, 'changeable': True, 'volatile': False,
         'unsettable': False, 'opposite': None, 'annotations': []}
    d.update(kw)
    return d


def _cls(name, **kw):
    d = {'kind': 'class', 'name': name, 'abstract': False, 'supers': [], 'features': [], 'operations': [],
         'annotations': []}
    d.update(kw)
    return d


def _pkg(classifiers):
    return {'name': 'w', 'nsURI': 'http://verif/c10/w', 'nsPrefix': 'w', 'annotations': [],
            'classifiers': classifiers, 'subpackages': []}


# minimal witnesses of the defects this check found (fixed in /repo); evaluated first on every run
def _twins():
    def one(extra):
        return [_cls('Node', abstract=True, features=[extra, _ref('leaves', 'Leaf', upper=-1, opposite='Leaf/owner')]),
                _cls('Leaf', supers=['Node'], features=[_ref('owner', 'Node', opposite='Node/leaves')])]
    attr = {'kind': 'attr', 'type': 'ecore:EString', 'lower': 0, 'upper': 1, 'ordered': True, 'unique': True,
            'iD': False, 'derived': False, 'transient': False, 'changeable': True, 'volatile': False,
            'unsettable': False, 'defaultValueLiteral': None, 'annotations': []}
    a, b = _pkg(one(dict(attr, name='label'))), _pkg(one(dict(attr, name='weight', type='ecore:EInt')))
    a.update(name='v1', nsURI='http://verif/c10/v1', nsPrefix='v1')
    b.update(name='v2', nsURI='http://verif/c10/v2', nsPrefix='v2')
    b['classifiers'][1]['features'].append(_ref('previous', '@0:Leaf'))
    return {'roots': [a, b]}


REGRESSIONS_LATE = [
    ('two root packages with equal classifier and feature names in one .ecore file: references stay inside '
     'their own root (seeded regression C10_1: fragment cache shared between roots)', _twins),
]

REGRESSIONS = [
    ('eOpposite set programmatically was never written (fixed dc5c1f6)',
     _pkg([_cls('A', features=[_ref('bs', 'B', upper=-1, opposite='B/a')]),
           _cls('B', features=[_ref('a', 'A', opposite='A/bs')])])),
    ('container end: the opposite of a containment',
     _pkg([_cls('A', features=[_ref('kids', 'B', upper=-1, containment=True, opposite='B/parent')]),
           _cls('B', features=[_ref('parent', 'A', opposite='A/kids')])])),
    ("'ecore:EClass uri#frag' inside a many-valued reference attribute could not be loaded (fixed, xmi.py)",
     _pkg([_cls('A', supers=['ecore:EModelElement']), _cls('B', supers=['A', 'ecore:ENamedElement'])])),
]


def run(ctx, out):
    ecore()
    thorough = ctx.tier == 'thorough'
    t_start = time.time()
    budget = 420 if thorough else 28
    ncases = 4000 if thorough else 600
    stats = {'nondefault': {}}
    rng = ctx.rng
    # --- (c) the two lists of signature features agree
    cf = coq_signature_features()
    if cf != SIGNATURE_FEATURES:
        out.diff('Model/EcoreTable.v signature_features differs from the harness list',
                 {'coq': cf, 'harness': SIGNATURE_FEATURES})
    # --- (a) table vs live reflection
    rows, table = table_vs_reflection(out)
    if table['unrecognised']:
        out.diff('translator refused statements of the self-description: ' + '; '.join(table['unrecognised'][:3]),
                 {'unrecognised': table['unrecognised']})
    # --- generated metamodels
    lost_pairs = {}
    seen_fail = {}
    evaluated = 0
    shapes = set()
    samples = []
    sizes = {}
    nroots = {}
    tmp_root = tempfile.mkdtemp(prefix='c10_', dir=scratch())
    try:
        for j, (what, desc) in enumerate(REGRESSIONS + [(w, f()) for w, f in REGRESSIONS_LATE]):
            tmp = os.path.join(tmp_root, f'r{j}')
            os.makedirs(tmp)
            for f in evaluate(desc, 12345, tmp, stats):
                for pair in f['pairs']:
                    lost_pairs[tuple(pair)] = lost_pairs.get(tuple(pair), 0) + 1
                seen_fail[(f['clause'], f['construct'])] = True
                out.fail(sig_of(f), f'{f["clause"]}/{f["construct"]}: {f["what"]} [regression witness: {what}]',
                         {'kind': 'generated', 'desc': desc, 'inst_seed': 12345})
            evaluated += 1
            shapes.add(json.dumps(desc, sort_keys=True))
        for i in range(ncases):
            if time.time() - t_start > budget:
                break
            size = rng.choice([1, 2, 3, 4, 5, 6, 8])
            desc = gen_desc(rng, size)
            nroots[len(roots_of(desc))] = nroots.get(len(roots_of(desc)), 0) + 1
            inst_seed = rng.randrange(1 << 30)
            tmp = os.path.join(tmp_root, f'c{i}')
            os.makedirs(tmp)
            try:
                fails = evaluate(desc, inst_seed, tmp, stats)
            finally:
                shutil.rmtree(tmp, ignore_errors=True)
            evaluated += 1
            sizes[size] = sizes.get(size, 0) + 1
            shapes.add(json.dumps(desc, sort_keys=True))
            if len(samples) < 2 and i % 50 == 7:
                samples.append({'desc': desc, 'inst_seed': inst_seed})
            for f in fails:
                for pair in f['pairs']:
                    lost_pairs[tuple(pair)] = lost_pairs.get(tuple(pair), 0) + 1
                k = (f['clause'], f['construct'])
                if k not in seen_fail:
                    seen_fail[k] = True
                    small = shrink(desc, inst_seed, f['clause'], f['construct'], budget_s=6.0 if not thorough else 20.0)
                    tmp = tempfile.mkdtemp(prefix='c10r_', dir=scratch())
                    try:
                        again = [g for g in evaluate(small, inst_seed, tmp)
                                 if (g['clause'], g['construct']) == k]
                    finally:
                        shutil.rmtree(tmp, ignore_errors=True)
                    what = again[0]['what'] if again else f['what']
                    out.fail(sig_of(f), f'{f["clause"]}/{f["construct"]}: {what}',
                             {'kind': 'generated', 'desc': small if again else desc, 'inst_seed': inst_seed})
                else:
                    # same kind again: counted, the first (shrunk) one is the replay
                    stats['repeat_failures'] = stats.get('repeat_failures', 0) + 1
        # --- corpus
        corpus = {'ok': [], 'unloadable': [], 'dangling-references': [], 'failed': []}
        ctmp = os.path.join(tmp_root, 'corpus_run')
        os.makedirs(ctmp)
        for fname in corpus_files():
            st, fails = evaluate_corpus(fname, ctmp)
            corpus[st].append(fname)
            for f in fails:
                for pair in f['pairs']:
                    lost_pairs[tuple(pair)] = lost_pairs.get(tuple(pair), 0) + 1
                out.fail(sig_of(f), f'{f["clause"]}/{f["construct"]}: {f["what"]}',
                         {'kind': 'corpus', 'file': fname})
    finally:
        shutil.rmtree(tmp_root, ignore_errors=True)
    # --- (b) the model's prediction of what cannot be written vs what the oracle saw being lost
    predicted = None
    try:
        m = common.Model()
        idx = m.ask('ecoremm', [0])
        m.close()
        predicted = sorted(SIGNATURE_FEATURES[i] for i in idx)
    except Exception as e:
        out.diff(f'extracted model run_ecoremm unavailable: {e}', {})
    if predicted is not None:
        observed_lost = sorted(p for p in lost_pairs if p in set(SIGNATURE_FEATURES))
        # a predicted-unwritable feature must be observed lost as soon as the generator exercised it
        exercised = {tuple(k.split('.')) for k, v in stats['nondefault'].items() if v > 0}
        for p in predicted:
            if tuple(p) in exercised and tuple(p) not in lost_pairs:
                out.diff(f'model predicts {p} is not written, yet it survived every save/reload', {'pair': p})
        for p in observed_lost:
            if tuple(p) not in set(map(tuple, predicted)):
                # lost although reachable through _isset: a writer/reader defect rather than a table fact; the
                # oracle failure above carries it, the tie is not broken
                stats.setdefault('lost_although_written_by_model', []).append(list(p))
    exercised_pairs = sum(1 for k, v in stats['nondefault'].items() if v > 0)
    out.coverage.update({
        'evaluations': evaluated + len(corpus_files()),
        'generated_metamodels': evaluated,
        'distinct_nontrivial': len(shapes),
        'rule': 'a case = one generated metamodel description (saved, reloaded, signatures compared, every class '
                'instantiated, one instance document cross-loaded) or one shipped .ecore file (load, re-save, load); '
                'distinct_nontrivial counts distinct metamodel descriptions actually generated',
        'samples': samples,
        'traces_validated_against_impl': rows + exercised_pairs,
        'traces_rule': 'table rows and class rows compared with the live reflection of pyecore.ecore, plus the signature '
                       'features whose predicted written/not-written status was confronted with what save/reload did to '
                       'non-default values',
        'table_rows_checked_against_live_ecore': rows,
        'signature_nodes_compared': stats.get('sig_nodes', 0),
        'signature_features_exercised_with_non_default_value': exercised_pairs,
        'signature_features_total': len(SIGNATURE_FEATURES),
        'non_default_occurrences_by_feature': dict(sorted(stats['nondefault'].items())),
        'size_parameter_distribution': sizes,
        'root_packages_per_resource': nroots,
        'instance_documents_cross_loaded': stats.get('instance_docs', 0),
        'instance_objects': stats.get('instance_objects', 0),
        'instance_docs_not_roundtripping_against_original(C08)':
            stats.get('instance_docs_not_roundtripping_against_original(C08)', 0),
        'instance_generation_errors': stats.get('instance_generation_errors', 0),
        'instance_generation_error_samples': stats.get('instance_generation_error_samples', [])[:3],
        'instance_save_errors': stats.get('instance_save_errors', 0),
        'corpus': {k: v for k, v in corpus.items()},
        'model_predicted_not_written': predicted,
        'observed_lost_signature_features': sorted(map(list, lost_pairs)),
        'lost_although_written_by_model': stats.get('lost_although_written_by_model', []),
        'repeat_failures_of_a_reported_kind': stats.get('repeat_failures', 0),
        'time_budget_s': budget,
    })
    out.assumptions += [
        'generated metamodels: unique names per package across kinds and per class hierarchy across features and '
        'operations (the C11 fragment hazard is kept out), supertypes listed so that C3 succeeds, required operation '
        'parameters first, no generics/type parameters, annotations carry source+details only',
        'Python-side EAttribute(default_value=...) is not an Ecore meta-feature and is not generated; '
        'defaultValueLiteral is',
        'instance documents stay inside what C08 establishes (no empty-but-touched collections, no blank strings); '
        'the cross-load clause compares the load against the reloaded metamodel with the load against the original',
        'corpus files that do not load at all are outside the claim (listed under corpus.unloadable)',
    ]


def replay(ctx, rep):
    ecore()
    case = rep['case']
    sig = rep.get('signature', {})
    tmp = tempfile.mkdtemp(prefix='c10p_', dir=scratch())
    try:
        if case.get('kind') == 'corpus':
            st, fails = evaluate_corpus(case['file'], tmp)
        else:
            fails = evaluate(case['desc'], case['inst_seed'], tmp)
    finally:
        shutil.rmtree(tmp, ignore_errors=True)
    for f in fails:
        print('FAIL', f['clause'], f['construct'], '-', f['what'])
    hit = [f for f in fails if not sig or (f['clause'] == sig.get('clause') and f['construct'] == sig.get('construct'))]
    print('REPRODUCED' if hit else 'not reproduced')
    return 1 if hit else 0
