"""C19 — kernel property: see DESIGN.md section 5 and harness/kprop.py.

Nine parts (all run by `run`):
 1. kernel correspondence + views oracle (harness/kprop.py, koracle.c19_views) on the feature templates of kgen;
 2. `meta_views`: class-graph edit histories, every view against Model/MetaViews.v and an independent closure;
 3. `subtree_scenarios` (implementation only, PRNG stream 'C19:subtrees'): random class hierarchies in which
    SUBCLASSES add containment references, so that a containment slot whose declared type (a base class, or
    EObject) has no containment reference of its own holds instances that do have children; random trees are
    built and rearranged through every public access path (attribute syntax, eGet/eSet by name and by feature
    object, collection methods), containment references are added to classes at run time, and after EVERY
    mutation eContents / eAllContents / eRoot of every object are compared with a computation that reads only
    the primary feature values (through eGet) and follows the class description kept by the generator.  The
    kernel model (Kernel.v) has one class per template and no subclassing of slot types: this family is
    oracle-only;
 4. `meta_clash_scenarios` (PRNG stream 'C19:metaclash'): class graphs with multiple inheritance whose feature
    NAMES come from a pool of three, so that the same name is declared in unrelated branches at different
    depths, edited at run time (eSuperTypes append/remove, features added/removed).  Names are unique inside
    one class (two features of one name in one eStructuralFeatures list share one Python descriptor slot; not
    generated).  Model/MetaViews.v defines `find_feat` as the first declaration of that name in the depth-first
    generator order, with or without clashes, so the model tie (all five views) is kept on these graphs too.
    The part that is ORACLE-ONLY is the agreement of findEStructuralFeature with the declaration that
    attribute syntax / eGet / eSet by name really use on a fresh instance (the Python class linearisation is
    not in the model): a value of the FOUND feature's type is stored through one access path and read back
    through another, and eIsSet(found) must hold.  Where Python's C3 order and pyecore's depth-first order
    pick different declarations (a name redeclared in a non-first branch of a diamond) the unchanged code
    disagrees with itself: known finding F-C19-find-vs-mro (signature linearisations='differ'); everywhere
    else (linearisations='agree') the views must agree.
 5. `generic_scenarios` (implementation only, PRNG stream 'C19:generic'): class graphs that mix the two inheritance
    channels, eSuperTypes and eGenericSuperTypes (EGenericType appended with its eClassifier already set, or set
    afterwards; removed, popped, re-targeted), at several levels and edited at run time.  "Own plus inherited" is the
    reflexive-transitive closure over BOTH channels (that is what _eAllStructuralFeatures_gen and the bases of the
    Python class follow).  After every edit, for every class: eAllStructuralFeatures / eAllSuperTypes = that closure,
    each once; eAllReferences and eAllAttributes partition set(eAllStructuralFeatures) by kind; findEStructuralFeature
    and dir() of an instance name exactly those features; isinstance of instances created before and after the edit
    says exactly that closure.  Instance side: trees are built through containment references inherited through
    either channel; eContents / eAllContents / eRoot of every object are compared with the children read from the
    containment slots of all features the instance has, once following the generator's description (attribute
    syntax) and once following the instance's own eAllStructuralFeatures() (eGet by feature object).  Instances are
    kept across additive edits only (what a touched instance keeps after a removal is C12's F-C12-stale-slot).
    (fix bce9cae in /repo made the unchanged code satisfy this: see known_findings.json 'fixed'.)
    Edits on the EGenericType itself: eClassifier unset (None), set again, re-pointed to another class (any position),
    generic super types appended without classifier; and "nothing else answers": a feature of the graph that no view
    of a class lists must raise AttributeError through attribute syntax and eGet(name) on a new instance.
 6. `container_scenarios` (PRNG stream 'C19:containers'): single-valued attributes whose value is a mutable
    container made per instance (EStringToStringMapEntry, EFeatureMapEntry, java.util.List/Map data types,
    type_as_factory data types, a list parsed from a default literal; type list of harness/props/c15.py), declared
    on the class or on a super type, also added at run time, on instances created before and after the edit:
    attribute syntax, eGet(name) and eGet(feature object) must return ONE object, twice in a row, before any write,
    after in-place mutation through any one path (seen through the two others), after assignment through any write
    path (attribute, eSet by name, eSet by feature) and after del.
 7. `assign_scenarios` (PRNG stream 'C19:assign'): three EQUAL worlds (same classes, two holders, seven elements,
    same content, every object observed) receive the same assignment, each through one write route: attribute
    syntax, eSet(name), eSet(feature object).  Many-valued attributes and references (unique or not, containment
    or not, opposite single/many or none) get whole-collection assignments: a fresh list, tuple, generator,
    iterator, reversed(own collection), a filter over the own collection, the own collection itself (read by name or
    by feature), another holder's collection, a list built from the own content, a list with a duplicate, with a
    non-conforming element (in the middle, in front), the empty list, a non-iterable; single-valued features get a
    conforming value, the value they hold, None, a non-conforming value, a value held elsewhere.  After each
    assignment the outcome (exception class), the content with order, eIsSet (by name and by feature), the
    containers / opposite ends / eContents, and the notifications received by the observers must be the same on
    the three routes; an assignment refused on all routes must have changed nothing.
 8. `observed_edit_scenarios` (PRNG stream 'C19:observed'): the classes of a small graph are edited (features appended,
    inserted, extended, removed; super types added, removed) while ORDINARY EObservers are attached to them.  A
    'looking' observer evaluates, from inside notifyChanged and without raising, the oracle "every feature that
    eAllStructuralFeatures / findEStructuralFeature list is readable and writable through the three routes on the
    instance created before the edits and on a new one; isinstance agrees with eAllSuperTypes; both agree with the
    generator's description of the graph" for every class; a 'vetoing' observer raises on some notifications (the
    edit call raises, the edit is stored: pyecore tells observers after the change) and the same oracle runs right
    afterwards, as it does after every quiet edit.  (On the unchanged code the internal listeners of an EClass run
    before the user's observers, so the state is consistent at all three moments.)
 9. `value_equal_scenarios` (PRNG stream 'C19:valueeq'): STATIC classes (@EMetaclass) whose instances compare by value
    (__eq__/__hash__ on the name; names from a pool of three) and/or are falsy (__len__ = number of subfolders, or
    __bool__ False).  Containment trees (two many-valued references, one single-valued, two resources) in which
    value-equal objects sit along one container chain and in different branches, never inside one collection (unique
    collections and resource.contents are equality-based by design).  After every edit (append/insert/extend, set,
    move between parents, remove, delete, to/from a resource) and for every object: eRoot() is the end of the
    eContainer() chain and of the holders read from the containment slots BY IDENTITY; eContents / eAllContents are,
    by identity, the children / every descendant exactly once; eResource is the resource holding the root.
    Two situations broke the OWNERSHIP (C02's subject, not the views) until fix 86e4696 in /repo and are generated and
    counted since: moving an object between two value-equal parents (_update_container compared containers with !=:
    the object stayed in both), and moving an object whose resource has a ROOT equal to it (`value in
    resource.contents` was an equality test: that root left resource.contents and kept its _eresource).  A case is
    left (and counted) if an object is found in two containment slots.
"""
from harness import kgen, kprop

PID = 'C19'


def run(ctx, out):
    kprop.run(ctx, out, PID, ['C19'], {'outcome','values','ownership','views'}, 1500, 30000, pool=kgen.CONT_TEMPLATES+['p1n','rn','ai','snn'], weights={'res':0.1,'delete':0.05}, p_wrong=0.05)


def replay(ctx, rep):
    from harness import krun, common
    case = rep['case']
    if case.get('scenario') == 'metaclash':
        # the history of a class-graph case is self-contained: it is replayed literally (every access-path pair);
        # generator cases are also re-generated from their seed
        if metaclash_script(case, (rep.get('signature') or {}).get('linearisations')):
            return 1
        if 'seed' in case:
            return common.scenario_replay(ctx, rep, {'metaclash': meta_clash_scenarios})
        print('not reproduced')
        return 0
    if case.get('scenario'):
        return common.scenario_replay(ctx, rep, {'subtrees': subtree_scenarios, 'generic': generic_scenarios,
                                                 'containers': container_scenarios, 'assign': assign_scenarios,
                                                 'observed': observed_edit_scenarios, 'valueeq': value_equal_scenarios})
    r = krun.Run(case, ['C19']).run()
    for s in r.steps:
        print(s['op'], '->', s['outcome'])
    if r.failure:
        print('REPRODUCED', r.failure['property'], r.failure['clause'], r.failure['detail'])
        return 1
    print('not reproduced')
    return 0


# ---------------- metamodel side: reflective views follow edits of the class graph ----------------
def _closure(sup, c):
    seen, todo = [], list(sup[c])
    while todo:
        d = todo.pop(0)
        if d not in seen:
            seen.append(d)
            todo += sup[d]
    return seen


def meta_views(ctx, out):
    """random class graphs (<= 5 classes, DAG, diamonds) and edit histories (add/remove supertype or
    feature); after EVERY edit every view of every class is queried and compared with the model
    (Model/MetaViews.v, recomputed from the current description) and with an independent closure."""
    from harness import common
    common.use_repo()
    from pyecore import ecore as E
    rng = ctx.rng
    model = common.Model()
    n = 150 if ctx.tier != 'thorough' else 3000
    stats = {'graphs': 0, 'edits': 0, 'queries': 0}
    sample = None
    for gi in range(n):
        ncls = rng.randrange(2, 6)
        classes = [E.EClass(f'K{i}') for i in range(ncls)]
        sup = {i: [] for i in range(ncls)}
        own = {i: [] for i in range(ncls)}       # list of (fid, isref, name)
        fobj = {}
        nextf = [0]
        hist = []

        def add_feature(c):
            fid = nextf[0]
            nextf[0] += 1
            isref = rng.random() < 0.5
            name = f'f{rng.randrange(0, 6)}' if rng.random() < 0.3 else f'g{fid}'
            if name in [t[2] for t in own[c]]:
                # two features of one name in ONE class share one descriptor slot of the Python class (removing both
                # raises AttributeError in delattr): not a class graph this property talks about
                name = f'g{fid}'
            f = E.EReference(name, classes[rng.randrange(ncls)]) if isref else E.EAttribute(name, E.EString)
            classes[c].eStructuralFeatures.append(f)
            own[c].append((fid, isref, name))
            fobj[fid] = f
            hist.append(['add-feature', c, name, isref])

        def check_all(where):
            names = sorted({nm for c in own for (_, _, nm) in own[c]} | {'nope'})
            nameid = {nm: i for i, nm in enumerate(names)}
            toks = [ncls]
            for c in range(ncls):
                toks += [len(sup[c])] + sup[c] + [len(own[c])]
                for (fid, isref, nm) in own[c]:
                    toks += [fid, int(isref), nameid[nm]]
            toks += [nameid[nm] for nm in names]
            mo = model.ask('metaviews', toks)
            r = iter(mo)
            fid_of = {id(f): k for k, f in fobj.items()}
            cid_of = {id(c): k for k, c in enumerate(classes)}
            for c in range(ncls):
                ec = classes[c]
                impl = {
                    'supers': [cid_of[id(x)] for x in ec.eAllSuperTypes()],
                    'feats': [fid_of[id(x)] for x in ec.eAllStructuralFeatures()],
                    'refs': sorted(fid_of[id(x)] for x in ec.eAllReferences()),
                    'attrs': sorted(fid_of[id(x)] for x in ec.eAllAttributes()),
                    'find': [fid_of.get(id(ec.findEStructuralFeature(nm)), -1) for nm in names],
                }
                stats['queries'] += 5
                m_sup = [next(r) for _ in range(next(r))]
                m_feats = [next(r) for _ in range(next(r))]
                m_refs = sorted(next(r) for _ in range(next(r)))
                m_attrs = sorted(next(r) for _ in range(next(r)))
                m_find = [next(r) for _ in names]
                mod = {'supers': m_sup, 'feats': m_feats, 'refs': m_refs, 'attrs': m_attrs, 'find': m_find}
                case = {'ncls': ncls, 'history': hist[:], 'class': c}
                if impl != mod:
                    k = next(k for k in impl if impl[k] != mod[k])
                    out.diff(f'metaviews {where}: class K{c} {k}: impl {impl[k]} model {mod[k]}', case)
                # independent oracle: own + inherited declarations, reflexive-transitive closure
                anc = _closure(sup, c)
                want_feats = sorted(fid for d in [c] + anc for (fid, _, _) in own[d])
                isr = {fid: ir for d in own for (fid, ir, _) in own[d]}
                clause = None
                if sorted(impl['supers']) != sorted(anc) or len(set(impl['supers'])) != len(impl['supers']):
                    clause = 'eAllSuperTypes'
                elif sorted(impl['feats']) != want_feats or len(set(impl['feats'])) != len(impl['feats']):
                    clause = 'eAllStructuralFeatures'
                elif impl['refs'] != sorted(f for f in want_feats if isr[f]):
                    clause = 'eAllReferences'
                elif impl['attrs'] != sorted(f for f in want_feats if not isr[f]):
                    clause = 'eAllAttributes'
                else:
                    nm_of = {fid: nm for d in own for (fid, _, nm) in own[d]}
                    for nm, got in zip(names, impl['find']):
                        have = [f for f in want_feats if nm_of[f] == nm]
                        if (got == -1) != (not have) or (got != -1 and got not in have):
                            clause = 'findEStructuralFeature'
                if clause:
                    out.fail({'property': 'C19', 'clause': 'meta-' + clause, 'after': hist[-1][0] if hist else 'creation'},
                             f'class K{c} {clause} disagrees with own+inherited declarations after {hist[-3:]}: {impl}', case)

        for c in range(ncls):
            for _ in range(rng.randrange(0, 3)):
                add_feature(c)
        check_all('initial')
        for step in range(rng.randrange(2, 9)):
            k = rng.choice(['add-super', 'add-super', 'remove-super', 'add-feature', 'remove-feature'])
            c = rng.randrange(ncls)
            if k == 'add-super':
                cands = [d for d in range(ncls) if d != c and d not in sup[c] and c not in _closure(sup, d) and d != c]
                if not cands:
                    continue
                d = rng.choice(cands)
                try:
                    classes[c].eSuperTypes.append(classes[d])
                except TypeError:
                    continue      # Python refuses an inconsistent MRO: the edit did not happen
                sup[c].append(d)
                hist.append(['add-super', c, d])
            elif k == 'remove-super':
                if not sup[c]:
                    continue
                d = rng.choice(sup[c])
                try:
                    classes[c].eSuperTypes.remove(classes[d])
                except TypeError:
                    continue
                sup[c].remove(d)
                hist.append(['remove-super', c, d])
            elif k == 'add-feature':
                add_feature(c)
            else:
                if not own[c]:
                    continue
                t = rng.choice(own[c])
                classes[c].eStructuralFeatures.remove(fobj[t[0]])
                own[c].remove(t)
                hist.append(['remove-feature', c, t[2]])
            stats['edits'] += 1
            check_all(f'after edit {len(hist)}')
        stats['graphs'] += 1
        if sample is None and len(hist) > 4:
            sample = {'ncls': ncls, 'history': hist[:]}
    model.close()
    out.coverage['meta_graphs'] = stats['graphs']
    out.coverage['meta_edits'] = stats['edits']
    out.coverage['meta_view_queries'] = stats['queries']
    out.coverage['meta_sample'] = sample


_kernel_run = run


def run(ctx, out):   # noqa: F811
    _kernel_run(ctx, out)
    meta_views(ctx, out)


# ---------------------------------------------------------------------------
# shared helpers of the two implementation-side scenario families

def _plain_mro(sup, n):
    """Python's own linearisation of the class graph, on plain classes (independent of pyecore);
    None when Python refuses the graph (cycle, inconsistent MRO): such graphs are not generated"""
    built = {}

    def mk(i, seen=()):
        if i in built:
            return built[i]
        if i in seen:
            raise TypeError('cycle')
        bases = tuple(mk(j, seen + (i,)) for j in sup[i]) or (object,)
        built[i] = type(f'K{i}', bases, {'_k': i})
        return built[i]
    try:
        for i in range(n):
            mk(i)
    except TypeError:
        return None
    return {i: [k.__dict__['_k'] for k in built[i].__mro__ if '_k' in k.__dict__] for i in range(n)}


def _dfs(sup, c):
    """the class, then each direct supertype's walk, left to right (duplicates kept)"""
    out = [c]
    for d in sup[c]:
        out += _dfs(sup, d)
    return out


# ---------------- 3. containment trees through slots typed by a base class ----------------
MANY_IN = ['append', 'insert0', 'extend', 'eGet-name.append', 'eGet-feature.append', 'iadd']
ONE_IN = ['attr', 'eSet-name', 'eSet-feature']
READS = ['attr', 'eGet-name', 'eGet-feature']


def subtree_scenarios(ctx, out):
    """see the module docstring, part 3"""
    from harness import common
    common.use_repo()
    from pyecore import ecore as E
    rng = common.rng_for(ctx.seed, 'C19:subtrees')
    n = 400 if ctx.tier != 'thorough' else 6000
    st = {'models': 0, 'mutations': 0, 'views': 0, 'subtype_slot_views': 0, 'eobject_slot_views': 0,
          'max_depth': 0, 'raised': 0, 'feature_added_at_run_time': 0,
          'flagged_volatile': 0, 'flagged_unsettable': 0, 'flagged_transient': 0, 'flagged_changeable': 0}
    sample = None
    for it in range(n):
        NK = rng.randrange(3, 7)
        sup = {i: [] for i in range(NK)}
        for i in range(1, NK):
            if rng.random() < 0.8:
                sup[i].append(rng.randrange(i))
                if i >= 2 and rng.random() < 0.2:
                    j = rng.randrange(i)
                    trial = {k: list(v) for k, v in sup.items()}
                    if j not in trial[i]:
                        trial[i].append(j)
                        if _plain_mro(trial, NK) is not None:
                            sup = trial
        K = []
        for i in range(NK):
            K.append(E.EClass(f'K{i}', superclass=tuple(K[j] for j in sup[i])))
        anc = {i: set(_dfs(sup, i)) for i in range(NK)}          # reflexive
        feats = []                                               # dicts: name owner target many containment
        fobj = {}

        def add_ref(owner, containment, target=None):
            if target is None:
                target = 'EObject' if rng.random() < 0.12 else min(rng.randrange(NK), rng.randrange(NK))
            f = {'name': f'r{len(feats)}', 'owner': owner, 'target': target, 'many': rng.random() < 0.7,
                 'containment': containment}
            # flags that do not change where the value lives (NOT derived): the views must not care
            flags = {fl: val for fl, val in (('volatile', True), ('unsettable', True), ('transient', True), ('changeable', False))
                     if rng.random() < 0.2}
            f['flags'] = sorted(flags)
            if containment:
                for fl in flags:
                    st['flagged_' + fl] += 1
            ref = E.EReference(f['name'], E.EObject if target == 'EObject' else K[target],
                               upper=-1 if f['many'] else 1, containment=containment, **flags)
            K[owner].eStructuralFeatures.append(ref)
            feats.append(f)
            fobj[f['name']] = ref
            return f

        for i in range(NK):
            for _ in range(rng.choice([0, 0, 1]) if i == 0 else rng.choice([0, 1, 1, 2])):
                add_ref(i, rng.random() < 0.75)
        if not any(f['containment'] for f in feats):
            add_ref(NK - 1, True, 0)

        def feats_of(k, containment=None):
            return [f for f in feats if f['owner'] in anc[k] and (containment is None or f['containment'] == containment)]

        def can_contain(k):
            return bool(feats_of(k, True))

        def conforms(k, target):
            return target == 'EObject' or target in anc[k]

        objs, cls = [], []
        hist = [['mm', it, {'supers': {str(k): v for k, v in sup.items()}, 'features': [dict(f) for f in feats]}]]

        def new(k):
            objs.append(K[k]())
            cls.append(k)
            return len(objs) - 1

        def read(x, f, path):
            o = objs[x]
            v = getattr(o, f['name']) if path == 'attr' else o.eGet(f['name']) if path == 'eGet-name' else o.eGet(fobj[f['name']])
            if f['many']:
                return list(v)
            return [] if v is None else [v]

        def idx(o):
            for i, p in enumerate(objs):
                if p is o:
                    return i
            return repr(o)

        def primary():
            """children per object, from the primary values only"""
            kids = {}
            for x in range(len(objs)):
                kids[x] = []
                for f in feats_of(cls[x], True):
                    kids[x] += [(idx(v), f) for v in read(x, f, rng.choice(READS))]
            return kids

        def below(kids, x, seen=None):
            seen = set() if seen is None else seen
            res = []
            for (c, _) in kids[x]:
                if c in seen or not isinstance(c, int):
                    continue
                seen.add(c)
                res.append(c)
                res += below(kids, c, seen)
            return res

        def put(h, f, x, path):
            o, v, nm = objs[h], objs[x], f['name']
            try:
                if f['many']:
                    if path == 'append':
                        getattr(o, nm).append(v)
                    elif path == 'insert0':
                        getattr(o, nm).insert(0, v)
                    elif path == 'extend':
                        getattr(o, nm).extend([v])
                    elif path == 'eGet-name.append':
                        o.eGet(nm).append(v)
                    elif path == 'eGet-feature.append':
                        o.eGet(fobj[nm]).append(v)
                    else:
                        c = getattr(o, nm)
                        c += [v]
                elif path == 'attr':
                    setattr(o, nm, v)
                elif path == 'eSet-name':
                    o.eSet(nm, v)
                else:
                    o.eSet(fobj[nm], v)
                return None
            except Exception as e:  # noqa  (what a store may refuse is C03's subject; the views are checked anyway)
                st['raised'] += 1
                return type(e).__name__

        def check():
            """every view of every object against the primary values"""
            kids = primary()
            parent = {}
            for x in kids:
                for (c, f) in kids[x]:
                    if isinstance(c, int):
                        parent[c] = (x, f)
            case = {'scenario': 'subtrees', 'seed': ctx.seed, 'tier': ctx.tier, 'history': [list(h) for h in hist]}
            for x in range(len(objs)):
                o = objs[x]
                st['views'] += 1
                # access paths are interchangeable
                for f in feats_of(cls[x]):
                    a, b, c = (sorted(map(str, map(idx, read(x, f, p)))) for p in READS)
                    if not (a == b == c):
                        out.fail({'property': 'C19', 'clause': 'access-paths', 'scenario': 'subtrees'},
                                 f'obj{x}.{f["name"]}: attribute syntax {a}, eGet(name) {b}, eGet(feature) {c} after {hist[-1]}', case)
                        return False
                want = sorted(str(c) for (c, _) in kids[x])
                got = sorted(str(idx(v)) for v in o.eContents)
                if got != want:
                    out.fail({'property': 'C19', 'clause': 'econtents', 'scenario': 'subtrees'},
                             f'obj{x} (K{cls[x]}).eContents = {got} but its containment references hold {want} after {hist[-1]}', case)
                    return False
                desc = below(kids, x)
                try:
                    allc = [idx(v) for v in o.eAllContents()]
                except RecursionError:
                    allc = ['<RecursionError>']
                if sorted(map(str, allc)) != sorted(map(str, desc)):
                    kind = ('duplicate' if len(set(map(str, allc))) != len(allc) else
                            'missing' if set(map(str, desc)) - set(map(str, allc)) else 'extra')
                    # where is the first missing object held?
                    hint = ''
                    miss = [d for d in desc if d not in allc]
                    if miss:
                        px, pf = parent[miss[0]]
                        hx = parent.get(px)
                        hint = (f'; obj{miss[0]} (K{cls[miss[0]]}) is held by obj{px} (K{cls[px]}).{pf["name"]}'
                                + (f', itself held by obj{hx[0]}.{hx[1]["name"]} declared with type '
                                   f'{hx[1]["target"] if hx[1]["target"] == "EObject" else "K" + str(hx[1]["target"])}' if hx else ''))
                    out.fail({'property': 'C19', 'clause': 'eallcontents', 'kind': kind, 'scenario': 'subtrees'},
                             f'obj{x} (K{cls[x]}).eAllContents() = {allc} but the objects transitively held by containment '
                             f'references are {desc}{hint} after {hist[-1]}', case)
                    return False
                if len(set(allc)) != len(allc):
                    out.fail({'property': 'C19', 'clause': 'eallcontents', 'kind': 'duplicate', 'scenario': 'subtrees'},
                             f'obj{x}.eAllContents() = {allc} yields an object twice after {hist[-1]}', case)
                    return False
                # eRoot: end of the eContainer() chain, and end of the chain of holders read from the slots
                end, hops = o, 0
                while end.eContainer() is not None and hops < 100:
                    end, hops = end.eContainer(), hops + 1
                top, hops2 = x, 0
                while top in parent and hops2 < 100:
                    top, hops2 = parent[top][0], hops2 + 1
                st['max_depth'] = max(st['max_depth'], hops2)
                r = o.eRoot()
                if r is not end or r is not objs[top]:
                    out.fail({'property': 'C19', 'clause': 'eroot', 'scenario': 'subtrees'},
                             f'obj{x}.eRoot() = obj{idx(r)}, the eContainer() chain ends at obj{idx(end)}, the holders '
                             f'read from the containment slots end at obj{top} after {hist[-1]}', case)
                    return False
                # coverage: a child with children of its own, sitting in a slot whose declared type cannot contain
                if x in parent and kids[x]:
                    t = parent[x][1]['target']
                    if t == 'EObject':
                        st['eobject_slot_views'] += 1
                    elif not can_contain(t):
                        st['subtype_slot_views'] += 1
            return True

        for _ in range(rng.randrange(1, 4)):
            new(rng.randrange(NK))
        ok = check()
        steps = rng.randrange(4, 14)
        for step in range(steps):
            if not ok:
                break
            r = rng.random()
            kids = primary()
            holders = [(h, f) for h in range(len(objs)) for f in feats_of(cls[h], True)]
            if r < 0.5 and holders:
                h, f = rng.choice(holders)
                # prefer to grow below the object added last, and prefer classes that can contain (depth)
                if rng.random() < 0.5:
                    deep = [(hh, ff) for (hh, ff) in holders if hh == len(objs) - 1]
                    if deep:
                        h, f = rng.choice(deep)
                ks = [k for k in range(NK) if conforms(k, f['target'])]
                rich = [k for k in ks if can_contain(k)]
                k = rng.choice(rich) if rich and rng.random() < 0.7 else rng.choice(ks)
                x = new(k)
                path = rng.choice(MANY_IN if f['many'] else ONE_IN)
                hist.append(['new-child', h, f['name'], k, path, put(h, f, x, path)])
            elif r < 0.72 and holders and len(objs) > 1:
                x = rng.randrange(len(objs))
                sub = set(below(kids, x)) | {x}
                cands = [(h, f) for (h, f) in holders if h not in sub and conforms(cls[x], f['target'])]
                if not cands:
                    continue
                h, f = rng.choice(cands)
                path = rng.choice(MANY_IN if f['many'] else ONE_IN)
                hist.append(['move', x, h, f['name'], path, put(h, f, x, path)])
            elif r < 0.84:
                held = [(x, c, f) for x in kids for (c, f) in kids[x] if isinstance(c, int)]
                if not held:
                    continue
                x, c, f = rng.choice(held)
                raised = None
                try:
                    if f['many']:
                        how = rng.choice(['remove', 'pop'])
                        coll = objs[x].eGet(f['name'])
                        if how == 'remove':
                            coll.remove(objs[c])
                        else:
                            coll.pop()
                    else:
                        how = rng.choice(ONE_IN)
                        if how == 'attr':
                            setattr(objs[x], f['name'], None)
                        elif how == 'eSet-name':
                            objs[x].eSet(f['name'], None)
                        else:
                            objs[x].eSet(fobj[f['name']], None)
                except Exception as e:  # noqa
                    raised = type(e).__name__
                    st['raised'] += 1
                hist.append(['take-out', x, f['name'], c, how, raised])
            elif r < 0.9:
                hist.append(['new-root', new(rng.randrange(NK))])
            elif r < 0.95:
                plain = [(h, f) for h in range(len(objs)) for f in feats_of(cls[h], False)]
                if not plain:
                    continue
                h, f = rng.choice(plain)
                xs = [x for x in range(len(objs)) if conforms(cls[x], f['target'])]
                if not xs:
                    continue
                x = rng.choice(xs)
                path = rng.choice(MANY_IN if f['many'] else ONE_IN)
                hist.append(['link', h, f['name'], x, path, put(h, f, x, path)])
            else:
                f = add_ref(rng.randrange(NK), True)
                st['feature_added_at_run_time'] += 1
                hist.append(['add-containment-reference', dict(f)])
            st['mutations'] += 1
            ok = check()
        st['models'] += 1
        if sample is None and ok and len(hist) > 6:
            sample = {'scenario': 'subtrees', 'history': [list(h) for h in hist]}
    out.coverage['subtree_models'] = st['models']
    out.coverage['subtree_mutations'] = st['mutations']
    out.coverage['subtree_object_views_checked'] = st['views']
    out.coverage['subtree_views_child_with_children_in_slot_typed_by_class_without_containment'] = st['subtype_slot_views']
    out.coverage['subtree_views_child_with_children_in_slot_typed_EObject'] = st['eobject_slot_views']
    out.coverage['subtree_max_depth'] = st['max_depth']
    out.coverage['subtree_containment_references_added_at_run_time'] = st['feature_added_at_run_time']
    out.coverage['subtree_stores_refused'] = st['raised']
    out.coverage['subtree_containment_references_flagged'] = {k[8:]: v for k, v in st.items() if k.startswith('flagged_')}
    out.coverage['subtree_sample'] = sample


# ---------------- 4. feature names clashing between branches of a multiple-inheritance graph ----------------
NAME_POOL = ['label', 'size', 'kind']
FKINDS = ['str', 'int', 'strs', 'ref', 'refs']


def meta_clash_scenarios(ctx, out):
    """see the module docstring, part 4"""
    import os
    from harness import common
    common.use_repo()
    from pyecore import ecore as E
    rng = common.rng_for(ctx.seed, 'C19:metaclash')
    model = common.Model() if os.path.exists(os.path.join(common.BUILD, 'modelrun')) else None
    n = 260 if ctx.tier != 'thorough' else 5000
    st = {'graphs': 0, 'edits': 0, 'queries': 0, 'clash_lookups': 0, 'clash_lookups_across_branches': 0,
          'probes': 0, 'lin_differ': 0, 'model_compared': 0, 'redundant_added': 0, 'covering_link_removed': 0}
    sample = None
    for gi in range(n):
        ncls = rng.randrange(3, 7)
        classes = [E.EClass(f'K{i}') for i in range(ncls)]
        sup = {i: [] for i in range(ncls)}
        own = {i: [] for i in range(ncls)}       # (fid, isref, name)
        kind = {}                                # fid -> (kind, target class)
        fobj = {}
        nextf = [0]
        hist = [['graph', gi, ncls]]
        state = {'ok': True}

        def add_feature(c):
            free = [nm for nm in NAME_POOL if nm not in [t[2] for t in own[c]]]
            fid = nextf[0]
            if free and rng.random() < 0.75:
                name = rng.choice(free)
            else:
                name = f'g{fid}'
            nextf[0] += 1
            k = rng.choice(FKINDS)
            t = rng.randrange(ncls)
            if k == 'str':
                f = E.EAttribute(name, E.EString)
            elif k == 'int':
                f = E.EAttribute(name, E.EInt)
            elif k == 'strs':
                f = E.EAttribute(name, E.EString, upper=-1)
            else:
                f = E.EReference(name, classes[t], upper=-1 if k == 'refs' else 1)
            classes[c].eStructuralFeatures.append(f)
            own[c].append((fid, k in ('ref', 'refs'), name))
            kind[fid] = (k, t)
            fobj[fid] = f
            hist.append(['add-feature', c, name, k, t])

        def try_super(c, d):
            if d == c or d in sup[c] or c in _closure(sup, d):
                return False
            trial = {k: list(v) for k, v in sup.items()}
            trial[c].append(d)
            if _plain_mro(trial, ncls) is None:
                return False                  # Python would refuse the linearisation (C12's subject)
            classes[c].eSuperTypes.append(classes[d])
            sup[c].append(d)
            hist.append(['add-super', c, d])
            return True

        def probe(c, nm, found_fid, where):
            """store what the FOUND feature can hold through one path, read it back through another"""
            ec, found = classes[c], fobj[found_fid]
            k, t = kind[found_fid]
            o = ec()
            v = {'str': 'v', 'int': 7, 'strs': ['a', 'b']}.get(k)
            if k == 'ref':
                v = classes[t]()
            elif k == 'refs':
                v = [classes[t]()]
            wpath = rng.choice(ONE_IN + (['eGet-name.extend'] if k in ('strs', 'refs') else []))
            rpath = rng.choice(READS)
            st['probes'] += 1
            try:
                if wpath == 'attr':
                    setattr(o, nm, v)
                elif wpath == 'eSet-name':
                    o.eSet(nm, v)
                elif wpath == 'eSet-feature':
                    o.eSet(found, v)
                else:
                    o.eGet(nm).extend(v)
            except Exception as e:  # noqa
                return f'storing {v!r}, which the found feature ({k}) can hold, through {wpath} raised {type(e).__name__}'
            try:
                got = getattr(o, nm) if rpath == 'attr' else o.eGet(nm) if rpath == 'eGet-name' else o.eGet(found)
                got = list(got) if k in ('strs', 'refs') else got
            except Exception as e:  # noqa
                return f'reading through {rpath} raised {type(e).__name__}'
            same = (got is v) if k == 'ref' else (len(got) == 1 and got[0] is v[0]) if k == 'refs' else got == v
            if not same:
                return f'stored {v!r} through {wpath}, read {got!r} through {rpath}'
            if not o.eIsSet(found) or not o.eIsSet(nm):
                return (f'after storing through {wpath}: eIsSet(found feature) = {o.eIsSet(found)}, '
                        f'eIsSet({nm!r}) = {o.eIsSet(nm)}')
            return None

        def check_all(where):
            names = sorted({nm for c in own for (_, _, nm) in own[c]} | {'nope'})
            nameid = {nm: i for i, nm in enumerate(names)}
            fid_of = {id(f): k for k, f in fobj.items()}
            cid_of = {id(c): k for k, c in enumerate(classes)}
            nm_of = {fid: nm for d in own for (fid, _, nm) in own[d]}
            isr = {fid: ir for d in own for (fid, ir, _) in own[d]}
            mro = _plain_mro(sup, ncls)
            r = None
            if model is not None:
                toks = [ncls]
                for c in range(ncls):
                    toks += [len(sup[c])] + sup[c] + [len(own[c])]
                    for (fid, ir, nm) in own[c]:
                        toks += [fid, int(ir), nameid[nm]]
                toks += [nameid[nm] for nm in names]
                r = iter(model.ask('metaviews', toks))
            for c in range(ncls):
                ec = classes[c]
                case = {'scenario': 'metaclash', 'seed': ctx.seed, 'tier': ctx.tier, 'class': c,
                        'history': [list(h) for h in hist]}
                allf = list(ec.eAllStructuralFeatures())
                found = [ec.findEStructuralFeature(nm) for nm in names]
                impl = {
                    'supers': [cid_of[id(x)] for x in ec.eAllSuperTypes()],
                    'feats': [fid_of[id(x)] for x in allf],
                    'refs': sorted(fid_of[id(x)] for x in ec.eAllReferences()),
                    'attrs': sorted(fid_of[id(x)] for x in ec.eAllAttributes()),
                    'find': [fid_of.get(id(f), -1) for f in found],
                }
                st['queries'] += 5
                if r is not None:
                    mod = {'supers': [next(r) for _ in range(next(r))], 'feats': [next(r) for _ in range(next(r))],
                           'refs': sorted(next(r) for _ in range(next(r))), 'attrs': sorted(next(r) for _ in range(next(r))),
                           'find': [next(r) for _ in names]}
                    st['model_compared'] += 1
                    if impl != mod:
                        k = next(k for k in impl if impl[k] != mod[k])
                        out.diff(f'metaviews (name clashes) {where}: class K{c} {k}: impl {impl[k]} model {mod[k]}', case)
                # own + inherited declarations, each once
                anc = _closure(sup, c)
                want = sorted(fid for d in [c] + anc for (fid, _, _) in own[d])
                clause = None
                if sorted(impl['supers']) != sorted(anc) or len(set(impl['supers'])) != len(impl['supers']):
                    clause = 'eAllSuperTypes'
                elif sorted(impl['feats']) != want or len(set(impl['feats'])) != len(impl['feats']):
                    clause = 'eAllStructuralFeatures'
                elif impl['refs'] != sorted(f for f in want if isr[f]):
                    clause = 'eAllReferences'
                elif impl['attrs'] != sorted(f for f in want if not isr[f]):
                    clause = 'eAllAttributes'
                if clause:
                    out.fail({'property': 'C19', 'clause': 'meta-' + clause, 'after': hist[-1][0], 'scenario': 'metaclash'},
                             f'class K{c} {clause} disagrees with own+inherited declarations {want} after {hist[-3:]}: {impl}', case)
                    state['ok'] = False
                    return
                for nm, got in zip(names, impl['find']):
                    have = [f for f in want if nm_of[f] == nm]
                    if not have:
                        if got != -1:
                            out.fail({'property': 'C19', 'clause': 'meta-findEStructuralFeature', 'kind': 'found-undeclared', 'scenario': 'metaclash'},
                                     f'K{c}.findEStructuralFeature({nm!r}) gives feature {got}; no such name among own+inherited', case)
                            state['ok'] = False
                            return
                        continue
                    if got not in have:
                        out.fail({'property': 'C19', 'clause': 'meta-findEStructuralFeature', 'kind': 'declared-not-found', 'scenario': 'metaclash'},
                                 f'K{c}.findEStructuralFeature({nm!r}) gives {got}; own+inherited declarations of that name: {have}', case)
                        state['ok'] = False
                        return
                    decl = {f: next(d for d in own if any(t[0] == f for t in own[d])) for f in have}
                    if len(have) > 1:
                        st['clash_lookups'] += 1
                        ds = sorted(decl.values())
                        if any(a not in _closure(sup, b) and b not in _closure(sup, a) for a in ds for b in ds if a < b):
                            st['clash_lookups_across_branches'] += 1
                    # (i) the views agree with each other: find is the first of that name in eAllStructuralFeatures()
                    first = next(f for f in impl['feats'] if nm_of[f] == nm)
                    if got != first:
                        out.fail({'property': 'C19', 'clause': 'meta-find-vs-eAllStructuralFeatures', 'scenario': 'metaclash'},
                                 f'K{c}.findEStructuralFeature({nm!r}) is K{decl[got]}.{nm} but the first {nm!r} of '
                                 f'eAllStructuralFeatures() is K{decl[first]}.{nm} (super types {sup}) after {hist[-1]}', case)
                        state['ok'] = False      # (the probe below is still made for this name; then the graph is left)
                    # (ii) ... and with the declaration that attribute syntax / eGet / eSet by name use
                    by_dfs = next(f for d in _dfs(sup, c) for (f, _, n2) in own[d] if n2 == nm)
                    by_c3 = next(f for d in mro[c] for (f, _, n2) in own[d] if n2 == nm)
                    lin = 'agree' if by_dfs == by_c3 else 'differ'
                    if lin == 'differ':
                        st['lin_differ'] += 1
                    bad = probe(c, nm, got, where)
                    if bad:
                        out.fail({'property': 'C19', 'clause': 'meta-find-vs-attribute-syntax', 'linearisations': lin},
                                 f'K{c}.findEStructuralFeature({nm!r}) is K{decl[got]}.{nm} ({kind[got][0]}) but on a fresh K{c} '
                                 f'instance {bad} (declarations of {nm!r}: {[f"K{decl[f]}:{kind[f][0]}" for f in have]}, '
                                 f'super types {sup}; depth-first and C3 order {lin}) after {hist[-1]}', case)
                        if lin == 'agree':
                            state['ok'] = False
                    if not state['ok']:
                        return

        # initial graph: often two super types
        for i in range(ncls):
            for j in rng.sample(range(i + 1, ncls), min(ncls - i - 1, rng.choice([0, 1, 1, 2]))):
                try_super(i, j)
        for c in range(ncls):
            for _ in range(rng.choice([0, 1, 1, 2])):
                add_feature(c)
        check_all('initial')
        for step in range(rng.randrange(2, 9)):
            if not state['ok']:
                break
            k = rng.choice(['add-super', 'add-super', 'remove-super', 'add-feature', 'add-feature', 'remove-feature',
                            'add-redundant', 'remove-covering'])
            c = rng.randrange(ncls)
            fd = None
            if k == 'add-redundant':      # a class already inherited through another super type becomes a direct one too
                cands = [(c2, d2) for c2 in range(ncls) for d2 in _closure(sup, c2) if d2 not in sup[c2]]
                rng.shuffle(cands)
                if not any(try_super(c2, d2) for (c2, d2) in cands[:4]):
                    continue
                st['redundant_added'] += 1
            elif k == 'remove-covering':  # ... and the link that made a direct super type redundant is removed
                cands = [(b, a) for b in range(ncls) for a in sup[b]
                         if any(a in sup[c2] and b in _closure(sup, c2) for c2 in range(ncls))]
                if not cands:
                    continue
                c, fd = rng.choice(cands)
                k = 'remove-super'
                st['covering_link_removed'] += 1
            if k == 'add-super':
                if not try_super(c, rng.randrange(ncls)):
                    continue
            elif k == 'remove-super':
                if not sup[c]:
                    continue
                d = rng.choice(sup[c]) if fd is None else fd
                how = rng.choice(['remove', 'pop'])
                if how == 'remove':
                    classes[c].eSuperTypes.remove(classes[d])
                else:
                    classes[c].eSuperTypes.pop(sup[c].index(d))
                sup[c].remove(d)
                hist.append(['remove-super', c, d, how])
            elif k == 'add-feature':
                add_feature(c)
            else:
                if not own[c]:
                    continue
                t = rng.choice(own[c])
                classes[c].eStructuralFeatures.remove(fobj[t[0]])
                own[c].remove(t)
                hist.append(['remove-feature', c, t[2]])
            st['edits'] += 1
            check_all(f'after edit {len(hist)}')
        st['graphs'] += 1
        if sample is None and state['ok'] and len(hist) > 6:
            sample = {'scenario': 'metaclash', 'history': [list(h) for h in hist]}
    if model is not None:
        model.close()
    out.coverage['metaclash_graphs'] = st['graphs']
    out.coverage['metaclash_edits'] = st['edits']
    out.coverage['metaclash_view_queries'] = st['queries']
    out.coverage['metaclash_classes_compared_with_model'] = st['model_compared']
    out.coverage['metaclash_lookups_of_a_name_declared_more_than_once'] = st['clash_lookups']
    out.coverage['metaclash_lookups_clash_between_unrelated_classes'] = st['clash_lookups_across_branches']
    out.coverage['metaclash_instance_probes'] = st['probes']
    out.coverage['metaclash_lookups_where_c3_and_depth_first_differ'] = st['lin_differ']
    out.coverage['metaclash_redundant_super_types_added'] = st['redundant_added']
    out.coverage['metaclash_links_removed_that_made_a_direct_super_type_redundant'] = st['covering_link_removed']
    out.coverage['metaclash_sample'] = sample


def metaclash_script(case, only_lin=None):
    """literal replay of a class-graph history ([add-super c d] [remove-super c d how] [add-feature c name kind target]
    [remove-feature c name]); prints what the views answer at the end; True if they disagree.  `only_lin`: count a
    disagreement with attribute syntax only on lookups where C3 and depth-first order 'agree' / 'differ' (the latter
    is the known finding F-C19-find-vs-mro); default: 'agree' lookups, plus 'differ' ones if the case asks for them"""
    from harness import common
    common.use_repo()
    from pyecore import ecore as E
    hist = [h for h in case['history'] if h[0] != 'graph']
    ncls = case.get('ncls') or next((h[2] for h in case['history'] if h[0] == 'graph'), None) or \
        1 + max([max(h[1], h[2]) for h in hist if h[0].endswith('super')] + [h[1] for h in hist] + [h[4] for h in hist if h[0] == 'add-feature'])
    classes = [E.EClass(f'K{i}') for i in range(ncls)]
    own = {i: {} for i in range(ncls)}
    sup = {i: [] for i in range(ncls)}
    for h in hist:
        if h[0] == 'add-super':
            classes[h[1]].eSuperTypes.append(classes[h[2]])
            sup[h[1]].append(h[2])
        elif h[0] == 'remove-super':
            classes[h[1]].eSuperTypes.remove(classes[h[2]])
            sup[h[1]].remove(h[2])
        elif h[0] == 'add-feature':
            _, c, name, k, t = h
            f = (E.EAttribute(name, E.EString) if k == 'str' else E.EAttribute(name, E.EInt) if k == 'int' else
                 E.EAttribute(name, E.EString, upper=-1) if k == 'strs' else E.EReference(name, classes[t], upper=-1 if k == 'refs' else 1))
            classes[c].eStructuralFeatures.append(f)
            own[c][name] = (f, k, t)
        elif h[0] == 'remove-feature':
            classes[h[1]].eStructuralFeatures.remove(own[h[1]].pop(h[2])[0])
        print(h)
    where = {id(f): (c, k, t) for c in own for (f, k, t) in own[c].values()}
    bad = 0
    mro = _plain_mro(sup, ncls)
    for c in ([case['class']] if 'class' in case else range(ncls)):
        ec = classes[c]
        allf = list(ec.eAllStructuralFeatures())
        for nm in sorted({f.name for f in allf}):
            found = ec.findEStructuralFeature(nm)
            first = next(f for f in allf if f.name == nm)
            d, k, t = where[id(found)]
            line = f'K{c}: findEStructuralFeature({nm!r}) = K{d}.{nm} ({k}); first in eAllStructuralFeatures(): K{where[id(first)][0]}.{nm}'
            lin = 'agree' if next(d for d in _dfs(sup, c) if nm in own[d]) == next(d for d in mro[c] if nm in own[d]) else 'differ'
            counts = lin == (only_lin or 'agree')
            line += f'; C3 and depth-first order {lin}'
            if found is not first:
                bad += 1
                line += '  <-- DISAGREE'
            print(line)
            for wpath in ONE_IN:
                for rpath in READS:
                    o = ec()
                    v = {'str': 'v', 'int': 7, 'strs': ['a', 'b']}.get(k) or ([classes[t]()] if k == 'refs' else classes[t]())
                    try:
                        if wpath == 'attr':
                            setattr(o, nm, v)
                        elif wpath == 'eSet-name':
                            o.eSet(nm, v)
                        else:
                            o.eSet(found, v)
                        got = getattr(o, nm) if rpath == 'attr' else o.eGet(nm) if rpath == 'eGet-name' else o.eGet(found)
                        got = list(got) if k in ('strs', 'refs') else got
                        res = None if (got == v and o.eIsSet(found) and o.eIsSet(nm)) else \
                            f'read {got!r} through {rpath}, eIsSet(found)={o.eIsSet(found)}, eIsSet(name)={o.eIsSet(nm)}'
                    except Exception as e:  # noqa
                        res = f'raised {type(e).__name__}'
                    if res:
                        bad += counts
                        print(f'   a fresh K{c}: storing {v!r} (a value of the found feature) through {wpath}: {res}  <-- DISAGREE' + ('' if counts else ' (not counted)'))
    if bad:
        print('REPRODUCED: findEStructuralFeature disagrees with the other views')
    return bad > 0


# ---------------- 5. eSuperTypes and eGenericSuperTypes mixed ----------------
def generic_scenarios(ctx, out):
    """see the module docstring, part 5"""
    from harness import common
    common.use_repo()
    from pyecore import ecore as E
    rng = common.rng_for(ctx.seed, 'C19:generic')
    n = 400 if ctx.tier != 'thorough' else 5000
    st = {'graphs': 0, 'edits': 0, 'class_views': 0, 'object_views': 0, 'mixed_chain_views': 0, 'generic_edits': 0,
          'children_in_slot_inherited_through_generic': 0, 'isinstance_checks': 0, 'raised': 0, 'inst_ops': 0,
          'redundant_added': 0, 'covering_link_removed': 0, 'views_with_redundant_super': 0,
          'classifier_unset': 0, 'classifier_set_after_unset': 0, 'classifier_repointed': 0, 'renamed': 0, 'same_name_views': 0}
    sample = None
    for gi in range(n):
        ncls = rng.randrange(3, 7)
        # (several classes of ONE name in a graph: distinct classes all the same; messages say K<index>)
        K = [E.EClass(f'K{i}' if rng.random() < 0.5 else rng.choice(['Element', 'Node'])) for i in range(ncls)]
        sup = {i: [] for i in range(ncls)}
        gen = {i: [] for i in range(ncls)}          # [target, EGenericType]
        own = {i: [] for i in range(ncls)}          # dicts name ref containment many target (+ 'obj' kept apart)
        fobj = {}
        nextf = [0]
        hist = [['graph', gi, ncls]]
        objs, ocls = [], []
        state = {'ok': True}

        def both(c, s=None, g=None):
            return list((s or sup)[c]) + [t for (t, _) in (g or gen)[c] if t is not None]    # (None: no classifier)

        def closure(c):
            seen, todo = [], both(c)
            while todo:
                d = todo.pop(0)
                if d not in seen:
                    seen.append(d)
                    todo += both(d)
            return seen

        def via_generic(c, d):
            """is d inherited by c only along paths that use a generic edge?"""
            seen, todo = set(), list(sup[c])
            while todo:
                e = todo.pop()
                if e not in seen:
                    seen.add(e)
                    todo += sup[e]
            return d not in seen and d != c

        def feats_of(c):
            return [f for d in [c] + closure(c) for f in own[d]]

        def acceptable(c, d, channel):
            if d == c or d in both(c) or c in closure(d) or c == d:
                return False
            trial = {k: both(k) for k in range(ncls)}
            trial[c] = (sup[c] + [d] + [t for (t, _) in gen[c] if t is not None]) if channel == 'plain' else both(c) + [d]
            return _plain_mro(trial, ncls) is not None      # Python must accept the bases (C12's subject otherwise)

        def add_feature(c):
            fid = nextf[0]
            nextf[0] += 1
            isref = rng.random() < 0.7
            f = {'name': ('r' if isref else 'a') + str(fid), 'ref': isref, 'containment': isref and rng.random() < 0.75,
                 'many': rng.random() < 0.6, 'target': rng.randrange(ncls)}
            if isref:
                o = E.EReference(f['name'], K[f['target']], upper=-1 if f['many'] else 1, containment=f['containment'])
            else:
                f['many'] = False
                o = E.EAttribute(f['name'], E.EString)
            K[c].eStructuralFeatures.append(o)
            own[c].append(f)
            fobj[f['name']] = o
            hist.append(['add-feature', c, dict(f)])

        def reset():
            if objs:
                del objs[:], ocls[:]
                hist.append(['forget-instances'])

        def idx(o):
            for i, p in enumerate(objs):
                if p is o:
                    return i
            return repr(o)

        def fail(clause, what, c=None):
            case = {'scenario': 'generic', 'seed': ctx.seed, 'tier': ctx.tier, 'history': [list(h) for h in hist]}
            out.fail({'property': 'C19', 'clause': clause, 'scenario': 'generic'},
                     what + f' (eSuperTypes {sup}, eGenericSuperTypes { {k: [t for (t, _) in v] for k, v in gen.items()} }) after {hist[-1]}', case)
            state['ok'] = False

        def check_meta():
            cid = {id(k): i for i, k in enumerate(K)}
            fname_of = {id(o): nm for nm, o in fobj.items()}
            for c in range(ncls):
                ec = K[c]
                st['class_views'] += 1
                anc = closure(c)
                if any(gen[d] for d in anc) and sup[c]:
                    st['mixed_chain_views'] += 1
                if any(d in closure(e) for d in both(c) for e in both(c) if e != d):
                    st['views_with_redundant_super'] += 1
                if len({K[d].name for d in [c] + anc}) < len(anc) + 1:
                    st['same_name_views'] += 1
                want = sorted(f['name'] for f in feats_of(c))
                wrefs = sorted(f['name'] for f in feats_of(c) if f['ref'])
                wattrs = sorted(f['name'] for f in feats_of(c) if not f['ref'])
                try:
                    allf = [fname_of.get(id(x), repr(x)) for x in ec.eAllStructuralFeatures()]
                    refs = [fname_of.get(id(x), repr(x)) for x in ec.eAllReferences()]
                    attrs = [fname_of.get(id(x), repr(x)) for x in ec.eAllAttributes()]
                    sups = [cid.get(id(x), repr(x)) for x in ec.eAllSuperTypes()]
                    found = {nm: fname_of.get(id(ec.findEStructuralFeature(nm))) for nm in list(fobj) + ['nope']}
                except Exception as e:  # noqa
                    return fail('meta-view-raises', f'a view of K{c} raised {type(e).__name__}: {e}')
                if sorted(allf) != want:
                    return fail('meta-eAllStructuralFeatures', f'K{c}.eAllStructuralFeatures() = {allf}, own+inherited declarations: {want}')
                # (these two are reported once per graph and the graph goes on: what do eContents & co. make of it?)
                if sorted(refs) != wrefs and 'refs' not in state:
                    fail('meta-eAllReferences', f'K{c}.eAllReferences() = {sorted(refs)} but the references among '
                                                f'eAllStructuralFeatures() / own+inherited are {wrefs}')
                    state['refs'] = state['ok'] = True
                if sorted(attrs) != wattrs and 'attrs' not in state:
                    fail('meta-eAllAttributes', f'K{c}.eAllAttributes() = {sorted(attrs)} but the attributes among '
                                                f'eAllStructuralFeatures() / own+inherited are {wattrs}')
                    state['attrs'] = state['ok'] = True
                if sorted(map(str, sups)) != sorted(map(str, anc)):
                    return fail('meta-eAllSuperTypes', f'K{c}.eAllSuperTypes() = {sups}, classes it inherits from: {sorted(anc)}')
                for nm, got in found.items():
                    if got != (nm if nm in want else None):
                        return fail('meta-findEStructuralFeature', f'K{c}.findEStructuralFeature({nm!r}) gives {got}; own+inherited: {want}')
                # what instances say: a fresh one, and those created before the edit
                try:
                    fresh = ec()
                except Exception as e:  # noqa
                    return fail('meta-instance', f'K{c}() raised {type(e).__name__}: {e}')
                for who, o in [('a new instance', fresh)] + [(f'obj{i} (created earlier)', p) for i, p in enumerate(objs) if ocls[i] == c]:
                    st['isinstance_checks'] += 1
                    isa = sorted(d for d in range(ncls) if d != c and isinstance(o, K[d].python_class))
                    isa2 = sorted(d for d in range(ncls) if d != c and isinstance(o, K[d]))
                    if isa != sorted(anc) or isa2 != sorted(anc):
                        return fail('meta-isinstance', f'{who} of K{c} is an instance of {isa} (python classes) / {isa2} (EClasses) '
                                                       f'but K{c} inherits from {sorted(anc)}')
                    names = sorted(x for x in dir(o))
                    if names != want:
                        return fail('meta-dir', f'dir({who} of K{c}) = {names}, own+inherited features: {want}')
                    for nm in want:
                        try:
                            a, b, c3 = getattr(o, nm), o.eGet(nm), o.eGet(fobj[nm])
                        except Exception as e:  # noqa
                            return fail('meta-attribute-access', f'{who} of K{c}: reading {nm!r} raised {type(e).__name__}')
                        if not (a is b and b is c3):
                            return fail('access-paths', f'{who} of K{c}: {nm!r} read through attribute syntax / eGet(name) / eGet(feature) differs')
                # ... and nothing else answers: a feature of the graph that no view of K{c} lists is no attribute of a new instance
                for nm in fobj:
                    if nm not in want:
                        for route, rd in (('attribute syntax', lambda: getattr(fresh, nm)), ('eGet(name)', lambda: fresh.eGet(nm))):
                            try:
                                rd()
                            except AttributeError:
                                continue
                            except Exception:  # noqa
                                pass
                            return fail('meta-undeclared-name-answers', f'no view of K{c} lists {nm!r} (own+inherited: {want}) but {route} '
                                                                        f'on a new instance of K{c} answers')

        def read_desc(x, f):
            v = getattr(objs[x], f['name'])
            return list(v) if f['many'] else ([] if v is None else [v])

        def kids_desc(x):
            return [(idx(v), f) for f in feats_of(ocls[x]) if f['containment'] for v in read_desc(x, f)]

        def below(kids, x, seen=None):
            seen = set() if seen is None else seen
            res = []
            for (c, _) in kids[x]:
                if c in seen or not isinstance(c, int):
                    continue
                seen.add(c)
                res.append(c)
                res += below(kids, c, seen)
            return res

        def check_inst():
            kids = {x: kids_desc(x) for x in range(len(objs))}
            parent = {c: (x, f) for x in kids for (c, f) in kids[x] if isinstance(c, int)}
            for x, o in enumerate(objs):
                st['object_views'] += 1
                want = sorted(str(c) for (c, _) in kids[x])
                # the same, following the instance's own list of features
                try:
                    own_view = []
                    for f in o.eClass.eAllStructuralFeatures():
                        if isinstance(f, E.EReference) and f.containment:
                            v = o.eGet(f)
                            own_view += [idx(y) for y in (v if f.many else ([] if v is None else [v]))]
                    got = [idx(v) for v in o.eContents]
                    allc = [idx(v) for v in o.eAllContents()]
                except Exception as e:  # noqa
                    return fail('view-raises', f'a view of obj{x} (K{ocls[x]}) raised {type(e).__name__}: {e}')
                if sorted(map(str, own_view)) != want:
                    return fail('containment-slots', f'obj{x} (K{ocls[x]}): containment references of eClass.eAllStructuralFeatures() hold '
                                                     f'{own_view}, those of the own+inherited declarations hold {want}')
                if sorted(map(str, got)) != want:
                    return fail('econtents', f'obj{x} (K{ocls[x]}).eContents = {got} but its containment references '
                                             f'({[f["name"] for f in feats_of(ocls[x]) if f["containment"]]}) hold {want}')
                desc = below(kids, x)
                if sorted(map(str, allc)) != sorted(map(str, desc)) or len(set(map(str, allc))) != len(allc):
                    return fail('eallcontents', f'obj{x} (K{ocls[x]}).eAllContents() = {allc} but the objects transitively held are {desc}')
                end, hops = o, 0
                while end.eContainer() is not None and hops < 100:
                    end, hops = end.eContainer(), hops + 1
                top, hops = x, 0
                while top in parent and hops < 100:
                    top, hops = parent[top][0], hops + 1
                if o.eRoot() is not end or end is not objs[top]:
                    return fail('eroot', f'obj{x}.eRoot() = obj{idx(o.eRoot())}, eContainer() chain ends at obj{idx(end)}, holders end at obj{top}')
                for (c, f) in kids[x]:
                    d = next(d for d in [ocls[x]] + closure(ocls[x]) if f in own[d])
                    if via_generic(ocls[x], d):
                        st['children_in_slot_inherited_through_generic'] += 1

        def put(h, f, x):
            o, v, nm = objs[h], objs[x], f['name']
            path = rng.choice(MANY_IN if f['many'] else ONE_IN)
            try:
                if f['many']:
                    coll = o.eGet(fobj[nm]) if path == 'eGet-feature.append' else o.eGet(nm) if path == 'eGet-name.append' else getattr(o, nm)
                    if path == 'insert0':
                        coll.insert(0, v)
                    elif path == 'extend':
                        coll.extend([v])
                    elif path == 'iadd':
                        coll += [v]
                    else:
                        coll.append(v)
                elif path == 'attr':
                    setattr(o, nm, v)
                else:
                    o.eSet(nm if path == 'eSet-name' else fobj[nm], v)
                return [path, None]
            except Exception as e:  # noqa
                st['raised'] += 1
                return [path, type(e).__name__]

        def inst_op():
            r = rng.random()
            holders = [(h, f) for h in range(len(objs)) for f in feats_of(ocls[h]) if f['containment']]
            if r < 0.25 or not holders:
                k = rng.randrange(ncls)
                objs.append(K[k]())
                ocls.append(k)
                hist.append(['new', k])
            elif r < 0.7:
                h, f = rng.choice(holders)
                ks = [k for k in range(ncls) if f['target'] == k or f['target'] in closure(k)]
                k = rng.choice(ks)
                objs.append(K[k]())
                ocls.append(k)
                hist.append(['new-child', h, f['name'], k] + put(h, f, len(objs) - 1))
            elif r < 0.88:
                x = rng.randrange(len(objs))
                kids = {y: kids_desc(y) for y in range(len(objs))}
                sub = set(below(kids, x)) | {x}
                cands = [(h, f) for (h, f) in holders if h not in sub and (f['target'] == ocls[x] or f['target'] in closure(ocls[x]))]
                if not cands:
                    return
                h, f = rng.choice(cands)
                hist.append(['move', x, h, f['name']] + put(h, f, x))
            else:
                held = [(h, f, c) for h in range(len(objs)) for (c, f) in kids_desc(h) if isinstance(c, int)]
                if not held:
                    return
                h, f, c = rng.choice(held)
                try:
                    if f['many']:
                        getattr(objs[h], f['name']).remove(objs[c])
                    else:
                        setattr(objs[h], f['name'], None)
                except Exception:  # noqa
                    st['raised'] += 1
                hist.append(['take-out', h, f['name'], c])
            st['inst_ops'] += 1

        # initial graph: links through either channel, a few features
        for i in range(ncls):
            for j in rng.sample(range(i + 1, ncls), min(ncls - i - 1, rng.choice([0, 1, 1, 2]))):
                ch = rng.choice(['plain', 'generic'])
                if acceptable(i, j, ch):
                    if ch == 'plain':
                        K[i].eSuperTypes.append(K[j])
                        sup[i].append(j)
                        hist.append(['add-super', i, j])
                    else:
                        g = E.EGenericType(eClassifier=K[j])
                        K[i].eGenericSuperTypes.append(g)
                        gen[i].append([j, g])
                        hist.append(['add-generic', i, j, 'classifier-set-before'])
        for c in range(ncls):
            for _ in range(rng.choice([0, 1, 1, 2])):
                add_feature(c)
        if not any(f['containment'] for c in own for f in own[c]):
            add_feature(ncls - 1)
        check_meta()
        for step in range(rng.randrange(3, 10)):
            if not state['ok']:
                break
            k = rng.choice(['add-super', 'add-generic', 'add-generic', 'remove-super', 'remove-generic', 'retarget-generic',
                            'add-feature', 'remove-feature', 'instances', 'instances', 'instances',
                            'add-redundant', 'add-redundant', 'remove-covering', 'remove-covering',
                            'retarget-generic', 'retarget-generic', 'rename-class'])
            c = rng.randrange(ncls)
            if k == 'rename-class':
                # a class takes the name of another class of the graph (an ancestor's, if it has one)
                d = rng.choice(closure(c) or [x for x in range(ncls) if x != c])
                K[c].name = K[d].name
                hist.append(['rename-class', c, 'like', d])
                st['renamed'] += 1
                st['edits'] += 1
                check_meta()
                if objs and state['ok']:
                    check_inst()
                continue
            if k == 'retarget-generic' and any(gen.values()):
                c = rng.choice([x for x in range(ncls) if gen[x]])
            fd = None                  # (a chosen target instead of a random one)
            if k == 'instances':
                for _ in range(rng.randrange(1, 5)):
                    inst_op()
                check_inst()
                continue
            if k == 'add-redundant':
                # a class that is ALREADY inherited through another super type becomes a direct one as well
                cands = [(c2, d2, ch) for c2 in range(ncls) for d2 in closure(c2) if d2 not in both(c2)
                         for ch in ('plain', 'plain', 'generic') if acceptable(c2, d2, ch)]
                if not cands:
                    continue
                c, fd, ch = rng.choice(cands)
                k = 'add-super' if ch == 'plain' else 'add-generic'
                st['redundant_added'] += 1
            elif k == 'remove-covering':
                # ... and the link that made a direct super type redundant goes away: b -> a while some class holds a
                # directly and reaches b
                cands = [(b, a) for b in range(ncls) for a in both(b)
                         if any(a in both(c2) and b in closure(c2) for c2 in range(ncls))]
                if not cands:
                    continue
                c, fd = rng.choice(cands)
                k = 'remove-super' if fd in sup[c] else 'remove-generic'
                st['covering_link_removed'] += 1
            if k == 'add-super':
                d = rng.randrange(ncls) if fd is None else fd
                if not acceptable(c, d, 'plain'):
                    continue
                K[c].eSuperTypes.append(K[d])
                sup[c].append(d)
                hist.append(['add-super', c, d])
            elif k == 'add-generic':
                d = rng.randrange(ncls) if fd is None else fd
                if not acceptable(c, d, 'generic'):
                    continue
                mode = rng.choice(['classifier-set-before', 'classifier-set-after', 'classifier-set-after', 'no-classifier']
                                  if fd is None else ['classifier-set-before', 'classifier-set-after'])
                if mode == 'classifier-set-before':
                    g = E.EGenericType(eClassifier=K[d])
                    K[c].eGenericSuperTypes.append(g)
                elif mode == 'no-classifier':
                    g, d = E.EGenericType(), None
                    K[c].eGenericSuperTypes.append(g)
                else:
                    g = E.EGenericType()
                    K[c].eGenericSuperTypes.append(g)
                    g.eClassifier = K[d]
                gen[c].append([d, g])
                st['generic_edits'] += 1
                hist.append(['add-generic', c, d, mode])
            elif k == 'remove-super':
                if not sup[c]:
                    continue
                d = rng.choice(sup[c]) if fd is None else fd
                before = {x: sorted(closure(x)) for x in set(ocls)}
                sup[c].remove(d)
                if any(sorted(closure(x)) != before[x] for x in before):
                    reset()            # (instances whose class inherits the same as before stay and are checked)
                K[c].eSuperTypes.remove(K[d])
                hist.append(['remove-super', c, d])
            elif k == 'remove-generic':
                if not gen[c]:
                    continue
                i = rng.randrange(len(gen[c])) if fd is None else [t for (t, _) in gen[c]].index(fd)
                how = rng.choice(['remove', 'pop'])
                before = {x: sorted(closure(x)) for x in set(ocls)}
                gone = gen[c].pop(i)
                if any(sorted(closure(x)) != before[x] for x in before):
                    reset()
                hist.append(['remove-generic', c, gone[0], how])
                try:
                    if how == 'remove':
                        K[c].eGenericSuperTypes.remove(gone[1])
                    else:
                        K[c].eGenericSuperTypes.pop(i)
                except Exception as e:  # noqa
                    fail('meta-edit-raises', f'K{c}.eGenericSuperTypes.{how}(...) raised {type(e).__name__}: {e}')
                    break
                st['generic_edits'] += 1
            elif k == 'retarget-generic':
                if not gen[c]:
                    continue
                i = rng.randrange(len(gen[c]))
                old = gen[c][i]
                d = None if (old[0] is not None and rng.random() < 0.45) else rng.randrange(ncls)   # None: the classifier is unset
                if d is not None:
                    was = old[0]
                    old[0] = None
                    ok = d != c and d not in both(c) and c not in closure(d)
                    old[0] = d
                    trial = {k2: both(k2) for k2 in range(ncls)}
                    old[0] = was
                    ok = ok and d != was and _plain_mro(trial, ncls) is not None
                    if not ok:
                        continue
                before = {x: sorted(closure(x)) for x in set(ocls)}
                was, old[0] = old[0], d
                if any(sorted(closure(x)) != before[x] for x in before):
                    reset()
                hist.append(['retarget-generic', c, was, d])
                try:
                    old[1].eClassifier = None if d is None else K[d]
                except Exception as e:  # noqa
                    fail('meta-edit-raises', f'eClassifier = {d} on a generic super type of K{c} raised {type(e).__name__}: {e}')
                    break
                st['generic_edits'] += 1
                st['classifier_unset' if d is None else 'classifier_set_after_unset' if was is None else 'classifier_repointed'] += 1
            elif k == 'add-feature':
                add_feature(c)
            else:
                if not own[c]:
                    continue
                reset()
                f = rng.choice(own[c])
                K[c].eStructuralFeatures.remove(fobj.pop(f['name']))
                own[c].remove(f)
                hist.append(['remove-feature', c, f['name']])
            st['edits'] += 1
            check_meta()
            if objs:                 # (also when a class view just failed: what do the instances say?)
                check_inst()
        st['graphs'] += 1
        if sample is None and state['ok'] and len(hist) > 8:
            sample = {'scenario': 'generic', 'history': [list(h) for h in hist]}
    out.coverage['generic_graphs'] = st['graphs']
    out.coverage['generic_edits'] = st['edits']
    out.coverage['generic_edits_of_eGenericSuperTypes'] = st['generic_edits']
    out.coverage['generic_class_views_checked'] = st['class_views']
    out.coverage['generic_class_views_plain_chain_reaching_a_generic_edge'] = st['mixed_chain_views']
    out.coverage['generic_isinstance_and_dir_checks'] = st['isinstance_checks']
    out.coverage['generic_instance_operations'] = st['inst_ops']
    out.coverage['generic_object_views_checked'] = st['object_views']
    out.coverage['generic_children_in_slot_inherited_through_generic_edge'] = st['children_in_slot_inherited_through_generic']
    out.coverage['generic_stores_refused'] = st['raised']
    out.coverage['generic_classifier_of_a_generic_super_type_unset'] = st['classifier_unset']
    out.coverage['generic_classifier_set_again_after_unset'] = st['classifier_set_after_unset']
    out.coverage['generic_classifier_repointed'] = st['classifier_repointed']
    out.coverage['generic_classes_renamed_like_another_class'] = st['renamed']
    out.coverage['generic_class_views_with_two_classes_of_one_name_in_the_closure'] = st['same_name_views']
    out.coverage['generic_redundant_super_types_added'] = st['redundant_added']
    out.coverage['generic_links_removed_that_made_a_direct_super_type_redundant'] = st['covering_link_removed']
    out.coverage['generic_class_views_with_a_redundant_direct_super_type'] = st['views_with_redundant_super']
    out.coverage['generic_sample'] = sample


# ---------------- 6. attributes holding a mutable container made per instance ----------------
CONTAINER_TYPES = ['EStringToStringMapEntry', 'EFeatureMapEntry', 'JavaList', 'JavaMap', 'FactoryList', 'FactorySet',
                   'FactoryDict', 'PointList', 'EString']


def _container_type(E, tn):
    """(data type, extra arguments of EAttribute, python kind)"""
    if tn == 'EStringToStringMapEntry':
        return E.EStringToStringMapEntry, {}, 'dict'
    if tn == 'EFeatureMapEntry':
        return E.EFeatureMapEntry, {}, 'dict'
    if tn == 'JavaList':
        return E.EDataType('JavaList', instanceClassName='java.util.List'), {}, 'list'
    if tn == 'JavaMap':
        return E.EDataType('JavaMap', instanceClassName='java.util.Map'), {}, 'dict'
    if tn == 'FactoryList':
        return E.EDataType('FactoryList', list, type_as_factory=True), {}, 'list'
    if tn == 'FactorySet':
        return E.EDataType('FactorySet', set, type_as_factory=True), {}, 'set'
    if tn == 'FactoryDict':
        return E.EDataType('FactoryDict', dict, type_as_factory=True), {}, 'dict'
    if tn == 'PointList':
        return (E.EDataType('PointList', eType=list, from_string=lambda s: [int(x) for x in s.split(',')],
                            to_string=lambda v: ','.join(str(x) for x in v)), {'defaultValueLiteral': '4,2'}, 'list')
    return E.EString, {}, 'str'


def container_scenarios(ctx, out):
    """see the module docstring, part 6"""
    from harness import common
    common.use_repo()
    from pyecore import ecore as E
    rng = common.rng_for(ctx.seed, 'C19:containers')
    n = 600 if ctx.tier != 'thorough' else 8000
    st = {'cases': 0, 'ops': 0, 'slot_checks': 0, 'never_written_container_checks': 0, 'mutations_in_place': 0,
          'attributes_added_at_run_time': 0, 'instances_created_after_an_edit': 0}
    sample = None
    for it in range(n):
        channel = rng.choice(['plain', 'plain', 'generic', 'none'])
        Base = E.EClass('Base')
        A = E.EClass('A')
        if channel == 'plain':
            A.eSuperTypes.append(Base)
        elif channel == 'generic':
            A.eGenericSuperTypes.append(E.EGenericType(eClassifier=Base))
        classes = {'Base': Base, 'A': A}
        inherits = {'Base': ['Base'], 'A': ['A'] + (['Base'] if channel != 'none' else [])}
        feats = []                     # dicts name type kind owner ; objects in fobj
        fobj = {}
        hist = [['case', it, channel]]
        objs, ocls = [], []
        written = set()                # (object, feature name) assigned or deleted at least once
        tok = [0]
        state = {'ok': True}

        def add_attr(owner):
            tn = rng.choice(CONTAINER_TYPES)
            dt, kw, kind = _container_type(E, tn)
            f = {'name': f'c{len(feats)}', 'type': tn, 'kind': kind, 'owner': owner}
            o = E.EAttribute(f['name'], dt, **kw)
            classes[owner].eStructuralFeatures.append(o)
            feats.append(f)
            fobj[f['name']] = o
            hist.append(['add-attribute', owner, f['name'], tn])

        def new(cn):
            objs.append(classes[cn]())
            ocls.append(cn)
            hist.append(['new', cn])

        def read(o, f, path):
            nm = f['name']
            return getattr(o, nm) if path == 'attr' else o.eGet(nm) if path == 'eGet-name' else o.eGet(fobj[nm])

        def slots():
            return [(x, f) for x in range(len(objs)) for f in feats if f['owner'] in inherits[ocls[x]]]

        def fail(kind, what):
            case = {'scenario': 'containers', 'seed': ctx.seed, 'tier': ctx.tier, 'history': [list(h) for h in hist]}
            out.fail({'property': 'C19', 'clause': 'access-paths', 'scenario': 'containers', 'kind': kind},
                     what + f' after {hist[-1]}', case)
            state['ok'] = False

        def check(expect=None):
            """every slot of every instance: three read paths, twice, in a random order"""
            for (x, f) in slots():
                o = objs[x]
                st['slot_checks'] += 1
                if (x, f['name']) not in written and f['kind'] != 'str':
                    st['never_written_container_checks'] += 1
                order = READS[:]
                rng.shuffle(order)
                try:
                    first = {p: read(o, f, p) for p in order}
                    second = {p: read(o, f, p) for p in reversed(order)}
                except Exception as e:  # noqa
                    return fail('raised', f'reading obj{x}.{f["name"]} ({f["type"]}) raised {type(e).__name__}: {e}')
                if f['kind'] == 'str':
                    if len({repr(v) for v in list(first.values()) + list(second.values())}) != 1:
                        return fail('value', f'obj{x}.{f["name"]}: the read paths give {first}')
                    continue
                ref = first[order[0]]
                for p in order:
                    if first[p] is not ref:
                        return fail('identity', f'obj{x}.{f["name"]} ({f["type"]}): {order[0]} gives {ref!r} and {p} gives '
                                                f'{"an equal but" if first[p] == ref else ""} another object {first[p]!r}')
                    if second[p] is not first[p]:
                        return fail('stability', f'obj{x}.{f["name"]} ({f["type"]}): two reads in a row through {p} give two objects '
                                                 f'({first[p]!r}, {second[p]!r})')
                if expect and expect[0] == (x, f['name']) and not all(expect[1] in first[p] for p in order):
                    return fail('mutation-lost', f'obj{x}.{f["name"]} ({f["type"]}): {expect[1]!r} was put in place through {expect[2]} '
                                                 f'but the paths read { {p: first[p] for p in order} }')

        for _ in range(rng.randrange(1, 4)):
            add_attr(rng.choice(inherits['A']))
        new('A')
        if rng.random() < 0.4:
            new(rng.choice(['A', 'Base']))
        if rng.random() < 0.7:
            check()
        edited = False
        for step in range(rng.randrange(3, 11)):
            if not state['ok']:
                break
            r = rng.random()
            cands = [(x, f) for (x, f) in slots() if f['kind'] != 'str']
            expect = None
            if r < 0.4 and cands:
                x, f = rng.choice(cands)
                p = rng.choice(READS)
                tok[0] += 1
                t = tok[0] + 100
                hist.append(['mutate-in-place', x, f['name'], p, t])
                try:
                    c = read(objs[x], f, p)
                    if f['kind'] == 'dict':
                        t = f'k{t}'
                        c[t] = 'v'
                    elif f['kind'] == 'list':
                        c.append(t)
                    else:
                        c.add(t)
                except Exception as e:  # noqa
                    fail('raised', f'in-place change of obj{x}.{f["name"]} through {p} raised {type(e).__name__}: {e}')
                    break
                expect = ((x, f['name']), t, p)
                st['mutations_in_place'] += 1
            elif r < 0.55 and cands:
                x, f = rng.choice(cands)
                p = rng.choice(ONE_IN)
                tok[0] += 1
                t = tok[0] + 100
                v = {f'k{t}': 'w'} if f['kind'] == 'dict' else [t] if f['kind'] == 'list' else {t}
                t = f'k{t}' if f['kind'] == 'dict' else t
                hist.append(['assign', x, f['name'], p, repr(v)])
                try:
                    if p == 'attr':
                        setattr(objs[x], f['name'], v)
                    else:
                        objs[x].eSet(f['name'] if p == 'eSet-name' else fobj[f['name']], v)
                except Exception as e:  # noqa
                    fail('raised', f'assigning {v!r} to obj{x}.{f["name"]} ({f["type"]}) through {p} raised {type(e).__name__}: {e}')
                    break
                written.add((x, f['name']))
                expect = ((x, f['name']), t, p)
            elif r < 0.67 and cands:
                x, f = rng.choice(cands)
                hist.append(['del', x, f['name']])
                try:
                    delattr(objs[x], f['name'])
                except Exception as e:  # noqa
                    fail('raised', f'del obj{x}.{f["name"]} raised {type(e).__name__}: {e}')
                    break
                written.add((x, f['name']))
            elif r < 0.8:
                add_attr(rng.choice(inherits['A']))
                st['attributes_added_at_run_time'] += 1
                edited = True
            elif r < 0.9:
                new(rng.choice(['A', 'A', 'Base']))
                st['instances_created_after_an_edit'] += edited
            else:
                hist.append(['read'])
            st['ops'] += 1
            check(expect)
        st['cases'] += 1
        if sample is None and state['ok'] and len(hist) > 6:
            sample = {'scenario': 'containers', 'history': [list(h) for h in hist]}
    out.coverage['container_cases'] = st['cases']
    out.coverage['container_operations'] = st['ops']
    out.coverage['container_slot_checks_three_paths_twice'] = st['slot_checks']
    out.coverage['container_checks_on_never_assigned_container_slots'] = st['never_written_container_checks']
    out.coverage['container_mutations_in_place'] = st['mutations_in_place']
    out.coverage['container_attributes_added_at_run_time'] = st['attributes_added_at_run_time']
    out.coverage['container_instances_created_after_an_edit'] = st['instances_created_after_an_edit']
    out.coverage['container_sample'] = sample


# ---------------- 7. one assignment through the three write routes, on equal objects ----------------
ROUTES = ['attr', 'eSet-name', 'eSet-feature']
MANY_VALUES = ['fresh-list', 'tuple', 'generator', 'reversed-own', 'filter-own', 'own-collection', 'own-collection-by-feature',
               'other-collection', 'list-of-own', 'list-with-duplicate', 'list-with-bad-element', 'bad-element-first', 'empty-list',
               'iterator-of-fresh', 'not-iterable']
ONE_VALUES = ['conforming', 'conforming', 'same-again', 'none', 'non-conforming', 'held-elsewhere']


def assign_scenarios(ctx, out):
    """see the module docstring, part 7"""
    from harness import common
    common.use_repo()
    from pyecore import ecore as E
    from pyecore.notification import EObserver
    rng = common.rng_for(ctx.seed, 'C19:assign')
    n = 700 if ctx.tier != 'thorough' else 12000
    st = {'cases': 0, 'assignments': 0, 'refused': 0, 'by_value': {}, 'shapes': set(), 'notifications_compared': 0}
    sample = None

    class World:
        """holders h0 h1 (class H), elements e0.. (class Item, or strings), everything observed"""
        def __init__(self, spec):
            self.spec = spec
            Item = E.EClass('Item')
            Other = E.EClass('Other')
            H = E.EClass('H')
            many = spec['many']
            if spec['attr']:
                f = E.EAttribute('f', E.EString, upper=-1 if many else 1, unique=spec['unique'])
            else:
                f = E.EReference('f', Item, upper=-1 if many else 1, unique=spec['unique'], containment=spec['containment'])
                if spec['opposite']:
                    back = E.EReference('back', H, upper=-1 if spec['opposite'] == 'many' else 1, eOpposite=f)
                    Item.eStructuralFeatures.append(back)
            H.eStructuralFeatures.append(f)
            self.f, self.Item, self.Other = f, Item, Other
            self.h = [H(), H()]
            self.e = [f's{i}' for i in range(7)] if spec['attr'] else [Item() for _ in range(7)]
            self.bad = 7 if spec['attr'] else Other()
            self.log = []
            for o in self.h + ([] if spec['attr'] else self.e + [self.bad]):
                EObserver(o, notifyChanged=self._note)
            if many:
                self.h[0].f.extend(self.e[0:3])
                self.h[1].f.extend(self.e[3:5])
            else:
                self.h[0].f = self.e[0]
                self.h[1].f = self.e[3]
            del self.log[:]

        def name(self, v):
            if isinstance(v, (list, tuple)) or hasattr(v, '__iter__') and not isinstance(v, str):
                return [self.name(x) for x in v]
            for i, o in enumerate(self.h):
                if v is o:
                    return f'h{i}'
            if not self.spec['attr']:
                for i, o in enumerate(self.e):
                    if v is o:
                        return f'e{i}'
            if v is self.bad:
                return 'bad'
            return None if v is None else v if isinstance(v, (str, int, bool)) else type(v).__name__

        def _note(self, nt):
            self.log.append([nt.kind.name, getattr(nt.feature, 'name', None), self.name(nt.notifier), self.name(nt.new), self.name(nt.old)])

        def value(self, kind, par):
            h, e, f = self.h[0], self.e, self.f
            if kind == 'fresh-list':
                return [e[i] for i in par]
            if kind == 'tuple':
                return tuple(e[i] for i in par)
            if kind == 'generator':
                return (e[i] for i in par)
            if kind == 'iterator-of-fresh':
                return iter([e[i] for i in par])
            if kind == 'reversed-own':
                return reversed(h.eGet('f'))
            if kind == 'filter-own':
                return (x for k, x in enumerate(h.eGet('f')) if k % 2 == par[0] % 2)
            if kind == 'own-collection':
                return h.f
            if kind == 'own-collection-by-feature':
                return h.eGet(f)
            if kind == 'list-of-own':
                return list(h.f) + [e[par[0]]]
            if kind == 'other-collection':
                return self.h[1].eGet(f)
            if kind == 'list-with-duplicate':
                return [e[par[0]], e[par[1]], e[par[0]]]
            if kind == 'list-with-bad-element':
                return [e[par[0]], self.bad, e[par[1]]]
            if kind == 'bad-element-first':
                return [self.bad, e[par[0]]]
            if kind == 'empty-list':
                return []
            if kind == 'not-iterable':
                return e[par[0]] if not self.spec['attr'] else 5
            # single-valued
            if kind == 'conforming':
                return e[par[0]]
            if kind == 'same-again':
                return h.f
            if kind == 'none':
                return None
            if kind == 'non-conforming':
                return self.bad
            if kind == 'held-elsewhere':
                return self.h[1].f
            raise AssertionError(kind)

        def assign(self, route, kind, par):
            v = self.value(kind, par)
            try:
                if route == 'attr':
                    setattr(self.h[0], 'f', v)
                elif route == 'eSet-name':
                    self.h[0].eSet('f', v)
                else:
                    self.h[0].eSet(self.f, v)
                return 'ok'
            except Exception as e:  # noqa
                return type(e).__name__

        def observe(self):
            d = {'content': {}, 'isset': {}, 'links': {}}
            for i, h in enumerate(self.h):
                v = h.f
                d['content'][f'h{i}'] = self.name(list(v)) if self.spec['many'] else self.name(v)
                d['isset'][f'h{i}'] = [bool(h.eIsSet('f')), bool(h.eIsSet(self.f))]
                d['links'][f'h{i}.eContents'] = sorted(map(str, self.name(list(h.eContents))))
            if not self.spec['attr']:
                for i, x in enumerate(self.e + [self.bad]):
                    nm = f'e{i}' if i < len(self.e) else 'bad'
                    d['links'][nm + '.eContainer'] = self.name(x.eContainer())
                    if self.spec['opposite'] and x is not self.bad:
                        b = x.back
                        d['links'][nm + '.back'] = self.name(list(b)) if self.spec['opposite'] == 'many' else self.name(b)
            d['notifications'] = [list(x) for x in self.log]
            del self.log[:]
            return d

    for it in range(n):
        attr = rng.random() < 0.3
        spec = {'attr': attr, 'many': rng.random() < 0.75, 'unique': rng.random() < 0.65,
                'containment': (not attr) and rng.random() < 0.45, 'opposite': None}
        if not attr and rng.random() < 0.45:
            spec['opposite'] = 'one' if spec['containment'] else rng.choice(['one', 'many'])
            spec['unique'] = True
        if not spec['many']:
            spec['unique'] = True
        st['shapes'].add(json_key(spec))
        worlds = {r: World(spec) for r in ROUTES}
        hist = [['case', it, dict(spec)]]
        for step in range(rng.randrange(1, 5)):
            kind = rng.choice(MANY_VALUES if spec['many'] else ONE_VALUES)
            par = [rng.randrange(7) for _ in range(rng.randrange(1, 5))] + [rng.randrange(7)]
            hist.append(['assign', kind, par])
            res = {}
            for r in ROUTES:
                before = worlds[r].observe()
                outcome = worlds[r].assign(r, kind, par)
                res[r] = dict(worlds[r].observe(), outcome=outcome, before=before)
            st['assignments'] += 1
            st['by_value'][kind] = st['by_value'].get(kind, 0) + 1
            st['notifications_compared'] += len(res['attr']['notifications'])
            case = {'scenario': 'assign', 'seed': ctx.seed, 'tier': ctx.tier, 'history': [list(h) for h in hist]}
            bad = None
            for key in ('outcome', 'content', 'isset', 'links', 'notifications'):
                vals = {r: res[r][key] for r in ROUTES}
                if not (vals['attr'] == vals['eSet-name'] == vals['eSet-feature']):
                    odd = next(r for r in ROUTES if [vals[q] == vals[r] for q in ROUTES].count(True) == 1) \
                        if len({json_key(v) for v in vals.values()}) == 2 else 'all three'
                    out.fail({'property': 'C19', 'clause': 'write-routes', 'scenario': 'assign', 'differs': key, 'many': spec['many']},
                             f'the same assignment ({kind} {par}) on equal objects ({spec}): {key} differs between the routes '
                             f'(odd one out: {odd}): ' + '; '.join(f'{r}: {vals[r]}' for r in ROUTES)
                             + f' [content before: {res["attr"]["before"]["content"]}]', case)
                    bad = key
                    break
            if bad:
                break
            if res['attr']['outcome'] != 'ok':
                st['refused'] += 1
                ch = [k for k in ('content', 'isset', 'links') if res['attr'][k] != res['attr']['before'][k]]
                if ch or res['attr']['notifications']:
                    out.fail({'property': 'C19', 'clause': 'refused-assignment-changes', 'scenario': 'assign', 'many': spec['many']},
                             f'the assignment ({kind} {par}, {spec}) raised {res["attr"]["outcome"]} on every route but changed {ch} '
                             f'(notifications {res["attr"]["notifications"]}): before {res["attr"]["before"]["content"]}, '
                             f'after {res["attr"]["content"]}', case)
                    break
        st['cases'] += 1
        if sample is None and len(hist) > 3:
            sample = {'scenario': 'assign', 'history': [list(h) for h in hist]}
    out.coverage['assign_cases'] = st['cases']
    out.coverage['assign_assignments_through_three_routes'] = st['assignments']
    out.coverage['assign_refused_on_all_routes'] = st['refused']
    out.coverage['assign_by_value_kind'] = st['by_value']
    out.coverage['assign_feature_shapes'] = len(st['shapes'])
    out.coverage['assign_notifications_compared'] = st['notifications_compared']
    out.coverage['assign_sample'] = sample


def json_key(v):
    import json
    return json.dumps(v, sort_keys=True, default=str)


# ---------------- 8. class edits watched by ordinary observers ----------------
class _Veto(Exception):
    pass


def observed_edit_scenarios(ctx, out):
    """see the module docstring, part 8"""
    from harness import common
    common.use_repo()
    from pyecore import ecore as E
    from pyecore.notification import EObserver
    rng = common.rng_for(ctx.seed, 'C19:observed')
    n = 300 if ctx.tier != 'thorough' else 5000
    st = {'cases': 0, 'edits': 0, 'oracle_inside_notifyChanged': 0, 'oracle_after_observer_raised': 0, 'oracle_after_edit': 0,
          'feature_accesses': 0, 'isinstance_checks': 0, 'notifications_seen': 0}
    sample = None
    for it in range(n):
        ncls = rng.randrange(2, 6)
        mode = rng.choice(['looks', 'looks', 'raises', 'raises', 'both'])
        K = [E.EClass(f'K{i}') for i in range(ncls)]
        sup = {i: [] for i in range(ncls)}
        own = {i: [] for i in range(ncls)}         # dicts name kind target
        fobj = {}
        nextf = [0]
        hist = [['case', it, ncls, mode]]
        state = {'ok': True, 'inside': False}
        problems = []

        def closure(c):
            return _closure(sup, c)

        def mk_feature():
            fid = nextf[0]
            nextf[0] += 1
            kind = rng.choice(['str', 'int', 'strs', 'ref'])
            f = {'name': f'{kind[0]}{fid}', 'kind': kind, 'target': rng.randrange(ncls)}
            fobj[f['name']] = (E.EAttribute(f['name'], E.EString) if kind == 'str' else E.EAttribute(f['name'], E.EInt) if kind == 'int'
                               else E.EAttribute(f['name'], E.EString, upper=-1) if kind == 'strs' else E.EReference(f['name'], K[f['target']]))
            return f

        old = {}                                    # class -> instance created before the edits

        def oracle(when):
            """the views of every class agree with the description AND with what instances (old, fresh) can do"""
            st['oracle_' + when] += 1
            for c in range(ncls):
                ec = K[c]
                anc = closure(c)
                want = sorted(f['name'] for d in [c] + anc for f in own[d])
                allf = list(ec.eAllStructuralFeatures())
                names = sorted(getattr(x, 'name', repr(x)) for x in allf)
                sups = sorted(K.index(x) if x in K else -1 for x in ec.eAllSuperTypes())
                if names != want:
                    return problems.append(('views', when, f'K{c}.eAllStructuralFeatures() = {names}, own+inherited declarations {want}'))
                if sups != sorted(anc):
                    return problems.append(('views', when, f'K{c}.eAllSuperTypes() = {sups}, inherits from {sorted(anc)}'))
                for who, o in (('the instance created before the edits', old[c]), ('a new instance', ec())):
                    for d in range(ncls):
                        st['isinstance_checks'] += 1
                        if d != c and (isinstance(o, K[d]) != (d in anc) or isinstance(o, K[d].python_class) != (d in anc)):
                            return problems.append(('isinstance', when, f'K{d} {"is" if d in anc else "is not"} in K{c}.eAllSuperTypes() but '
                                                                        f'isinstance({who} of K{c}, K{d}) = {isinstance(o, K[d])}'))
                    for x in allf:
                        nm = x.name
                        f = next(f for d in [c] + anc for f in own[d] if f['name'] == nm)
                        st['feature_accesses'] += 1
                        if ec.findEStructuralFeature(nm) is not x:
                            return problems.append(('find', when, f'K{c}.findEStructuralFeature({nm!r}) is not the feature of eAllStructuralFeatures()'))
                        try:
                            r = [getattr(o, nm), o.eGet(nm), o.eGet(x)]
                            if f['kind'] == 'strs':
                                r[rng.randrange(3)].append('w')
                                v, got = None, [list(getattr(o, nm))[-1:], list(o.eGet(nm))[-1:], list(o.eGet(x))[-1:]]
                                same = got == [['w']] * 3
                            else:
                                v = 'v' if f['kind'] == 'str' else 3 if f['kind'] == 'int' else K[f['target']]()
                                route = rng.choice(ONE_IN)
                                if route == 'attr':
                                    setattr(o, nm, v)
                                else:
                                    o.eSet(nm if route == 'eSet-name' else x, v)
                                got = [getattr(o, nm), o.eGet(nm), o.eGet(x)]
                                same = all(g is v or (f['kind'] != 'ref' and g == v) for g in got)
                            if not same:
                                return problems.append(('access-paths', when, f'{who} of K{c}: wrote {v!r} to {nm!r}, the three read paths give {got}'))
                        except Exception as e:  # noqa
                            return problems.append(('attribute-access', when, f'K{c} describes feature {nm!r} (eAllStructuralFeatures, findEStructuralFeature) '
                                                                              f'but {who} cannot use it: {type(e).__name__}: {e}'))

        def looks(nt):
            st['notifications_seen'] += 1
            if nt.feature in (E.EClass.eStructuralFeatures, E.EClass.eSuperTypes) and not state['inside']:
                state['inside'] = True           # (the oracle itself creates instances; no nested evaluation)
                try:
                    oracle('inside_notifyChanged')
                finally:
                    state['inside'] = False

        def vetoes(nt):
            st['notifications_seen'] += 1
            if nt.feature in (E.EClass.eStructuralFeatures, E.EClass.eSuperTypes) and state.get('veto'):
                raise _Veto(nt.kind.name)

        def edit(label, describe, call):
            """the description changes first (observers are told when the edit is already stored), then the call"""
            hist.append(label)
            describe()
            state['veto'] = mode != 'looks' and rng.random() < 0.6
            raised = None
            try:
                call()
            except _Veto:
                raised = 'veto'
            hist[-1] = label + [raised]
            st['edits'] += 1
            oracle('after_observer_raised' if raised else 'after_edit')
            if problems:
                kind, when, what = problems[0]
                case = {'scenario': 'observed', 'seed': ctx.seed, 'tier': ctx.tier, 'history': [list(h) for h in hist]}
                out.fail({'property': 'C19', 'clause': 'views-vs-instances-under-observer', 'scenario': 'observed', 'what': kind,
                          'when': when.replace('_', '-')},
                         f'{when.replace("_", " ")}: {what} (super types {sup}, observers {mode}) at {hist[-1]}', case)
                state['ok'] = False

        # initial graph, built before any observer is attached
        for i in range(ncls):
            for j in rng.sample(range(i + 1, ncls), min(ncls - i - 1, rng.choice([0, 1, 1]))):
                K[i].eSuperTypes.append(K[j])
                sup[i].append(j)
        for c in range(ncls):
            for _ in range(rng.choice([0, 1])):
                f = mk_feature()
                K[c].eStructuralFeatures.append(fobj[f['name']])
                own[c].append(f)
        hist.append(['initial', {str(k): v for k, v in sup.items()}, {str(k): [f['name'] for f in v] for k, v in own.items()}])
        for c in range(ncls):
            old[c] = K[c]()
            obs = ([looks] if mode == 'looks' else [vetoes] if mode == 'raises' else rng.sample([looks, vetoes], 2))
            for fn in obs:
                EObserver(K[c], notifyChanged=fn)
        for step in range(rng.randrange(2, 7)):
            if not state['ok']:
                break
            k = rng.choice(['add-feature', 'add-feature', 'add-features', 'add-super', 'add-super', 'remove-super', 'remove-feature'])
            c = rng.randrange(ncls)
            if k == 'add-feature':
                f = mk_feature()
                how = rng.choice(['append', 'insert0'])
                edit([k, c, f['name'], how], lambda: own[c].append(f),
                     (lambda: K[c].eStructuralFeatures.append(fobj[f['name']])) if how == 'append'
                     else (lambda: K[c].eStructuralFeatures.insert(0, fobj[f['name']])))
            elif k == 'add-features':
                fs = [mk_feature(), mk_feature()]
                edit([k, c, [f['name'] for f in fs]], lambda: own[c].extend(fs),
                     lambda: K[c].eStructuralFeatures.extend([fobj[f['name']] for f in fs]))
            elif k == 'add-super':
                d = rng.randrange(ncls)
                if d == c or d in sup[c] or c in closure(d):
                    continue
                trial = {x: list(v) for x, v in sup.items()}
                trial[c].append(d)
                if _plain_mro(trial, ncls) is None:
                    continue
                edit([k, c, d], lambda: sup[c].append(d), lambda: K[c].eSuperTypes.append(K[d]))
            elif k == 'remove-super':
                if not sup[c]:
                    continue
                d = rng.choice(sup[c])
                edit([k, c, d], lambda: sup[c].remove(d), lambda: K[c].eSuperTypes.remove(K[d]))
            else:
                if not own[c]:
                    continue
                f = rng.choice(own[c])
                edit([k, c, f['name']], lambda: own[c].remove(f), lambda: K[c].eStructuralFeatures.remove(fobj[f['name']]))
        st['cases'] += 1
        if sample is None and state['ok'] and len(hist) > 4:
            sample = {'scenario': 'observed', 'history': [list(h) for h in hist]}
    out.coverage['observed_cases'] = st['cases']
    out.coverage['observed_edits'] = st['edits']
    out.coverage['observed_notifications_seen_by_user_observers'] = st['notifications_seen']
    out.coverage['observed_oracle_runs_inside_notifyChanged'] = st['oracle_inside_notifyChanged']
    out.coverage['observed_oracle_runs_after_an_observer_raised'] = st['oracle_after_observer_raised']
    out.coverage['observed_oracle_runs_after_a_quiet_edit'] = st['oracle_after_edit']
    out.coverage['observed_feature_accesses_on_instances'] = st['feature_accesses']
    out.coverage['observed_isinstance_checks'] = st['isinstance_checks']
    out.coverage['observed_sample'] = sample


# ---------------- 9. static classes whose instances compare by value / are falsy ----------------
def _folder_class(E, by_value, falsy):
    class Folder(object):
        name = E.EAttribute(eType=E.EString)
        subfolders = E.EReference(upper=-1, containment=True)
        extra = E.EReference(upper=-1, containment=True)
        main = E.EReference(containment=True)

        def __init__(self, name=None):
            self.name = name

        def __repr__(self):
            return f'Folder({self.name})'
    if by_value:
        Folder.__eq__ = lambda s, o: type(o) is type(s) and s.name == o.name
        Folder.__hash__ = lambda s: hash(s.name)
    if falsy == 'len':
        Folder.__len__ = lambda s: len(s.subfolders)
    elif falsy == 'bool':
        Folder.__bool__ = lambda s: False
    F = E.EMetaclass(Folder)
    for r in (F.subfolders, F.extra, F.main):
        r.eType = F
    return F


def value_equal_scenarios(ctx, out):
    """see the module docstring, part 9"""
    from harness import common
    common.use_repo()
    from pyecore import ecore as E
    from pyecore.resources import ResourceSet, URI
    rng = common.rng_for(ctx.seed, 'C19:valueeq')
    n = 200 if ctx.tier != 'thorough' else 4000
    variants = [('value', True, None), ('value+len', True, 'len'), ('len', False, 'len'), ('bool', False, 'bool'), ('value+bool', True, 'bool')]
    classes = {v[0]: _folder_class(E, v[1], v[2]) for v in variants}
    st = {'cases': 0, 'ops': 0, 'views': 0, 'equal_to_an_ancestor': 0, 'equal_in_other_branch': 0, 'falsy_views': 0,
          'primary_state_ambiguous': 0, 'raised': 0, 'skipped_move_between_equal_parents': 0,
          'skipped_move_equal_to_a_root_of_its_resource': 0}
    sample = None
    MANY = ['subfolders', 'extra']
    for it in range(n):
        vname = rng.choice([v[0] for v in variants])
        F = classes[vname]
        by_value = vname.startswith('value')
        rset = ResourceSet()
        res = [rset.create_resource(URI(f'mem{it}_{i}')) for i in range(2)]
        objs = []
        hist = [['case', it, vname]]
        ok = True

        def idx(o):
            for i, p in enumerate(objs):
                if p is o:
                    return i
            return repr(o)

        def new():
            objs.append(F(rng.choice('abc')))
            return len(objs) - 1

        def slots(x):
            """children of objs[x] by slot, read from the primary values"""
            o = objs[x]
            d = {f: list(o.eGet(f)) for f in MANY}
            d['main'] = [] if o.main is None else [o.main]
            return d

        def tree():
            kids = {x: [(idx(v), f) for f, vs in slots(x).items() for v in vs] for x in range(len(objs))}
            parent = {}
            for x in kids:
                for (c, f) in kids[x]:
                    if not isinstance(c, int) or c in parent:
                        return None, None
                    parent[c] = (x, f)
            return kids, parent

        def below(kids, x, seen=None):
            seen = {x} if seen is None else seen
            r = []
            for (c, _) in kids[x]:
                if c not in seen:
                    seen.add(c)
                    r.append(c)
                    r += below(kids, c, seen)
            return r

        def names(vs):
            return [v.name for v in vs]

        def check():
            kids, parent = tree()
            if kids is None:
                st['primary_state_ambiguous'] += 1      # an object held twice: ownership (C02), not a question about the views
                return None
            where = {}
            for ri, r in enumerate(res):
                for root in list(r.contents):
                    if isinstance(idx(root), int):
                        where[idx(root)] = ri
            case = {'scenario': 'valueeq', 'seed': ctx.seed, 'tier': ctx.tier, 'history': [list(h) for h in hist]}

            def fail(clause, what):
                out.fail({'property': 'C19', 'clause': clause, 'scenario': 'valueeq', 'instances': vname},
                         f'{what} [instances: {vname}; names {[o.name for o in objs]}; holders {parent}] after {hist[-1]}', case)
                return False
            for x, o in enumerate(objs):
                st['views'] += 1
                if not by_value or vname != 'value':
                    st['falsy_views'] += (not bool(o))
                top, chain = x, []
                while top in parent:
                    top = parent[top][0]
                    chain.append(top)
                if any(objs[a].name == o.name for a in chain):
                    st['equal_to_an_ancestor'] += 1
                elif any(objs[y].name == o.name and y != x and top in ([y] + [a for a in _chain(parent, y)]) for y in range(len(objs))):
                    st['equal_in_other_branch'] += 1
                end, hops = o, 0
                while end.eContainer() is not None and hops < 100:
                    end, hops = end.eContainer(), hops + 1
                r = o.eRoot()
                if r is not end or end is not objs[top]:
                    return fail('eroot', f'obj{x}.eRoot() is obj{idx(r)}, the eContainer() chain ends at obj{idx(end)}, '
                                         f'the holders read from the containment slots end at obj{top}')
                want = sorted(c for (c, _) in kids[x])
                got = sorted(idx(v) for v in o.eContents) if all(isinstance(idx(v), int) for v in o.eContents) else None
                if got != want:
                    return fail('econtents', f'obj{x}.eContents = {[idx(v) for v in o.eContents]} but its containment slots hold {want}')
                desc = sorted(below(kids, x))
                allc = [idx(v) for v in o.eAllContents()]
                if sorted(map(str, allc)) != sorted(map(str, desc)):
                    return fail('eallcontents', f'obj{x}.eAllContents() = {allc} (by identity) but the objects transitively held are {desc}')
                wres = where.get(top)
                gres = next((ri for ri, rr in enumerate(res) if o.eResource is rr), None if o.eResource is None else 'other')
                if gres != wres:
                    return fail('eresource', f'obj{x}.eResource is resource {gres} but its root obj{top} is in the contents of resource {wres}')
            return True

        def can_hold(p, f, x, kids):
            """never two value-equal objects in one collection; no containment cycle"""
            if p == x or p in below(kids, x):
                return False
            if f != 'main' and any(objs[c].name == objs[x].name and c != x for (c, ff) in kids[p] if ff == f):
                return False
            return True

        for _ in range(rng.randrange(1, 3)):
            new()
        for step in range(rng.randrange(4, 14)):
            kids, parent = tree()
            if kids is None:
                st['primary_state_ambiguous'] += 1
                break
            r = rng.random()
            act = None
            if r < 0.45:
                p = rng.randrange(len(objs))
                if rng.random() < 0.6:
                    p = len(objs) - 1                 # grow chains
                f = rng.choice(MANY + ['subfolders', 'main'])
                x = new()
                k2 = dict(kids)
                k2[x] = []
                if not can_hold(p, f, x, k2) or (f == 'main' and objs[p].main is not None and rng.random() < 0.5):
                    hist.append(['new', objs[x].name])
                elif f == 'main':
                    hist.append(['new-main', p, objs[x].name])
                    act = lambda: setattr(objs[p], 'main', objs[x])
                else:
                    how = rng.choice(['append', 'insert0', 'extend'])
                    hist.append(['new-child', p, f, objs[x].name, how])
                    coll = objs[p].eGet(f)
                    act = ((lambda: coll.append(objs[x])) if how == 'append' else (lambda: coll.insert(0, objs[x])) if how == 'insert0'
                           else (lambda: coll.extend([objs[x]])))
            elif r < 0.65 and len(objs) > 1:
                x, p = rng.randrange(len(objs)), rng.randrange(len(objs))
                f = rng.choice(MANY + ['main'])
                if not can_hold(p, f, x, kids):
                    continue
                if by_value and x in parent and objs[parent[x][0]].name == objs[p].name and parent[x][0] != p:
                    # (moving between two value-equal parents: before fix 86e4696 the object stayed in both)
                    st['skipped_move_between_equal_parents'] += 1          # (generated since fix 86e4696; counted)
                top = ([x] + _chain(parent, x))[-1]
                if by_value and any(v.name == objs[x].name and v is not objs[x] for rr in res for v in rr.contents
                                    if any(w is objs[top] for w in rr.contents)):
                    # (the resource of the moved object has a ROOT equal to it: before fix 86e4696 that root left the resource)
                    st['skipped_move_equal_to_a_root_of_its_resource'] += 1   # (generated since fix 86e4696; counted)
                hist.append(['move', x, p, f])
                act = (lambda: setattr(objs[p], 'main', objs[x])) if f == 'main' else (lambda: objs[p].eGet(f).append(objs[x]))
            elif r < 0.78:
                held = [(c, p, f) for c, (p, f) in parent.items()]
                if not held:
                    continue
                c, p, f = rng.choice(held)
                hist.append(['take-out', p, f, c])
                act = (lambda: setattr(objs[p], 'main', None)) if f == 'main' else (lambda: objs[p].eGet(f).remove(objs[c]))
            elif r < 0.86:
                x = rng.randrange(len(objs))
                hist.append(['delete', x])
                act = lambda: objs[x].delete()
            elif r < 0.95:
                x, ri = rng.randrange(len(objs)), rng.randrange(2)
                if any(v.name == objs[x].name and v is not objs[x] for v in res[ri].contents):
                    continue
                hist.append(['to-resource', x, ri])
                act = lambda: res[ri].append(objs[x])
            else:
                roots = [(ri, v) for ri, rr in enumerate(res) for v in rr.contents]
                if not roots:
                    continue
                ri, v = rng.choice(roots)
                hist.append(['from-resource', idx(v), ri])
                act = lambda: res[ri].remove(v)
            if act is not None:
                try:
                    act()
                except Exception as e:  # noqa  (what an edit refuses is not this property's subject; the views are compared anyway)
                    st['raised'] += 1
                    hist[-1] = hist[-1] + [type(e).__name__]
            st['ops'] += 1
            ok = check()
            if not ok:
                break
        st['cases'] += 1
        if sample is None and ok and len(hist) > 6:
            sample = {'scenario': 'valueeq', 'history': [list(h) for h in hist]}
    out.coverage['valueeq_cases'] = st['cases']
    out.coverage['valueeq_operations'] = st['ops']
    out.coverage['valueeq_object_views_checked'] = st['views']
    out.coverage['valueeq_views_of_an_object_equal_to_one_of_its_ancestors'] = st['equal_to_an_ancestor']
    out.coverage['valueeq_views_of_an_object_equal_to_one_elsewhere_in_its_tree'] = st['equal_in_other_branch']
    out.coverage['valueeq_views_of_falsy_objects'] = st['falsy_views']
    out.coverage['valueeq_operations_refused'] = st['raised']
    out.coverage['valueeq_cases_left_because_an_object_was_held_twice'] = st['primary_state_ambiguous']
    out.coverage['valueeq_moves_between_value_equal_parents'] = st['skipped_move_between_equal_parents']
    out.coverage['valueeq_moves_of_an_object_equal_to_a_root_of_its_resource'] = st['skipped_move_equal_to_a_root_of_its_resource']
    out.coverage['valueeq_sample'] = sample


def _chain(parent, y):
    out = []
    while y in parent:
        y = parent[y][0]
        out.append(y)
    return out


_run3 = run


def run(ctx, out):   # noqa: F811
    _run3(ctx, out)
    subtree_scenarios(ctx, out)
    meta_clash_scenarios(ctx, out)
    generic_scenarios(ctx, out)
    container_scenarios(ctx, out)
    assign_scenarios(ctx, out)
    observed_edit_scenarios(ctx, out)
    value_equal_scenarios(ctx, out)
