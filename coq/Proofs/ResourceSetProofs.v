(* C18: get_resource refines a finite map; a failed load leaves no entry. *)
From Coq Require Import ZArith List Bool Lia.
From PyecoreV Require Import Lib.PyBase Model.ResourceSet.
Import ListNotations.
Open Scope Z_scope.

Definition keys (m : list (Z * Z)) : list Z := map fst m.

(* a dict holds a key once; resource identities in use are older than the next one *)
Definition wf (s : rset) : Prop :=
  NoDup (keys (resources s)) /\ forall k v, In (k, v) (resources s) -> v < next_rid s.

Lemma wf_empty : wf rs_empty.
Proof. split; [constructor | intros k v []]. Qed.

(* ---------- association-list facts ---------- *)

Lemma rlookup_None m k : rlookup k m = None <-> ~ In k (keys m).
Proof.
  induction m as [|[k' v] m IH]; simpl.
  - split; [intros _ [] | reflexivity].
  - destruct (Z.eqb_spec k' k) as [E|N].
    + split; [discriminate | intros H; exfalso; apply H; left; exact E].
    + rewrite IH. split; [intros H [E|I]; [exact (N E) | exact (H I)] | intros H I; apply H; right; exact I].
Qed.

Lemma rlookup_In m k v : rlookup k m = Some v -> In (k, v) m.
Proof.
  induction m as [|[k' v'] m IH]; simpl; [discriminate|].
  destruct (Z.eqb_spec k' k) as [E|N].
  - intros H; inversion H; subst. left; reflexivity.
  - intros H. right. exact (IH H).
Qed.

Lemma rlookup_app_l m1 m2 k v : rlookup k m1 = Some v -> rlookup k (m1 ++ m2) = Some v.
Proof.
  induction m1 as [|[k' v'] m1 IH]; simpl; [discriminate|].
  destruct (k' =? k); [trivial | exact IH].
Qed.

Lemma rlookup_app_r m1 m2 k : rlookup k m1 = None -> rlookup k (m1 ++ m2) = rlookup k m2.
Proof.
  induction m1 as [|[k' v'] m1 IH]; simpl; [reflexivity|].
  destruct (k' =? k); [discriminate | exact IH].
Qed.

Lemma rmem_false m k : rmem k m = false <-> ~ In k (keys m).
Proof.
  unfold rmem. rewrite <- rlookup_None. destruct (rlookup k m); split; congruence.
Qed.

Lemma rset_key_absent m k v : ~ In k (keys m) -> rset_key k v m = m ++ [(k, v)].
Proof.
  induction m as [|[k' v'] m IH]; simpl; [reflexivity|].
  intros H. destruct (Z.eqb_spec k' k) as [E|N].
  - exfalso. apply H. left. exact E.
  - rewrite IH; [reflexivity|]. intros I. apply H. right. exact I.
Qed.

Lemma rset_key_app m1 m2 k v : ~ In k (keys m1) -> rset_key k v (m1 ++ m2) = m1 ++ rset_key k v m2.
Proof.
  induction m1 as [|[k' v'] m1 IH]; simpl; [reflexivity|].
  intros H. destruct (Z.eqb_spec k' k) as [E|N].
  - exfalso. apply H. left. exact E.
  - rewrite IH; [reflexivity|]. intros I. apply H. right. exact I.
Qed.

Lemma rset_key_In m k v k' v' : In (k', v') (rset_key k v m) -> (k' = k /\ v' = v) \/ In (k', v') m.
Proof.
  induction m as [|[k0 v0] m IH]; simpl.
  - intros [H|[]]. inversion H. left; split; reflexivity.
  - destruct (Z.eqb_spec k0 k) as [E|N]; simpl.
    + intros [H|H]; [inversion H; subst; left; split; reflexivity | right; right; exact H].
    + intros [H|H]; [right; left; exact H|]. destruct (IH H) as [L|R]; [left; exact L | right; right; exact R].
Qed.

Lemma rset_key_keys_present m k v : In k (keys m) -> keys (rset_key k v m) = keys m.
Proof.
  induction m as [|[k0 v0] m IH]; simpl; [intros []|].
  destruct (Z.eqb_spec k0 k) as [E|N]; simpl; [reflexivity|].
  intros [H|H]; [congruence|]. rewrite (IH H). reflexivity.
Qed.

Lemma NoDup_snoc (l : list Z) x : NoDup l -> ~ In x l -> NoDup (l ++ [x]).
Proof.
  induction l as [|y l IH]; simpl; intros Hd Hn.
  - constructor; [intros [] | constructor].
  - inversion Hd as [|? ? Hy Hd']; subst. constructor.
    + intros I. apply in_app_or in I. destruct I as [I|[E|[]]]; [exact (Hy I) | apply Hn; left; symmetry; exact E].
    + apply IH; [exact Hd' | intros I; apply Hn; right; exact I].
Qed.

Lemma rset_key_NoDup m k v : NoDup (keys m) -> NoDup (keys (rset_key k v m)).
Proof.
  intros H. destruct (in_dec Z.eq_dec k (keys m)) as [I|N].
  - rewrite (rset_key_keys_present m k v I). exact H.
  - rewrite (rset_key_absent m k v N). unfold keys. rewrite map_app. simpl.
    apply NoDup_snoc; assumption.
Qed.

Lemma rdel_rid_app r m1 m2 : rdel_rid r (m1 ++ m2) = rdel_rid r m1 ++ rdel_rid r m2.
Proof. unfold rdel_rid. apply filter_app. Qed.

Lemma rdel_rid_id r m : (forall k v, In (k, v) m -> v <> r) -> rdel_rid r m = m.
Proof.
  induction m as [|[k v] m IH]; simpl; [reflexivity|].
  intros H. destruct (Z.eqb_spec v r) as [E|N]; simpl.
  - exfalso. exact (H k v (or_introl eq_refl) E).
  - rewrite IH; [reflexivity|]. intros k' v' I. apply (H k' v'). right. exact I.
Qed.

Lemma NoDup_app_l (l1 l2 : list Z) : NoDup (l1 ++ l2) -> NoDup l1.
Proof.
  induction l1 as [|x l1 IH]; simpl; [constructor|].
  intros H. inversion H as [|? ? Hn Hd]; subst. constructor.
  - intros I. apply Hn. apply in_or_app. left. exact I.
  - exact (IH Hd).
Qed.

Lemma NoDup_remove_mid (l1 l2 : list Z) x : NoDup (l1 ++ x :: l2) -> NoDup (l1 ++ l2) /\ ~ In x (l1 ++ l2).
Proof. apply NoDup_remove. Qed.

(* ---------- the nested loop is the top-level loop ---------- *)

Lemma get_resource_eq uri reqs ok s :
  get_resource uri (Script reqs ok) s =
  match rlookup uri (resources s) with
  | Some r => (LOk r, s)
  | None =>
    let (r, s1) := create_resource uri s in
    match run_requests reqs s1 with
    | (true, s2) => if ok then (LOk r, s2) else (LErr, remove_resource r s2)
    | (false, s2) => (LErr, remove_resource r s2)
    end
  end.
Proof.
  cbn [get_resource]. destruct (rlookup uri (resources s)); [reflexivity|].
  destruct (create_resource uri s) as [r s1].
  match goal with |- context [(fix run (l : list (Z * Z * Z * script)) (s0 : rset) {struct l} : bool * rset := _) reqs s1] =>
    set (F := (fix run (l : list (Z * Z * Z * script)) (s0 : rset) {struct l} : bool * rset := _)) end.
  assert (E : forall l s0, F l s0 = run_requests l s0).
  { induction l as [|[[[o on] n] sc'] l IH]; intros s0; [reflexivity|].
    cbn [run_requests]. subst F. cbn beta iota. fold (get_resource n sc' s0).
    destruct (can_resolve o on s0 || rmem n (resources s0)); [apply IH|].
    destruct (get_resource n sc' s0) as [[r'|] s']; [apply IH | reflexivity]. }
  rewrite E. reflexivity.
Qed.

(* ---------- induction over scripts ---------- *)

Section ScriptInd.
  Variable P : script -> Prop.
  Hypothesis step : forall reqs ok, Forall (fun x => P (snd x)) reqs -> P (Script reqs ok).
  Fixpoint script_ind2 (sc : script) : P sc :=
    match sc with
    | Script reqs ok =>
      step reqs ok
        ((fix go (l : list (Z * Z * Z * script)) : Forall (fun x => P (snd x)) l :=
            match l with
            | [] => Forall_nil _
            | x :: rest =>
              Forall_cons x
                (match x as x0 return P (snd x0) with (_, sc') => script_ind2 sc' end)
                (go rest)
            end) reqs)
    end.
End ScriptInd.

(* ---------- what one get_resource does to the registry ---------- *)

(* the registry only grows at its end, by entries naming resources created from now on *)
Definition grows (s s' : rset) (added : list (Z * Z)) : Prop :=
  resources s' = resources s ++ added /\
  (forall k v, In (k, v) added -> next_rid s <= v) /\
  next_rid s <= next_rid s'.

Definition get_post (uri : Z) (s : rset) (out : lres * rset) : Prop :=
  let (res, s') := out in
  wf s' /\ next_rid s < next_rid s' /\
  exists added, grows s s' added /\
    match res with
    | LOk rid => rid = next_rid s /\ exists more, added = (uri, rid) :: more
    | LErr => (forall k v, In (k, v) added -> v <> next_rid s) /\ ~ In uri (keys added)
    end.

Definition get_ok (sc : script) : Prop :=
  forall uri s, wf s -> rlookup uri (resources s) = None -> get_post uri s (get_resource uri sc s).

Lemma wf_alias o r s : wf s -> r < next_rid s -> wf (alias o r s).
Proof.
  intros [Hn Hb] Hr. split; simpl.
  - apply rset_key_NoDup. exact Hn.
  - intros k v I. destruct (rset_key_In _ _ _ _ _ I) as [[_ E]|I']; [subst; exact Hr | exact (Hb k v I')].
Qed.

Lemma run_spec reqs :
  Forall (fun x => get_ok (snd x)) reqs ->
  forall s, wf s ->
    let (b, s') := run_requests reqs s in
    wf s' /\ exists added, grows s s' added.
Proof.
  induction reqs as [|[[[o on] n] sc'] reqs IH]; intros HF s Hwf.
  - simpl. split; [exact Hwf|]. exists []. repeat split.
    + rewrite app_nil_r. reflexivity.
    + intros k v [].
    + lia.
  - inversion HF as [|? ? Hsc HF']; subst. simpl in Hsc.
    cbn [run_requests].
    destruct (can_resolve o on s || rmem n (resources s)) eqn:Hm.
    + exact (IH HF' s Hwf).
    + apply orb_false_iff in Hm. destruct Hm as [Hc Hn]. unfold can_resolve in Hc.
      apply orb_false_iff in Hc. destruct Hc as [_ Ho].
      apply rmem_false in Ho. apply rmem_false in Hn.
      pose proof (Hsc n s Hwf (proj2 (rlookup_None _ _) Hn)) as Hp.
      destruct (get_resource n sc' s) as [[r'|] s1]; simpl in Hp.
      * destruct Hp as [Hwf1 [Hlt [added1 [[Hr1 [Hv1 Hn1]] [Er [more Em]]]]]].
        (* the alias step *)
        set (s2 := keep_alias o on n r' s1).
        assert (Hwf2 : wf s2).
        { subst s2. unfold keep_alias. destruct ((o =? n) || can_resolve o on s1); [exact Hwf1|].
          apply wf_alias; [exact Hwf1 | lia]. }
        assert (G2 : exists added2, grows s s2 added2).
        { subst s2. unfold keep_alias. destruct ((o =? n) || can_resolve o on s1).
          - exists added1. repeat split; assumption.
          - exists (rset_key o r' added1). unfold grows. simpl. repeat split.
            + rewrite Hr1. apply rset_key_app. exact Ho.
            + intros k v I. destruct (rset_key_In _ _ _ _ _ I) as [[_ E]|I']; [subst; lia | exact (Hv1 k v I')].
            + exact Hn1. }
        destruct G2 as [added2 [Hr2 [Hv2 Hn2]]].
        pose proof (IH HF' s2 Hwf2) as Hrest.
        destruct (run_requests reqs s2) as [b s3].
        destruct Hrest as [Hwf3 [added3 [Hr3 [Hv3 Hn3]]]].
        split; [exact Hwf3|]. exists (added2 ++ added3). repeat split.
        -- rewrite Hr3, Hr2, app_assoc. reflexivity.
        -- intros k v I. apply in_app_or in I. destruct I as [I|I]; [exact (Hv2 k v I)|].
           pose proof (Hv3 k v I). lia.
        -- lia.
      * destruct Hp as [Hwf1 [Hlt [added1 [[Hr1 [Hv1 Hn1]] _]]]].
        split; [exact Hwf1|]. exists added1. repeat split; assumption.
Qed.

Lemma get_ok_all : forall sc, get_ok sc.
Proof.
  apply script_ind2. intros reqs ok HF uri s Hwf Hnone.
  rewrite get_resource_eq, Hnone.
  destruct Hwf as [Hnd Hb].
  pose proof (proj1 (rlookup_None _ _) Hnone) as Hnotin.
  unfold create_resource.
  set (r := next_rid s).
  set (s1 := {| resources := rset_key uri r (resources s); next_rid := r + 1 |}).
  assert (Hs1 : resources s1 = resources s ++ [(uri, r)]) by (apply rset_key_absent; exact Hnotin).
  assert (Hwf1 : wf s1).
  { split; simpl.
    - apply rset_key_NoDup. exact Hnd.
    - intros k v I. destruct (rset_key_In _ _ _ _ _ I) as [[_ E]|I']; [subst; lia | pose proof (Hb k v I'); subst r; lia]. }
  pose proof (run_spec reqs HF s1 Hwf1) as Hrun.
  destruct (run_requests reqs s1) as [b s2].
  destruct Hrun as [[Hnd2 Hb2] [added2 [Hr2 [Hv2 Hn2]]]].
  simpl in Hv2, Hn2.
  assert (Hres2 : resources s2 = resources s ++ (uri, r) :: added2).
  { rewrite Hr2, Hs1, <- app_assoc. reflexivity. }
  (* what remove_resource r leaves *)
  assert (Hdel : rdel_rid r (resources s2) = resources s ++ added2).
  { rewrite Hres2, rdel_rid_app. simpl. rewrite Z.eqb_refl. simpl.
    rewrite (rdel_rid_id r (resources s)), (rdel_rid_id r added2); [reflexivity| |].
    - intros k v I. pose proof (Hv2 k v I). lia.
    - intros k v I. pose proof (Hb k v I). subst r. lia. }
  assert (Hkeys : NoDup (keys (resources s) ++ keys added2) /\ ~ In uri (keys (resources s) ++ keys added2)).
  { unfold keys in *. rewrite Hres2, map_app in Hnd2. simpl in Hnd2. apply NoDup_remove. exact Hnd2. }
  assert (Herr : get_post uri s (LErr, remove_resource r s2)).
  { simpl. split; [|split].
    - split; simpl.
      + rewrite Hdel. unfold keys. rewrite map_app. exact (proj1 Hkeys).
      + intros k v I. rewrite Hdel in I. apply (Hb2 k v). rewrite Hres2.
        apply in_app_or in I. apply in_or_app. destruct I as [I|I]; [left; exact I | right; right; exact I].
    - subst r. lia.
    - exists added2. split; [|split].
      + repeat split; simpl.
        * exact Hdel.
        * intros k v I. pose proof (Hv2 k v I). subst r. lia.
        * subst r. lia.
      + intros k v I. pose proof (Hv2 k v I). subst r. lia.
      + intros I. apply (proj2 Hkeys). apply in_or_app. right. exact I. }
  destruct b; [destruct ok|]; try exact Herr.
  simpl. split; [split; assumption|]. split; [subst r; lia|].
  exists ((uri, r) :: added2). split; [|split; [reflexivity | exists added2; reflexivity]].
  repeat split.
  - exact Hres2.
  - intros k v [E|I]; [inversion E; subst; subst r; lia | pose proof (Hv2 k v I); subst r; lia].
  - subst r. lia.
Qed.

(* ---------- corollaries in the words of the property ---------- *)

Lemma get_hit uri sc s r : rlookup uri (resources s) = Some r -> get_resource uri sc s = (LOk r, s).
Proof.
  intros H. destruct sc as [reqs ok]. rewrite get_resource_eq, H. reflexivity.
Qed.

(* failure: no entry (key or alias) names the failed resource, the URI is unbound,
   every earlier binding is still there, in the same order, and what was added
   belongs to resources created (and successfully loaded) on the way *)
Lemma get_failure uri sc s s' :
  wf s -> rlookup uri (resources s) = None -> get_resource uri sc s = (LErr, s') ->
  wf s' /\
  rlookup uri (resources s') = None /\
  (forall k v, In (k, v) (resources s') -> v <> next_rid s) /\
  exists added, resources s' = resources s ++ added /\ forall k v, In (k, v) added -> next_rid s < v.
Proof.
  intros Hwf Hn E. pose proof (get_ok_all sc uri s Hwf Hn) as H. rewrite E in H. simpl in H.
  destruct H as [Hwf' [_ [added [[Hr [Hv _]] [Hne Hk]]]]].
  split; [exact Hwf'|]. split; [|split].
  - rewrite Hr, rlookup_app_r; [|exact Hn]. apply rlookup_None. exact Hk.
  - intros k v I. rewrite Hr in I. apply in_app_or in I. destruct I as [I|I].
    + destruct Hwf as [_ Hb]. pose proof (Hb k v I). lia.
    + exact (Hne k v I).
  - exists added. split; [exact Hr|]. intros k v I. pose proof (Hv k v I). pose proof (Hne k v I). lia.
Qed.

(* a load that asks for nothing else and fails: the registry is exactly what it was *)
Lemma get_failure_leaf uri s :
  wf s -> rlookup uri (resources s) = None ->
  resources (snd (get_resource uri (Script [] false) s)) = resources s /\
  fst (get_resource uri (Script [] false) s) = LErr.
Proof.
  intros [Hnd Hb] Hn. rewrite get_resource_eq, Hn. simpl.
  rewrite (rset_key_absent _ _ _ (proj1 (rlookup_None _ _) Hn)), rdel_rid_app. simpl.
  rewrite Z.eqb_refl. simpl. rewrite app_nil_r. split; [|reflexivity].
  apply rdel_rid_id. intros k v I. pose proof (Hb k v I). lia.
Qed.

(* success: the URI is bound to the new resource, earlier bindings are untouched *)
Lemma get_success uri sc s s' r :
  wf s -> rlookup uri (resources s) = None -> get_resource uri sc s = (LOk r, s') ->
  wf s' /\ r = next_rid s /\
  rlookup uri (resources s') = Some r /\
  exists more, resources s' = resources s ++ (uri, r) :: more /\ forall k v, In (k, v) more -> r <= v.
Proof.
  intros Hwf Hn E. pose proof (get_ok_all sc uri s Hwf Hn) as H. rewrite E in H. simpl in H.
  destruct H as [Hwf' [_ [added [[Hr [Hv _]] [Er [more Em]]]]]]. subst added.
  split; [exact Hwf'|]. split; [exact Er|]. split.
  - rewrite Hr, rlookup_app_r; [|exact Hn]. simpl. rewrite Z.eqb_refl. reflexivity.
  - exists more. split; [exact Hr|]. intros k v I. subst r. apply (Hv k v). right. exact I.
Qed.

Lemma get_success_leaf uri s :
  wf s -> rlookup uri (resources s) = None ->
  get_resource uri (Script [] true) s =
    (LOk (next_rid s), {| resources := resources s ++ [(uri, next_rid s)]; next_rid := next_rid s + 1 |}).
Proof.
  intros _ Hn. rewrite get_resource_eq, Hn. simpl.
  rewrite (rset_key_absent _ _ _ (proj1 (rlookup_None _ _) Hn)). reflexivity.
Qed.

(* asking twice: same resource, nothing changes, whatever the second load would do *)
Lemma get_twice uri sc sc' s s' r :
  wf s -> get_resource uri sc s = (LOk r, s') -> get_resource uri sc' s' = (LOk r, s').
Proof.
  intros Hwf E. destruct (rlookup uri (resources s)) as [r0|] eqn:L.
  - rewrite (get_hit uri sc s r0 L) in E. inversion E; subst. apply get_hit. exact L.
  - destruct (get_success uri sc s s' r Hwf L E) as [_ [_ [L' _]]]. apply get_hit. exact L'.
Qed.

(* every earlier binding survives a get_resource, whatever its outcome *)
Lemma get_preserves uri sc s k v :
  wf s -> rlookup k (resources s) = Some v ->
  rlookup k (resources (snd (get_resource uri sc s))) = Some v.
Proof.
  intros Hwf L. destruct (rlookup uri (resources s)) as [r0|] eqn:Lu.
  - rewrite (get_hit uri sc s r0 Lu). exact L.
  - pose proof (get_ok_all sc uri s Hwf Lu) as H.
    destruct (get_resource uri sc s) as [res s']. simpl in *.
    destruct H as [_ [_ [added [[Hr _] _]]]]. rewrite Hr. apply rlookup_app_l. exact L.
Qed.

Lemma get_wf uri sc s : wf s -> wf (snd (get_resource uri sc s)).
Proof.
  intros Hwf. destruct (rlookup uri (resources s)) as [r0|] eqn:Lu.
  - rewrite (get_hit uri sc s r0 Lu). exact Hwf.
  - pose proof (get_ok_all sc uri s Hwf Lu) as H.
    destruct (get_resource uri sc s) as [res s']. simpl in *. exact (proj1 H).
Qed.

(* refinement of the finite-map specification for loads without nested requests *)
Definition as_map (s : rset) : Z -> option Z := fun k => rlookup k (resources s).

Lemma get_refines_map uri ok s :
  wf s ->
  let (res, s') := get_resource uri (Script [] ok) s in
  let (res_spec, m') := spec_get uri ok (next_rid s) (as_map s) in
  res = res_spec /\ forall k, as_map s' k = m' k.
Proof.
  intros Hwf. unfold spec_get, as_map.
  destruct (rlookup uri (resources s)) as [r0|] eqn:Lu.
  - rewrite (get_hit uri _ s r0 Lu). split; reflexivity.
  - destruct ok.
    + rewrite (get_success_leaf uri s Hwf Lu). split; [reflexivity|]. intros k. simpl.
      destruct (Z.eqb_spec k uri) as [E|N].
      * subst. rewrite rlookup_app_r; [|exact Lu]. simpl. rewrite Z.eqb_refl. reflexivity.
      * destruct (rlookup k (resources s)) as [v|] eqn:Lk.
        -- apply rlookup_app_l. exact Lk.
        -- rewrite rlookup_app_r; [|exact Lk]. simpl.
           destruct (Z.eqb_spec uri k); [congruence | reflexivity].
    + destruct (get_failure_leaf uri s Hwf Lu) as [Hr Ho].
      destruct (get_resource uri (Script [] false) s) as [res s']. simpl in *.
      split; [exact Ho|]. intros k. rewrite Hr. reflexivity.
Qed.

(* every history of get_resource / remove_resource keeps the dict well-formed *)
Lemma wf_remove r s : wf s -> wf (remove_resource r s).
Proof.
  intros [Hnd Hb]. split; simpl.
  - unfold rdel_rid, keys. clear Hb. induction (resources s) as [|[k v] m IH]; simpl; [constructor|].
    inversion Hnd as [|? ? Hni Hnd']; subst. destruct (negb (v =? r)); simpl.
    + constructor; [|exact (IH Hnd')]. intros I. apply Hni.
      apply in_map_iff in I. destruct I as [[k' v'] [E I]]. simpl in E. subst.
      apply filter_In in I. apply in_map_iff. exists (k, v'). split; [reflexivity | exact (proj1 I)].
    + exact (IH Hnd').
  - intros k v I. unfold rdel_rid in I. apply filter_In in I. exact (Hb k v (proj1 I)).
Qed.

(* ---------- decode ---------- *)

Lemma decode_spec : forall d n,
  decode d n = if all_accepted d then Ok (n + doc_size d) else Err ValueErr.
Proof.
  fix IH 1. intros [acc children] n. cbn [decode all_accepted doc_size].
  destruct acc; [|reflexivity]. cbn [andb].
  assert (H : forall l m,
    (fix over (l : list doc) (n : Z) {struct l} : res Z :=
       match l with
       | [] => Ok n
       | c :: rest => match decode c n with Ok n' => over rest n' | Err e => Err e end
       end) l m =
    if (fix all (l : list doc) : bool := match l with [] => true | c :: r => all_accepted c && all r end) l
    then Ok (m + (fix sum (l : list doc) : Z := match l with [] => 0 | c :: r => doc_size c + sum r end) l)
    else Err ValueErr).
  { induction l as [|c rest IHl]; intros m.
    - rewrite Z.add_0_r. reflexivity.
    - rewrite (IH c m). destruct (all_accepted c); simpl; [|reflexivity].
      rewrite IHl. destruct ((fix all (l : list doc) : bool := match l with [] => true | c0 :: r => all_accepted c0 && all r end) rest);
        [f_equal; symmetry; apply Z.add_assoc | reflexivity]. }
  rewrite H. destruct ((fix all (l : list doc) : bool := match l with [] => true | c :: r => all_accepted c && all r end) children);
    [f_equal; symmetry; apply Z.add_assoc | reflexivity].
Qed.
