(* C19 — the reflective views agree with the model they describe.
   Statements only; proofs in Proofs/C19Proofs.v over Model/Kernel.v.
   eContents = the children held by the containment references; eAllContents
   yields exactly the transitive descendants (sound for any fuel, complete for
   every descendant within the fuel, which is the number of objects + 1);
   eRoot is the end of the eContainer chain and eResource is the root's
   resource, for every acyclic containment.
   Metamodel side (Model/MetaViews.v): eAllSuperTypes is exactly the set of
   transitive supertypes, each once, in any class graph (diamonds included);
   eAllStructuralFeatures is exactly own plus inherited declarations, each
   once; eAllReferences/eAllAttributes partition it; findEStructuralFeature
   returns a declaration of that name among them, or None when there is none.
   "Exactly once" (Proofs/C19Once.v): under the single-owner invariant own_ok
   (cont s c = Some (p,f) <-> f is a containment and slot (p,f) holds c), the
   slot shape shape2 (a containment slot holds an object at most once) -- both
   are components of WF, preserved by the operations (C02, Proofs/WF*.v) -- and
   acyclicity of the container pointers (acyclic_cont: no object is its own
   transitive container; implied by "every container chain is finite",
   forall c, exists n, depth s c n), eContents and eAllContents are
   duplicate-free for EVERY fuel; if moreover every contained object belongs
   to the universe (c < length (ocls m)) and fuel >= the number of objects
   (the model uses that number + 1), eAllContents enumerates exactly the
   strict descendants, each once.
   For REACHABLE states (Proofs/Acyclic.v; theorems at the end of this file) acyclicity
   and the universe bound are no longer premises: along every history whose
   calls satisfy fits_history -- collection calls address a many-valued
   feature, the written objects exist (< length (ocls m)), and no call would
   put an object inside its own containment subtree in the state where it
   runs (op_nocycle, the model-side twin of creates_cycle in harness/krun.py)
   -- every state is WF, acyclic and within the universe, hence eAllContents
   with fuel >= the number of objects is exactly the strict descendants, each
   once.  The no-cycle precondition is the property's own quantifier
   ("acyclic containment only"; pyecore does not check): it cannot be dropped,
   x.kids.append(x) makes acyclic_cont false in the model
   (C19_cycle_excluded_witness), and it is decidable (fits_b, sound by
   fits_b_sound_init).
   PARTIAL: the interchangeability of access paths is
   decided by the correspondence (access path randomised per call); that the
   implementation's views follow EDITS of the class graph (no stale cache) is
   decided by the edit-history correspondence of harness/props/c19.py. *)
From Coq Require Import ZArith List Bool Arith.
From PyecoreV Require Import Lib.PyBase Lib.PyList Model.Kernel Model.MetaViews Proofs.C19Proofs
     Proofs.WFBase Proofs.C19Once Proofs.C01Full Proofs.OwnAll Proofs.WFCorollaries.
Import ListNotations.

Theorem C19_econtents_are_the_containment_slots :
  forall m s o c,
    In c (econtents m s o) <->
    exists f, In f (ref_feats m o) /\ f_cont (fd m f) = true /\ In (VObj c) (vals s (o, f)).
Proof. exact econtents_spec. Qed.
Print Assumptions C19_econtents_are_the_containment_slots.

Theorem C19_eroot_ends_the_container_chain :
  forall m s o n,
    depth s o n -> n <= S (length (ocls m)) ->
    chain_end s o (eroot m s o) /\ cont s (eroot m s o) = None.
Proof. exact eroot_is_chain_end. Qed.
Print Assumptions C19_eroot_ends_the_container_chain.

Theorem C19_chain_end_unique :
  forall s o r r', chain_end s o r -> chain_end s o r' -> r = r'.
Proof. exact chain_end_unique. Qed.
Print Assumptions C19_chain_end_unique.

Theorem C19_eresource_is_the_roots :
  forall m s o, eresource_of m s o = eres s (eroot m s o).
Proof. exact eresource_is_roots. Qed.
Print Assumptions C19_eresource_is_the_roots.

Theorem C19_eallcontents_only_descendants :
  forall m s fuel o c, In c (eallcontents fuel m s o) -> descends m s o c.
Proof. exact eallcontents_sound. Qed.
Print Assumptions C19_eallcontents_only_descendants.

Theorem C19_eallcontents_every_descendant_partial :
  forall m s n o c fuel, descends_in m s n o c -> n <= fuel -> In c (eallcontents fuel m s o).
Proof. exact eallcontents_complete. Qed.
Print Assumptions C19_eallcontents_every_descendant_partial.

Theorem C19_econtents_exactly_once :
  forall m s o, own_ok m s -> shape2 m s -> NoDup (econtents m s o).
Proof. exact econtents_NoDup. Qed.
Print Assumptions C19_econtents_exactly_once.

(* every fuel: truncation only drops elements *)
Theorem C19_eallcontents_exactly_once :
  forall m s fuel o,
    own_ok m s -> shape2 m s -> acyclic_cont s -> NoDup (eallcontents fuel m s o).
Proof. exact eallcontents_NoDup. Qed.
Print Assumptions C19_eallcontents_exactly_once.

Theorem C19_eallcontents_exactly_once_finite_chains :
  forall m s fuel o,
    own_ok m s -> shape2 m s -> (forall c, exists n, depth s c n) ->
    NoDup (eallcontents fuel m s o).
Proof. exact eallcontents_NoDup_finite_chains. Qed.
Print Assumptions C19_eallcontents_exactly_once_finite_chains.

Theorem C19_finite_chains_are_acyclic :
  forall s, (forall c, exists n, depth s c n) -> acyclic_cont s.
Proof. exact finite_chains_acyclic. Qed.
Print Assumptions C19_finite_chains_are_acyclic.

Theorem C19_no_self_descendant_is_acyclic :
  forall m s,
    own_ok m s -> (forall c p f, cont s c = Some (p, f) -> In f (ref_feats m p)) ->
    (forall x, ~ descends m s x x) -> acyclic_cont s.
Proof. exact no_self_descendant_acyclic. Qed.
Print Assumptions C19_no_self_descendant_is_acyclic.

(* with the model's fuel: a duplicate-free enumeration of exactly the strict descendants *)
Theorem C19_eallcontents_is_the_descendants_each_once :
  forall m s fuel o,
    own_ok m s -> shape2 m s -> acyclic_cont s ->
    (forall c p f, cont s c = Some (p, f) -> c < length (ocls m)) ->
    length (ocls m) <= fuel ->
    NoDup (eallcontents fuel m s o) /\
    (forall c, In c (eallcontents fuel m s o) <-> descends m s o c).
Proof. exact eallcontents_exact. Qed.
Print Assumptions C19_eallcontents_is_the_descendants_each_once.

Theorem C19_all_supertypes_are_the_ancestors :
  forall g fuel c d, In d (all_supers fuel g c) -> exists n, ancestor g n c d.
Proof. intros g fuel c d H. apply all_supers_spec in H. eapply supers_gen_sound; eauto. Qed.
Print Assumptions C19_all_supertypes_are_the_ancestors.

Theorem C19_every_ancestor_is_a_supertype :
  forall g n c d fuel, ancestor g n c d -> n <= fuel -> In d (all_supers fuel g c).
Proof. intros g n c d fuel H Hn. apply all_supers_spec. eapply supers_gen_complete; eauto. Qed.
Print Assumptions C19_every_ancestor_is_a_supertype.

Theorem C19_all_supertypes_once : forall g fuel c, NoDup (all_supers fuel g c).
Proof. exact all_supers_NoDup. Qed.
Print Assumptions C19_all_supertypes_once.

Theorem C19_all_features_are_own_or_inherited :
  forall g fuel c f, In f (all_feats fuel g c) ->
    In f (own g c) \/ exists n d, ancestor g n c d /\ In f (own g d).
Proof. intros g fuel c f H. apply all_feats_spec in H. eapply feats_gen_sound; eauto. Qed.
Print Assumptions C19_all_features_are_own_or_inherited.

Theorem C19_own_and_inherited_features_are_listed :
  forall g n c d f fuel,
    (In f (own g c) -> In f (all_feats (S fuel) g c)) /\
    (ancestor g n c d -> In f (own g d) -> n < fuel -> In f (all_feats fuel g c)).
Proof.
  intros g n c d f fuel. split.
  - intros H. apply all_feats_spec. apply feats_gen_complete_own. exact H.
  - intros Ha Ho Hn. apply all_feats_spec. eapply feats_gen_complete_inherited; eauto.
Qed.
Print Assumptions C19_own_and_inherited_features_are_listed.

Theorem C19_all_features_once : forall g fuel c, NoDup (all_feats fuel g c).
Proof. exact all_feats_NoDup. Qed.
Print Assumptions C19_all_features_once.

Theorem C19_references_and_attributes_partition :
  forall g fuel c f, In f (all_feats fuel g c) <-> (In f (all_refs fuel g c) \/ In f (all_attrs fuel g c)).
Proof. exact all_refs_attrs_partition. Qed.
Print Assumptions C19_references_and_attributes_partition.

Theorem C19_find_feature_finds_a_declaration :
  forall g fuel c nm f, find_feat fuel g c nm = Some f -> In f (feats_gen fuel g c) /\ fname g f = nm.
Proof. exact find_feat_spec. Qed.
Print Assumptions C19_find_feature_finds_a_declaration.

Theorem C19_find_feature_none_means_absent :
  forall g fuel c nm, find_feat fuel g c nm = None -> forall f, In f (feats_gen fuel g c) -> fname g f <> nm.
Proof. exact find_feat_none. Qed.
Print Assumptions C19_find_feature_none_means_absent.

Definition ex_mm : mm :=
  {| feats := [ {| f_owner := 0; f_isref := true; f_many := true; f_unique := true; f_cont := true;
                   f_opp := None; f_type := TClass 0; f_default := VNone |} ];
     conf := [(0, 0)]; ocls := [0; 0; 0]; enames := []; nres := 1 |}.

Example C19_witness :
  let s := fold_left (next ex_mm) [OAppend 0 0 (VObj 1); OAppend 1 0 (VObj 2); ORAppend 0 0] (init_state ex_mm) in
  econtents ex_mm s 0 = [1] /\ eallcontents 4 ex_mm s 0 = [1; 2] /\ eroot ex_mm s 2 = 0 /\
  eresource_of ex_mm s 2 = Some 0.
Proof. vm_compute. repeat split; reflexivity. Qed.

(* the premises of the exactly-once theorems are satisfiable by a state with nested containment *)
Example C19_exactly_once_witness :
  own_ok once_mm once_state /\ shape2 once_mm once_state /\ acyclic_cont once_state /\
  (forall c p f, cont once_state c = Some (p, f) -> c < length (ocls once_mm)) /\
  eallcontents (S (length (ocls once_mm))) once_mm once_state 0 = [1; 2].
Proof. exact once_witness. Qed.
Print Assumptions C19_exactly_once_witness.

(* ---------- in every reachable state (premises own_ok / shape2 discharged by the global invariant) ---------- *)
Theorem C19_econtents_exactly_once_in_every_reachable_state :
  forall m, wf_mm m -> ref_defaults_none m -> forall ops, Forall (op_many m) ops ->
  forall o, NoDup (econtents m (reach m ops) o).
Proof. exact reach_econtents_NoDup. Qed.
Print Assumptions C19_econtents_exactly_once_in_every_reachable_state.

Theorem C19_eallcontents_exactly_once_in_every_acyclic_reachable_state :
  forall m, wf_mm m -> ref_defaults_none m -> forall ops, Forall (op_many m) ops ->
  forall fuel o, acyclic_cont (reach m ops) -> NoDup (eallcontents fuel m (reach m ops) o).
Proof. exact reach_eallcontents_NoDup. Qed.
Print Assumptions C19_eallcontents_exactly_once_in_every_acyclic_reachable_state.

(* ---------- in every reachable state of a history that closes no containment cycle ---------- *)
From PyecoreV Require Import Proofs.Acyclic.

Theorem C19_reachable_states_are_acyclic_and_within_the_universe :
  forall m, wf_mm m -> ref_defaults_none m -> forall ops,
  fits_history m (init_state m) ops ->
  acyclic_cont (reach m ops) /\ in_universe m (reach m ops).
Proof. exact acyclic_history. Qed.
Print Assumptions C19_reachable_states_are_acyclic_and_within_the_universe.

Theorem C19_no_cycle_step :
  forall m, wf_mm m -> forall s o,
  WF m s -> acyclic_cont s -> op_fits m s o -> op_nocycle m s o -> acyclic_cont (next m s o).
Proof. exact acyclic_step. Qed.
Print Assumptions C19_no_cycle_step.

Theorem C19_eallcontents_exactly_the_descendants_once_in_every_reachable_state :
  forall m, wf_mm m -> ref_defaults_none m -> forall ops,
  fits_history m (init_state m) ops ->
  forall fuel o, length (ocls m) <= fuel ->
    NoDup (eallcontents fuel m (reach m ops) o) /\
    (forall c, In c (eallcontents fuel m (reach m ops) o) <-> descends m (reach m ops) o c).
Proof. exact reach_eallcontents_exact. Qed.
Print Assumptions C19_eallcontents_exactly_the_descendants_once_in_every_reachable_state.

(* the boolean form of the premise is sound *)
Theorem C19_checked_histories_fit :
  forall m, wf_mm m -> ref_defaults_none m -> forall ops,
  fits_b m (init_state m) ops = true -> fits_history m (init_state m) ops.
Proof. exact fits_b_sound_init. Qed.
Print Assumptions C19_checked_histories_fit.

(* a fitting history with a re-parenting, a move through the container end, Resource.append
   of a contained object, an assignment, a failing remove and `del` of the container end *)
Example C19_fits_history_witness :
  fits_history ex_mm_tree (init_state ex_mm_tree) ex_tree_history /\
  (let s := reach ex_mm_tree (firstn 5 ex_tree_history) in
   cont s 1 = Some (0, 0) /\ cont s 2 = Some (1, 0) /\ cont s 3 = Some (2, 0) /\
   eallcontents 5 ex_mm_tree s 0 = [1; 2; 3]) /\
  (let s := reach ex_mm_tree (firstn 6 ex_tree_history) in
   cont s 2 = None /\ rcont s 0 = [2] /\ vals s (1, 0) = [] /\ eresource_of ex_mm_tree s 3 = Some 0) /\
  (let s := reach ex_mm_tree ex_tree_history in
   cont s 1 = None /\ cont s 2 = Some (0, 0) /\ cont s 3 = None /\ rcont s 0 = [] /\
   vals s (2, 0) = [] /\ eallcontents 5 ex_mm_tree s 0 = [2]).
Proof. exact fits_history_witness. Qed.
Print Assumptions C19_fits_history_witness.

(* the precondition is not over-strong: the excluded calls do close a cycle in the model *)
Example C19_cycle_excluded_witness :
  let m := ex_mm_tree in
  let s := reach m [OAppend 0 0 (VObj 1)] in
  (op_ok_b m s (OAppend 0 0 (VObj 0)) = false /\ ~ op_nocycle m s (OAppend 0 0 (VObj 0)) /\
   ~ acyclic_cont (next m s (OAppend 0 0 (VObj 0)))) /\
  (op_ok_b m s (OAppend 1 0 (VObj 0)) = false /\ ~ op_nocycle m s (OAppend 1 0 (VObj 0)) /\
   ~ acyclic_cont (next m s (OAppend 1 0 (VObj 0)))) /\
  (op_ok_b m s (OSet 0 1 (VObj 1)) = false /\ ~ op_nocycle m s (OSet 0 1 (VObj 1)) /\
   ~ acyclic_cont (next m s (OSet 0 1 (VObj 1)))) /\
  WF m (next m s (OAppend 1 0 (VObj 0))).
Proof. exact cycle_excluded. Qed.
Print Assumptions C19_cycle_excluded_witness.
