(* C02 — every object has exactly one owner, and the back-pointers say so.
   Statements only; proofs in Proofs/C02Proofs.v over Model/Kernel.v.
   Proved:
   * atomicity at full strength — whatever public operation fails
     (BadValueError, KeyError, IndexError, ValueError, TypeError), the whole
     state, hence every container, containment slot, resource list and
     back-pointer, is exactly what it was;
   * the resource half of the ownership invariant, for EVERY operation of the
     kernel model and every history from the initial state: an object is
     listed as a root at most once and in at most one resource, and it is
     listed in resource r exactly when its eResource back-pointer names r
     (container updates that take a root out of its resource, Resource.append
     moving a root, delete(), ... included).  With C19 (eResource of any
     object is its root's) this gives "every descendant reports its root's
     resource".
   * the containment half, for every well-formed metamodel (`wf_mm`) and every
     history from the initial state (Proofs/OwnAll.v `WF_history`, consequences in
     Proofs/WFCorollaries.v): eContainer()/eContainmentFeature() name (p, f)
     exactly when f is a containment reference whose slot in p holds the object;
     at most one containment slot of one container holds an object, and holds it
     once; an object has no container exactly when no containment slot holds it;
     a root of a resource has no container (an object is owned by a slot or by
     a root position, never by both); "giving an object a new owner removes it
     from the previous one" is the preservation of this invariant by every
     linking operation (re-parenting, container end, Resource.append of a
     contained object).
   Acyclicity of the containment graph is the property's own quantifier
   (pyecore does not check it): a call that would put an object inside its own
   containment subtree is excluded by the precondition op_nocycle, evaluated in
   the state where the call runs (the model-side twin of creates_cycle in
   harness/krun.py).  Proved at the end of this file (Proofs/Acyclic.v): every
   operation satisfying it preserves acyclicity; along every history whose
   calls satisfy fits_history (many-valued feature for collection calls,
   existing objects, op_nocycle) the containment graph of every state is a
   FOREST -- no object is its own transitive container, at most one owning
   slot, and every container chain ends within the model's fuel at an object
   without container -- and every object reports the resource of that chain
   end, in particular every descendant of a container-less object reports its
   resource.  The precondition cannot be dropped: x.kids.append(x) makes
   acyclic_cont false in the model (C02_cycle_excluded_witness), while WF
   (single owner etc.) holds even then.
   Bulk move (Proofs/BulkMove.v, end of this file): x.f.extend(y.f) / += / update
   with the LIVE collection of another object, i.e. OExtend x f (vals s (y,f)),
   for a unique many-valued containment f (with or without container end),
   from any WF state: the receiver's list is the old one followed by the
   snapshot, the source slot ends empty, each moved child names (x,f) as its
   container, every other container pointer and containment slot is unchanged;
   the aliasing call x.f.extend(x.f) changes no containment slot and no
   container pointer.  Premises: the snapshot holds object references that pass
   the type check (otherwise the call raises and, by atomicity, changes
   nothing).  No acyclicity premise is needed for these equations. *)
From Coq Require Import ZArith List Bool Arith.
From PyecoreV Require Import Lib.PyBase Lib.PyList Model.Kernel Proofs.C01Full Proofs.C02Proofs Proofs.WFBase Proofs.SymLink
  Proofs.OwnAll Proofs.WFCorollaries Model.Premises Proofs.PremisesProofs.
Import ListNotations.

Theorem C02_failed_operation_changes_nothing_partial :
  forall m s o e s' r,
    atomic_op m o -> step m s o = ((Some e, s'), r) -> s' = s.
Proof. exact failed_op_changes_nothing. Qed.
Print Assumptions C02_failed_operation_changes_nothing_partial.

Theorem C02_root_lists_and_eresource_agree_step :
  forall m s o, res_ok s -> res_ok (next m s o).
Proof. exact res_ok_step. Qed.
Print Assumptions C02_root_lists_and_eresource_agree_step.

Theorem C02_root_lists_and_eresource_agree_in_every_reachable_state :
  forall m ops, res_ok (fold_left (next m) ops (init_state m)).
Proof. exact res_ok_history. Qed.
Print Assumptions C02_root_lists_and_eresource_agree_in_every_reachable_state.

(* non-vacuity: a failing remove on a containment, and an accepted move between two owners *)
Definition ex_mm : mm :=
  {| feats := [ {| f_owner := 0; f_isref := true; f_many := true; f_unique := true; f_cont := true;
                   f_opp := Some 1; f_type := TClass 1; f_default := VNone |};
                {| f_owner := 1; f_isref := true; f_many := false; f_unique := true; f_cont := false;
                   f_opp := Some 0; f_type := TClass 0; f_default := VNone |} ];
     conf := [(0, 0); (1, 1)]; ocls := [0; 0; 1]; enames := []; nres := 1 |}.

Example C02_witness :
  let s1 := next ex_mm (init_state ex_mm) (OAppend 0 0 (VObj 2)) in
  let r := step ex_mm s1 (ORemove 1 0 (VObj 2)) in
  let s2 := next ex_mm s1 (OAppend 1 0 (VObj 2)) in
  fst (fst r) = Some KeyErr /\ cont (snd (fst r)) 2 = Some (0, 0) /\
  cont s2 2 = Some (1, 0) /\ vals s2 (0, 0) = [] /\ vals s2 (1, 0) = [VObj 2] /\ vals s2 (2, 1) = [VObj 1].
Proof. vm_compute. repeat split; reflexivity. Qed.

(* ---------- the containment half, in every reachable state ---------- *)
Theorem C02_container_names_exactly_the_owning_slot :
  forall m, wf_mm m -> ref_defaults_none m -> forall ops, Forall (op_many m) ops ->
  forall c p f,
    cont (reach m ops) c = Some (p, f) <->
    (f_cont (fd m f) = true /\ In (VObj c) (vals (reach m ops) (p, f))).
Proof. exact reach_container_iff_held. Qed.
Print Assumptions C02_container_names_exactly_the_owning_slot.

Theorem C02_at_most_one_owning_slot :
  forall m, wf_mm m -> ref_defaults_none m -> forall ops, Forall (op_many m) ops ->
  forall c p p' f f',
    f_cont (fd m f) = true -> f_cont (fd m f') = true ->
    In (VObj c) (vals (reach m ops) (p, f)) -> In (VObj c) (vals (reach m ops) (p', f')) ->
    p = p' /\ f = f'.
Proof. exact reach_one_owner_slot. Qed.
Print Assumptions C02_at_most_one_owning_slot.

Theorem C02_held_once_by_its_slot :
  forall m, wf_mm m -> ref_defaults_none m -> forall ops, Forall (op_many m) ops ->
  forall p f, f_cont (fd m f) = true -> NoDup (objs_of (vals (reach m ops) (p, f))).
Proof. exact reach_once_in_owner_slot. Qed.
Print Assumptions C02_held_once_by_its_slot.

Theorem C02_no_container_iff_unheld :
  forall m, wf_mm m -> ref_defaults_none m -> forall ops, Forall (op_many m) ops ->
  forall c,
    cont (reach m ops) c = None <->
    (forall p f, f_cont (fd m f) = true -> ~ In (VObj c) (vals (reach m ops) (p, f))).
Proof. exact reach_no_container_iff_unheld. Qed.
Print Assumptions C02_no_container_iff_unheld.

Theorem C02_roots_once_in_one_resource_and_uncontained :
  forall m, wf_mm m -> ref_defaults_none m -> forall ops, Forall (op_many m) ops ->
  forall c r r',
    NoDup (rcont (reach m ops) r) /\
    (In c (rcont (reach m ops) r) <-> eres (reach m ops) c = Some r) /\
    (In c (rcont (reach m ops) r) -> In c (rcont (reach m ops) r') -> r = r') /\
    (In c (rcont (reach m ops) r) -> cont (reach m ops) c = None).
Proof. exact reach_roots. Qed.
Print Assumptions C02_roots_once_in_one_resource_and_uncontained.

Theorem C02_eresource_is_the_resource_of_the_chain_end :
  forall m, wf_mm m -> ref_defaults_none m -> forall ops, Forall (op_many m) ops ->
  forall o r,
    eresource_of m (reach m ops) o = Some r <->
    In (root_of (S (length (ocls m))) (reach m ops) o) (rcont (reach m ops) r).
Proof. exact reach_eresource_is_roots. Qed.
Print Assumptions C02_eresource_is_the_resource_of_the_chain_end.

Theorem C02_invariant_step :
  forall m, wf_mm m -> forall s o, WF m s -> op_many m o -> WF m (next m s o).
Proof. exact WF_step. Qed.
Print Assumptions C02_invariant_step.

(* on the boolean premises the harness evaluates for every case it runs (extracted `run_premises`) *)
Theorem C02_invariant_whenever_the_evaluated_premises_hold :
  forall m ops,
    wf_mmb m = true -> ref_defaults_noneb m = true -> forallb (op_manyb m) ops = true ->
    WF m (reach m ops).
Proof. exact checked_WF. Qed.
Print Assumptions C02_invariant_whenever_the_evaluated_premises_hold.

(* ---------- the containment graph is a forest in every reachable state ---------- *)
From PyecoreV Require Import Proofs.C19Proofs Proofs.C19Once Proofs.Acyclic.

Theorem C02_no_cycle_step :
  forall m, wf_mm m -> forall s o,
  WF m s -> acyclic_cont s -> op_fits m s o -> op_nocycle m s o -> acyclic_cont (next m s o).
Proof. exact acyclic_step. Qed.
Print Assumptions C02_no_cycle_step.

Theorem C02_containers_stay_within_the_universe_step :
  forall m s o, in_universe m s -> op_in_universe m o -> in_universe m (next m s o).
Proof. exact universe_step. Qed.
Print Assumptions C02_containers_stay_within_the_universe_step.

Theorem C02_containment_is_a_forest_in_every_reachable_state :
  forall m, wf_mm m -> ref_defaults_none m -> forall ops,
  fits_history m (init_state m) ops ->
  acyclic_cont (reach m ops) /\
  (forall c p p' f f',
     f_cont (fd m f) = true -> f_cont (fd m f') = true ->
     In (VObj c) (vals (reach m ops) (p, f)) -> In (VObj c) (vals (reach m ops) (p', f')) -> p = p' /\ f = f') /\
  (forall o,
     chain_end (reach m ops) o (root_of (S (length (ocls m))) (reach m ops) o) /\
     cont (reach m ops) (root_of (S (length (ocls m))) (reach m ops) o) = None).
Proof. exact reach_forest. Qed.
Print Assumptions C02_containment_is_a_forest_in_every_reachable_state.

Theorem C02_every_object_reports_its_roots_resource :
  forall m, wf_mm m -> ref_defaults_none m -> forall ops,
  fits_history m (init_state m) ops ->
  forall o r,
    (chain_end (reach m ops) o r -> eresource_of m (reach m ops) o = eres (reach m ops) r) /\
    (cont (reach m ops) r = None -> descends m (reach m ops) r o ->
     eresource_of m (reach m ops) o = eres (reach m ops) r /\
     eresource_of m (reach m ops) o = eresource_of m (reach m ops) r).
Proof. exact reach_reports_roots_resource. Qed.
Print Assumptions C02_every_object_reports_its_roots_resource.

(* the precondition is satisfiable by a history with a re-parenting, a move through the container
   end and Resource.append of a contained object, and decidable *)
Example C02_fits_history_witness :
  fits_history ex_mm_tree (init_state ex_mm_tree) ex_tree_history /\
  fits_b ex_mm_tree (init_state ex_mm_tree) ex_tree_history = true.
Proof. split; [exact (proj1 fits_history_witness) | vm_compute; reflexivity]. Qed.

(* ... and not over-strong: the excluded calls do close a cycle in the model, WF notwithstanding *)
Example C02_cycle_excluded_witness :
  let m := ex_mm_tree in
  let s := reach m [OAppend 0 0 (VObj 1)] in
  (op_ok_b m s (OAppend 0 0 (VObj 0)) = false /\ ~ op_nocycle m s (OAppend 0 0 (VObj 0)) /\
   ~ acyclic_cont (next m s (OAppend 0 0 (VObj 0)))) /\
  (op_ok_b m s (OAppend 1 0 (VObj 0)) = false /\ ~ op_nocycle m s (OAppend 1 0 (VObj 0)) /\
   ~ acyclic_cont (next m s (OAppend 1 0 (VObj 0)))) /\
  (op_ok_b m s (OSet 0 1 (VObj 1)) = false /\ ~ op_nocycle m s (OSet 0 1 (VObj 1)) /\
   ~ acyclic_cont (next m s (OSet 0 1 (VObj 1)))) /\
  WF m (next m s (OAppend 1 0 (VObj 0))).
Proof. exact cycle_excluded. Qed.
Print Assumptions C02_cycle_excluded_witness.

(* ---------- bulk move of contained children: x.f.extend(y.f) ---------- *)
From PyecoreV Require Import Proofs.BulkMove.

Theorem C02_extend_by_another_owners_collection_moves_every_child :
  forall m, wf_mm m -> forall f,
    f_cont (fd m f) = true -> f_many (fd m f) = true -> f_unique (fd m f) = true ->
  forall s x y,
    WF m s -> x <> y ->
    (forall v, In v (vals s (y, f)) -> exists c : oid, v = VObj c) ->
    forallb (check_elem m f) (vals s (y, f)) = true ->
    let s' := next m s (OExtend x f (vals s (y, f))) in
    WF m s' /\
    vals s' (x, f) = vals s (x, f) ++ vals s (y, f) /\
    vals s' (y, f) = [] /\
    (forall c : oid, In (VObj c) (vals s (y, f)) -> cont s' c = Some (x, f)) /\
    (forall c : oid, ~ In (VObj c) (vals s (y, f)) -> cont s' c = cont s c) /\
    (forall (p : oid) (h : fid), f_cont (fd m h) = true -> (p, h) <> (x, f) -> (p, h) <> (y, f) ->
       vals s' (p, h) = vals s (p, h)).
Proof. exact bulk_move. Qed.
Print Assumptions C02_extend_by_another_owners_collection_moves_every_child.

Theorem C02_extend_by_the_own_collection_moves_nothing :
  forall m, wf_mm m -> forall f,
    f_cont (fd m f) = true -> f_many (fd m f) = true -> f_unique (fd m f) = true ->
  forall s x,
    WF m s ->
    (forall v, In v (vals s (x, f)) -> exists c : oid, v = VObj c) ->
    forallb (check_elem m f) (vals s (x, f)) = true ->
    let s' := next m s (OExtend x f (vals s (x, f))) in
    WF m s' /\ vals s' (x, f) = vals s (x, f) /\
    (forall c : oid, cont s' c = cont s c) /\
    (forall (p : oid) (h : fid), f_cont (fd m h) = true -> vals s' (p, h) = vals s (p, h)).
Proof. exact bulk_self. Qed.
Print Assumptions C02_extend_by_the_own_collection_moves_nothing.

(* two A's holding [2; 3] and [4]: b.kids += a.kids, and a.kids += a.kids *)
Example C02_bulk_move_witness :
  let m := ex_mm_bulk in
  let s := fold_left (next m) ex_bulk_ops (init_state m) in
  let s' := next m s (OExtend 1 0 (vals s (0, 0))) in
  let s'' := next m s (OExtend 0 0 (vals s (0, 0))) in
  WF m s /\
  (vals s (0, 0), vals s (1, 0), map (cont s) [2; 3; 4]) =
    ([VObj 2; VObj 3], [VObj 4], [Some (0, 0); Some (0, 0); Some (1, 0)]) /\
  (WF m s' /\ vals s' (1, 0) = vals s (1, 0) ++ vals s (0, 0) /\ vals s' (0, 0) = []) /\
  (vals s' (0, 0), vals s' (1, 0), map (cont s') [2; 3; 4], map (fun c => vals s' (c, 1)) [2; 3; 4]) =
    ([], [VObj 4; VObj 2; VObj 3], [Some (1, 0); Some (1, 0); Some (1, 0)], [[VObj 1]; [VObj 1]; [VObj 1]]) /\
  (vals s'' (0, 0), vals s'' (1, 0), map (cont s'') [2; 3; 4]) =
    ([VObj 2; VObj 3], [VObj 4], [Some (0, 0); Some (0, 0); Some (1, 0)]).
Proof. exact bulk_move_witness. Qed.
Print Assumptions C02_bulk_move_witness.
