(* The cache invariant of Model/MetaEdit.v, for every reachable state (pyecore's
   replacement linearisation installed or not): the linearisation that Python
   caches for every class is what the metaclass computes from the cached
   linearisations of its current bases (local consistency: the C3 merge, or the
   replacement when it is installed and C3 fails), the subclass registry is
   the inverse of the bases relation, and the bases graph is acyclic (GInv).
   From these:
   - every cached linearisation lists exactly the classes reachable through
     the current bases (GInv_MR, closed_caches), in every state;
   - without the replacement (flag = false) the cache is the linearisation
     from scratch over the current bases: `consistent`, the premise of the
     state-level `_partial` theorems of Props/C12.v (GInv_consistent);
   - the visibility / isinstance theorems of MetaEditProofs.v again, from
     closed caches alone, and for whole histories from the empty state.

   The heart is mro_hierarchy's traversal (`hier`): a class, then each
   registered subclass, depth first, without a visited set.  Every visit
   re-establishes local consistency of the visited class and breaks it at
   most for its registered subclasses, which are visited next; hence a
   successful traversal ends with local consistency at every class it visited
   and at every class that had it (hier_lc).  Failures roll back (the model
   returns the old state).  Nothing here depends on side conditions of the
   edits; the model's fuel is shown sufficient (chain_bound). *)
From Coq Require Import String Ascii ZArith Bool List Lia Permutation.
From PyecoreV Require Import Lib.PyBase Lib.PyList Model.C3 Model.Operations Model.MetaEdit Proofs.PyListFacts Proofs.C3Proofs Proofs.OperationsProofs Proofs.MetaEditProofs.
Import ListNotations.
Open Scope Z_scope.

(* ---------- states related class by class ---------- *)

Definition orel2 (R : cls -> cls -> Prop) (a b : option cls) : Prop :=
  match a, b with
  | Some k, Some k' => R k k'
  | None, None => True
  | _, _ => False
  end.

(* same class ids, same flag, classes related by R *)
Definition crel (R : cls -> cls -> Prop) (st st' : state) : Prop :=
  (forall x, orel2 R (getc st x) (getc st' x)) /\ flag st' = flag st /\ nclasses st' = nclasses st.

Lemma crel_refl (R : cls -> cls -> Prop) st : (forall k, R k k) -> crel R st st.
Proof.
  intros Rr. split; [|split; reflexivity]. intros x. unfold orel2. destruct (getc st x); [apply Rr|exact Logic.I].
Qed.

Lemma crel_trans (R : cls -> cls -> Prop) s1 s2 s3 :
  (forall a b c, R a b -> R b c -> R a c) -> crel R s1 s2 -> crel R s2 s3 -> crel R s1 s3.
Proof.
  intros Rt (A1 & A2 & A3) (B1 & B2 & B3). split; [|split; congruence].
  intros x. specialize (A1 x). specialize (B1 x). unfold orel2 in *.
  destruct (getc s1 x), (getc s2 x), (getc s3 x); try tauto. eapply Rt; eauto.
Qed.

Lemma crel_weaken (R R' : cls -> cls -> Prop) st st' :
  (forall a b, R a b -> R' a b) -> crel R st st' -> crel R' st st'.
Proof.
  intros W (A1 & A2 & A3). split; [|split; assumption]. intros x. specialize (A1 x). unfold orel2 in *.
  destruct (getc st x), (getc st' x); auto.
Qed.

Lemma nclasses_setc st c k : nclasses (setc st c k) = nclasses st.
Proof. unfold nclasses, setc. simpl. apply set_at_length. Qed.

Lemma crel_setc (R : cls -> cls -> Prop) st c k k' :
  (forall a, R a a) -> getc st c = Some k -> R k k' -> crel R st (setc st c k').
Proof.
  intros Rr G H. split; [|split; [reflexivity|apply nclasses_setc]].
  intros x. destruct (Z.eq_dec c x) as [E|N].
  - subst. rewrite (getc_setc_same _ _ _ _ G), G. exact H.
  - rewrite (getc_setc_other _ _ _ _ (getc_pos _ _ _ G) N). unfold orel2. destruct (getc st x); [apply Rr|exact Logic.I].
Qed.

Lemma crel_getc (R : cls -> cls -> Prop) st st' x k' :
  crel R st st' -> getc st' x = Some k' -> exists k, getc st x = Some k /\ R k k'.
Proof.
  intros (A & _) G. specialize (A x). rewrite G in A. unfold orel2 in A.
  destruct (getc st x) as [k|]; [|destruct A]. exists k. tauto.
Qed.

Lemma crel_getc_fwd (R : cls -> cls -> Prop) st st' x k :
  crel R st st' -> getc st x = Some k -> exists k', getc st' x = Some k' /\ R k k'.
Proof.
  intros (A & _) G. specialize (A x). rewrite G in A. unfold orel2 in A.
  destruct (getc st' x) as [k'|]; [|destruct A]. exists k'. tauto.
Qed.

(* the three relations used below *)
Definition same_graph (k k' : cls) : Prop :=      (* only the cache may differ *)
  c_bases k' = c_bases k /\ c_subs k' = c_subs k.
Definition same_lin (k k' : cls) : Prop :=        (* only the registry may differ *)
  c_bases k' = c_bases k /\ c_mro k' = c_mro k.
Definition same_py (k k' : cls) : Prop :=         (* the Python side is the same *)
  c_bases k' = c_bases k /\ c_mro k' = c_mro k /\ c_subs k' = c_subs k.

Lemma same_graph_refl k : same_graph k k. Proof. split; reflexivity. Qed.
Lemma same_lin_refl k : same_lin k k. Proof. split; reflexivity. Qed.
Lemma same_py_refl k : same_py k k. Proof. repeat split. Qed.
Lemma same_graph_trans a b c : same_graph a b -> same_graph b c -> same_graph a c.
Proof. unfold same_graph. intuition congruence. Qed.
Lemma same_lin_trans a b c : same_lin a b -> same_lin b c -> same_lin a c.
Proof. unfold same_lin. intuition congruence. Qed.
Lemma same_py_trans a b c : same_py a b -> same_py b c -> same_py a c.
Proof. unfold same_py. intuition congruence. Qed.

Lemma bases_fn_crel (R : cls -> cls -> Prop) st st' :
  (forall a b, R a b -> c_bases b = c_bases a) -> crel R st st' -> forall x, bases_fn st' x = bases_fn st x.
Proof.
  intros HR (A & _) x. specialize (A x). unfold bases_fn, orel2 in *.
  destruct (getc st x), (getc st' x); try tauto. apply HR. assumption.
Qed.

Lemma mro_crel (R : cls -> cls -> Prop) st st' :
  (forall a b, R a b -> c_mro b = c_mro a) -> crel R st st' -> forall x, mro st' x = mro st x.
Proof.
  intros HR (A & _) x. specialize (A x). unfold mro, orel2 in *. destruct (x =? 0); [reflexivity|].
  destruct (getc st x), (getc st' x); try tauto. f_equal. apply HR. assumption.
Qed.

(* ---------- paths in a class graph; the expansion all_bases ---------- *)

Section Chains.
  Variable g : Z -> list Z.

  (* p: the classes after c on a path from c to x along g *)
  Fixpoint chain (c : Z) (p : list Z) (x : Z) : Prop :=
    match p with
    | [] => x = c
    | b :: p' => In b (g c) /\ chain b p' x
    end.

  Lemma reach_chain c x : reach g c x -> exists p, chain c p x.
  Proof.
    induction 1 as [c|c b x Hb _ (p & IH)]; [exists []; reflexivity|].
    exists (b :: p). split; assumption.
  Qed.

  Lemma chain_reach p : forall c x, chain c p x -> reach g c x.
  Proof.
    induction p as [|b p IH]; intros c x H; simpl in H.
    - subst. constructor.
    - destruct H as [Hb H]. eapply reach_step; [exact Hb|]. apply IH. exact H.
  Qed.

  Lemma chain_In_reach p : forall c x y, chain c p x -> In y p -> reach g c y.
  Proof.
    induction p as [|b p IH]; intros c x y H Hy; [destruct Hy|]. simpl in H. destruct H as [Hb H].
    destruct Hy as [Hy|Hy].
    - subst. eapply reach_step; [exact Hb|constructor].
    - eapply reach_step; [exact Hb|]. eapply IH; eauto.
  Qed.

  Lemma flat_map_ext_in {A B} (f f' : A -> list B) l :
    (forall a, In a l -> f a = f' a) -> flat_map f l = flat_map f' l.
  Proof.
    induction l as [|a l IH]; intros H; simpl; [reflexivity|].
    rewrite (H a (or_introl eq_refl)), IH; [reflexivity|]. intros b Hb. apply H. right. exact Hb.
  Qed.

  (* all_bases lists what non-empty paths of bounded length reach *)
  Lemma chain_all_bases f : forall c p x,
    chain c p x -> p <> [] -> (length p <= f)%nat -> In x (all_bases g f c).
  Proof.
    induction f as [|f IH]; intros c p x H Np Len.
    - destruct p; [congruence|simpl in Len; lia].
    - destruct p as [|b p]; [congruence|]. simpl in H. destruct H as [Hb H]. simpl.
      apply in_or_app. destruct p as [|b' p].
      + simpl in H. subst. left. exact Hb.
      + right. apply in_flat_map. exists b. split; [exact Hb|].
        apply (IH b (b' :: p) x H); [discriminate|simpl in *; lia].
  Qed.

  Lemma all_bases_sound f : forall c x, In x (all_bases g f c) -> exists b, In b (g c) /\ reach g b x.
  Proof.
    induction f as [|f IH]; intros c x H; simpl in H; [destruct H|].
    apply in_app_or in H. destruct H as [H|H].
    - exists x. split; [exact H|constructor].
    - apply in_flat_map in H. destruct H as (b & Hb & H). destruct (IH b x H) as (b' & Hb' & R).
      exists b. split; [exact Hb|]. eapply reach_step; eauto.
  Qed.

  (* more fuel than the longest path changes nothing *)
  Lemma all_bases_stable f : forall c,
    (forall p x, chain c p x -> (length p <= f)%nat) -> all_bases g (S f) c = all_bases g f c.
  Proof.
    induction f as [|f IH]; intros c H.
    - assert (E : g c = []).
      { destruct (g c) as [|b r] eqn:E; [reflexivity|]. exfalso.
        assert (Hc : chain c [b] b) by (simpl; rewrite E; split; [left|]; reflexivity).
        specialize (H _ _ Hc). simpl in H. lia. }
      simpl. rewrite E. reflexivity.
    - change (g c ++ flat_map (all_bases g (S f)) (g c) = g c ++ flat_map (all_bases g f) (g c)).
      f_equal. apply flat_map_ext_in. intros b Hb. apply IH. intros p x Hp.
      assert (Hc : chain c (b :: p) x) by (split; assumption). specialize (H _ _ Hc). simpl in H. lia.
  Qed.

  (* the expansion only looks at what c reaches *)
  Lemma all_bases_ext_reach (g' : Z -> list Z) f : forall c,
    (forall y, reach g c y -> g' y = g y) -> all_bases g' f c = all_bases g f c.
  Proof.
    induction f as [|f IH]; intros c H; [reflexivity|]. simpl.
    rewrite (H c (reach_refl g c)). f_equal. apply flat_map_ext_in. intros b Hb. apply IH.
    intros y Hy. apply H. eapply reach_step; eauto.
  Qed.

  (* acyclic graphs: paths do not repeat a class *)
  Variable rk : Z -> nat.
  Hypothesis rk_dec : forall c b, In b (g c) -> (rk b < rk c)%nat.

  Lemma chain_rank p : forall c x y, chain c p x -> In y p -> (rk y < rk c)%nat.
  Proof.
    induction p as [|b p IH]; intros c x y H Hy; [destruct Hy|]. simpl in H. destruct H as [Hb H].
    specialize (rk_dec _ _ Hb). destruct Hy as [Hy|Hy]; [subst; assumption|].
    specialize (IH b x y H Hy). lia.
  Qed.

  Lemma chain_NoDup p : forall c x, chain c p x -> NoDup (c :: p).
  Proof.
    induction p as [|b p IH]; intros c x H.
    - constructor; [intros []|constructor].
    - constructor.
      + intros Hin. pose proof (chain_rank _ _ _ _ H Hin). lia.
      + simpl in H. destruct H as [_ H]. eapply IH; eauto.
  Qed.
End Chains.

Lemma dedup_acc_In (l : list Z) : forall seen x,
  In x (dedup_acc Z.eqb seen l) <-> In x l /\ ~ In x seen.
Proof.
  induction l as [|a l IH]; intros seen x; simpl; [tauto|].
  destruct (memb Z.eqb a seen) eqn:E.
  - apply memb_In in E. rewrite IH. split; [tauto|]. intros [[H|H] N]; [subst; tauto|tauto].
  - apply memb_false_In in E. simpl. rewrite IH, in_app_iff. simpl.
    destruct (Z.eq_dec a x) as [Ex|Nx]; [subst; tauto|]. split.
    + intros [H|[H N]]; [congruence|]. split; [right; assumption|]. intros Hs. apply N. left. assumption.
    + intros [[H|H] N]; [congruence|]. right. split; [assumption|]. intros [Hs|[Hs|[]]]; [tauto|congruence].
Qed.

Lemma zdedup_In l x : In x (zdedup l) <-> In x l.
Proof. unfold zdedup. rewrite dedup_acc_In. simpl. tauto. Qed.

(* ---------- the invariant ---------- *)

(* local consistency of class c: its cached linearisation is what the
   metaclass computes from the cached linearisations of its bases (C3, or the
   replacement when that is installed and C3 fails) *)
Definition lc (st : state) (c : Z) (k : cls) : Prop :=
  linearize_cached st c (c_bases k) = Some (c_mro k).

Definition LCat (st : state) (x : Z) : Prop := forall k, getc st x = Some k -> lc st x k.

(* every class is registered with each of its bases ... *)
Definition subs_complete (st : state) : Prop :=
  forall y ky x, getc st y = Some ky -> In x (c_bases ky) -> x <> 0 ->
    exists kx, getc st x = Some kx /\ In y (c_subs kx).

(* ... and with nothing else *)
Definition subs_sound (st : state) : Prop :=
  forall x kx d, getc st x = Some kx -> In d (c_subs kx) ->
    exists kd, getc st d = Some kd /\ In x (c_bases kd).

(* the bases graph is acyclic: some rank decreases along it *)
Definition ranked (st : state) : Prop :=
  exists rk : Z -> nat, forall x y, In y (bases_fn st x) -> (rk y < rk x)%nat.

Record GInv (st : state) : Prop := {
  g_lc : forall x, LCat st x;
  g_complete : subs_complete st;
  g_sound : subs_sound st;
  g_rank : ranked st
}.

Lemma bases_fn_getc st c k : getc st c = Some k -> bases_fn st c = c_bases k.
Proof. intros G. unfold bases_fn. rewrite G. reflexivity. Qed.

Lemma mro_getc st c k : getc st c = Some k -> mro st c = Some (c_mro k).
Proof.
  intros G. pose proof (getc_pos _ _ _ G) as P. unfold mro. destruct (Z.eqb_spec c 0); [lia|]. rewrite G. reflexivity.
Qed.

Lemma mro_Some_cases st c l :
  mro st c = Some l -> (c = 0 /\ l = [0]) \/ (exists k, getc st c = Some k /\ l = c_mro k).
Proof.
  unfold mro. destruct (Z.eqb_spec c 0) as [E|N].
  - intros H. inversion H. left. tauto.
  - destruct (getc st c) as [k|]; [|discriminate]. intros H. inversion H. right. exists k. tauto.
Qed.

Lemma linearize_cached_cases st c bs l :
  linearize_cached st c bs = Some l ->
  exists ms, map_opt (mro st) bs = Some ms /\
    (linearize c ms bs = Some l \/
     (linearize c ms bs = None /\ flag st = true /\
      l = zdedup (c :: all_bases (bases_fn st) (fuel_of st) c))).
Proof.
  unfold linearize_cached. destruct (map_opt (mro st) bs) as [ms|]; [|discriminate].
  intros H. exists ms. split; [reflexivity|]. destruct (linearize c ms bs) as [l0|].
  - left. exact H.
  - right. destruct (flag st); [|discriminate]. inversion H. tauto.
Qed.

Lemma lc_base_mro st c k b : lc st c k -> In b (c_bases k) -> exists m, mro st b = Some m.
Proof.
  intros H Hb. destruct (linearize_cached_cases _ _ _ _ H) as (ms & Hm & _).
  destruct (map_opt_Some _ _ _ Hm) as [M1 _]. destruct (M1 b Hb) as (m & E & _). exists m. assumption.
Qed.

Lemma zseq_In lo n x : In x (zseq lo n) <-> lo <= x < lo + Z.of_nat n.
Proof.
  revert lo. induction n as [|n IH]; intros lo; simpl zseq.
  - simpl. lia.
  - simpl In. rewrite IH. lia.
Qed.

Lemma zseq_length lo n : length (zseq lo n) = n.
Proof. revert lo. induction n as [|n IH]; intros lo; simpl; [reflexivity|]. rewrite IH. reflexivity. Qed.

Definition valid (st : state) (x : Z) : Prop := x = 0 \/ getc st x <> None.

Lemma valid_range st x : valid st x -> In x (zseq 0 (S (nclasses st))).
Proof.
  intros [E|N]; apply zseq_In.
  - subst. lia.
  - destruct (getc st x) as [k|] eqn:G; [|congruence]. pose proof (getc_pos _ _ _ G) as P.
    unfold getc in G. destruct (Z.leb_spec x 0); [lia|]. apply nth_error_Some_lt in G.
    unfold idx, nclasses in *. lia.
Qed.

Lemma mro_Some_valid st x l : mro st x = Some l -> valid st x.
Proof.
  intros M. destruct (mro_Some_cases _ _ _ M) as [[E _]|(k & G & _)]; [left; assumption|right; congruence].
Qed.

Lemma reach_valid st : (forall x, LCat st x) -> forall c x, reach (bases_fn st) c x -> valid st c -> valid st x.
Proof.
  intros L c x H. induction H as [c|c b x Hb Hr IH]; intros V; [assumption|]. apply IH.
  unfold bases_fn in Hb. destruct (getc st c) as [k|] eqn:G; [|destruct Hb].
  destruct (lc_base_mro _ _ _ _ (L c k G) Hb) as (m & E). eapply mro_Some_valid; eauto.
Qed.

(* no path is longer than the number of classes *)
Lemma chain_bound st (rk : Z -> nat) :
  (forall x, LCat st x) -> (forall x y, In y (bases_fn st x) -> (rk y < rk x)%nat) ->
  forall c p x, valid st c -> chain (bases_fn st) c p x -> (length p <= nclasses st)%nat.
Proof.
  intros L Hrk c p x V H.
  pose proof (chain_NoDup _ rk Hrk p c x H) as ND.
  assert (Len : (length (c :: p) <= length (zseq 0 (S (nclasses st))))%nat).
  { apply NoDup_incl_length; [assumption|]. intros y [Hy|Hy]; apply valid_range.
    - subst. assumption.
    - apply (reach_valid st L c y); [|assumption]. eapply chain_In_reach; eauto. }
  rewrite zseq_length in Len. simpl in Len. lia.
Qed.

(* every cached linearisation lists exactly what the class reaches *)
Theorem GInv_MR st :
  GInv st -> forall c l, mro st c = Some l -> forall x, In x l <-> reach (bases_fn st) c x.
Proof.
  intros [L _ _ (rk & Hrk)].
  assert (H : forall N c l, (rk c < N)%nat -> mro st c = Some l -> forall x, In x l <-> reach (bases_fn st) c x).
  { induction N as [|N IH]; intros c l Hr M x; [lia|].
    destruct (mro_Some_cases _ _ _ M) as [[E1 E2]|(k & G & E)].
    - subst. split.
      + intros [Hx|[]]. subst. constructor.
      + intros R. apply reach_from_root in R; [left; congruence|reflexivity].
    - subst l. pose proof (bases_fn_getc _ _ _ G) as Bg.
      assert (IHb : forall b m, In b (c_bases k) -> mro st b = Some m -> forall y, In y m <-> reach (bases_fn st) b y).
      { intros b m Hb Em. apply IH; [|assumption]. assert (rk b < rk c)%nat by (apply Hrk; rewrite Bg; assumption). lia. }
      destruct (linearize_cached_cases _ _ _ _ (L c k G)) as (ms & Hm & [Hl|(Hl & Ff & El)]);
        destruct (map_opt_Some _ _ _ Hm) as [M1 M2].
      + destruct (C3_perm _ _ _ _ Hl) as (l' & E & _ & I). rewrite E. split.
        * intros [Hx|Hx]; [subst; constructor|]. apply I in Hx. destruct Hx as [Hx|(m & Hm' & Hx)].
          -- eapply reach_step; [rewrite Bg; exact Hx|constructor].
          -- destruct (M2 m Hm') as (b & Hb & Eb). eapply reach_step; [rewrite Bg; exact Hb|].
             apply (IHb b m Hb Eb). assumption.
        * intros R. inversion R as [|c0 b x0 Hb Hbx]; subst; [left; reflexivity|]. right. apply I.
          rewrite Bg in Hb. destruct (M1 b Hb) as (m & Eb & Hm'). right. exists m. split; [assumption|].
          apply (IHb b m Hb Eb). assumption.
      + rewrite El, zdedup_In. split.
        * intros [Hx|Hx]; [subst; constructor|]. destruct (all_bases_sound _ _ _ _ Hx) as (b & Hb & R).
          eapply reach_step; eauto.
        * intros R. inversion R as [|c0 b x0 Hb Hbx]; subst; [left; reflexivity|]. right.
          destruct (reach_chain _ _ _ Hbx) as (p & Hp).
          assert (Hc : chain (bases_fn st) c (b :: p) x) by (split; assumption).
          apply (chain_all_bases _ _ c (b :: p) x Hc); [discriminate|].
          assert (V : valid st c) by (right; congruence).
          pose proof (chain_bound st rk L Hrk c (b :: p) x V Hc). unfold fuel_of. lia. }
  intros c l M x. apply (H (S (rk c)) c l); [lia|assumption].
Qed.

(* ---------- without the replacement: the cache is the linearisation from scratch ---------- *)

Lemma lc_noflag st c k :
  flag st = false -> lc st c k ->
  exists ms, map_opt (mro st) (c_bases k) = Some ms /\ linearize c ms (c_bases k) = Some (c_mro k).
Proof.
  intros F H. destruct (linearize_cached_cases _ _ _ _ H) as (ms & Hm & [Hl|(_ & Ff & _)]); [|congruence].
  exists ms. tauto.
Qed.

Lemma lc_shape st c k :
  flag st = false -> lc st c k -> exists l', c_mro k = c :: l' /\ NoDup l' /\
    (forall b m x, In b (c_bases k) -> mro st b = Some m -> In x m -> In x l').
Proof.
  intros F H. destruct (lc_noflag _ _ _ F H) as (ms & Hm & Hl).
  destruct (C3_perm _ _ _ _ Hl) as (l' & E & ND & I).
  exists l'. split; [assumption|]. split; [assumption|].
  intros b m x Hb Eb Hx. apply I. right. exists m. split; [|assumption].
  destruct (map_opt_Some _ _ _ Hm) as [M1 _]. destruct (M1 b Hb) as (m' & E' & Hm'). congruence.
Qed.

Lemma lc_mro_of st (rk : Z -> nat) :
  flag st = false -> (forall x, LCat st x) -> (forall x y, In y (bases_fn st x) -> (rk y < rk x)%nat) ->
  forall F c l, mro st c = Some l -> (rk c < F)%nat -> mro_of (bases_fn st) false F c = Some l.
Proof.
  intros Ff L Hrk. induction F as [|F IH]; intros c l M Hr; [lia|].
  cbn [mro_of]. destruct (mro_Some_cases _ _ _ M) as [[E1 E2]|(k & G & E)].
  - subst. reflexivity.
  - subst l. rewrite (bases_fn_getc _ _ _ G). destruct (lc_noflag _ _ _ Ff (L c k G)) as (ms & Hm & Hl).
    rewrite (map_opt_ext _ (mro st) (c_bases k)).
    + rewrite Hm, Hl. reflexivity.
    + intros b Hb. destruct (lc_base_mro _ _ _ _ (L c k G) Hb) as (m & Eb). rewrite Eb. apply IH; [assumption|].
      assert (rk b < rk c)%nat by (apply Hrk; rewrite (bases_fn_getc _ _ _ G); assumption). lia.
Qed.

Definition lrk (st : state) (x : Z) : nat :=
  match mro st x with Some l => length l | None => O end.

Lemma GInv_cache_facts st c l :
  GInv st -> flag st = false -> mro st c = Some l ->
  NoDup l /\ (length l <= S (nclasses st))%nat.
Proof.
  intros GI Ff M. pose proof GI as [L _ _ (rk & Hrk)].
  pose proof (lc_mro_of st rk Ff L Hrk (S (rk c)) c l M (Nat.lt_succ_diag_r _)) as Sp.
  pose proof (mro_of_NoDup _ rk Hrk _ _ _ Sp) as ND.
  split; [assumption|].
  rewrite <- (zseq_length 0 (S (nclasses st))). apply NoDup_incl_length; [assumption|].
  intros x Hx. apply valid_range. apply (reach_valid st L c x); [apply (GInv_MR st GI c l M); assumption|].
  eapply mro_Some_valid; eauto.
Qed.

Lemma lrk_decreases st :
  GInv st -> flag st = false -> forall x y, In y (bases_fn st x) -> (lrk st y < lrk st x)%nat.
Proof.
  intros GI Ff x y Hy. unfold bases_fn in Hy. destruct (getc st x) as [k|] eqn:G; [|destruct Hy].
  pose proof (g_lc _ GI x k G) as Lx. destruct (lc_base_mro _ _ _ _ Lx Hy) as (m & Em).
  destruct (lc_shape _ _ _ Ff Lx) as (l' & E & ND' & Sub).
  destruct (GInv_cache_facts _ _ _ GI Ff Em) as (NDm & _).
  unfold lrk. rewrite Em, (mro_getc _ _ _ G), E. simpl.
  assert (length m <= length l')%nat; [|lia].
  apply NoDup_incl_length; [assumption|]. intros z Hz. eapply Sub; eauto.
Qed.

(* the premise of the state-level _partial theorems of Props/C12.v *)
Theorem GInv_consistent st : GInv st -> flag st = false -> consistent st.
Proof.
  intros GI F c l M. unfold mro_spec. rewrite F.
  apply (lc_mro_of st (lrk st) F (g_lc _ GI) (lrk_decreases _ GI F)); [assumption|].
  destruct (GInv_cache_facts _ _ _ GI F M) as (_ & Len).
  unfold lrk, fuel_of. rewrite M. lia.
Qed.

Lemma GInv_empty fl : GInv (empty_state fl).
Proof.
  assert (N : forall x, getc (empty_state fl) x = None).
  { intros x. unfold getc, empty_state. simpl. destruct (x <=? 0); [reflexivity|]. destruct (idx x); reflexivity. }
  constructor.
  - intros x k G. rewrite N in G. discriminate.
  - intros y ky x G. rewrite N in G. discriminate.
  - intros x kx d G. rewrite N in G. discriminate.
  - exists (fun _ => O). intros x y H. unfold bases_fn in H. rewrite N in H. destruct H.
Qed.

(* ---------- the invariant only looks at the Python side of the classes ---------- *)

(* what linearize_cached depends on *)
Lemma linearize_cached_ext st st' c bs :
  (forall b, In b bs -> mro st' b = mro st b) ->
  (forall y, reach (bases_fn st) c y -> bases_fn st' y = bases_fn st y) ->
  nclasses st' = nclasses st -> flag st' = flag st ->
  linearize_cached st' c bs = linearize_cached st c bs.
Proof.
  intros Hm Hb Hn Hf. unfold linearize_cached. rewrite (map_opt_ext _ (mro st) bs Hm).
  destruct (map_opt (mro st) bs) as [ms|]; [|reflexivity].
  destruct (linearize c ms bs); [reflexivity|]. rewrite Hf. unfold fuel_of. rewrite Hn.
  rewrite (all_bases_ext_reach (bases_fn st) (bases_fn st') _ c Hb). reflexivity.
Qed.

Lemma lc_crel st st' x k k' :
  crel same_lin st st' -> same_lin k k' -> lc st x k -> lc st' x k'.
Proof.
  intros C (E1 & E2) H. unfold lc in *. rewrite E1, E2, <- H. apply linearize_cached_ext.
  - intros b _. apply (mro_crel same_lin); [|assumption]. intros a b0 [_ Hx]. exact Hx.
  - intros y _. apply (bases_fn_crel same_lin); [|assumption]. intros a b0 [Hx _]. exact Hx.
  - destruct C as (_ & _ & Hn). exact Hn.
  - destruct C as (_ & Hf & _). exact Hf.
Qed.

Lemma LCat_crel st st' x : crel same_lin st st' -> LCat st x -> LCat st' x.
Proof.
  intros C L k' G'. destruct (crel_getc _ _ _ _ _ C G') as (k & G & R).
  eapply lc_crel; eauto.
Qed.

Lemma same_py_lin a b : same_py a b -> same_lin a b.
Proof. intros (H1 & H2 & _). split; assumption. Qed.
Lemma same_py_graph a b : same_py a b -> same_graph a b.
Proof. intros (H1 & _ & H3). split; assumption. Qed.

Lemma ranked_bases st st' : (forall x, bases_fn st' x = bases_fn st x) -> ranked st -> ranked st'.
Proof. intros E (rk & H). exists rk. intros x y Hy. rewrite E in Hy. auto. Qed.

Lemma subs_complete_crel st st' : crel same_graph st st' -> subs_complete st -> subs_complete st'.
Proof.
  intros C H y ky' x G' Hx N. destruct (crel_getc _ _ _ _ _ C G') as (ky & G & (E1 & E2)).
  rewrite E1 in Hx. destruct (H y ky x G Hx N) as (kx & Gx & Hy).
  destruct (crel_getc_fwd _ _ _ _ _ C Gx) as (kx' & Gx' & (F1 & F2)). exists kx'. rewrite F2. tauto.
Qed.

Lemma subs_sound_crel st st' : crel same_graph st st' -> subs_sound st -> subs_sound st'.
Proof.
  intros C H x kx' d G' Hd. destruct (crel_getc _ _ _ _ _ C G') as (kx & G & (E1 & E2)).
  rewrite E2 in Hd. destruct (H x kx d G Hd) as (kd & Gd & Hx).
  destruct (crel_getc_fwd _ _ _ _ _ C Gd) as (kd' & Gd' & (F1 & F2)). exists kd'. rewrite F1. tauto.
Qed.

Lemma GInv_crel st st' : crel same_py st st' -> GInv st -> GInv st'.
Proof.
  intros C [L Co So Rk].
  pose proof (crel_weaken _ _ _ _ same_py_lin C) as C1.
  pose proof (crel_weaken _ _ _ _ same_py_graph C) as C2.
  constructor.
  - intros x. eapply LCat_crel; eauto.
  - eapply subs_complete_crel; eauto.
  - eapply subs_sound_crel; eauto.
  - eapply ranked_bases; [|exact Rk]. apply (bases_fn_crel same_py); [|assumption]. intros a b (H & _). exact H.
Qed.

(* ---------- mro_hierarchy ---------- *)

Lemma mro_setc_other st c k' b : 0 < c -> c <> b -> mro (setc st c k') b = mro st b.
Proof. intros P N. unfold mro. rewrite getc_setc_other by assumption. reflexivity. Qed.

Lemma fold_obind_None {A} (h : state -> A -> option state) ds :
  fold_left (fun acc d => obind acc (fun s => h s d)) ds None = None.
Proof. induction ds as [|d r IH]; simpl; [reflexivity|assumption]. Qed.

Definition irrefl (st : state) : Prop := forall x k, getc st x = Some k -> ~ In x (c_bases k).

Lemma irrefl_crel st st' : crel same_graph st st' -> irrefl st -> irrefl st'.
Proof.
  intros C H x k' G'. destruct (crel_getc _ _ _ _ _ C G') as (k & G & (E1 & _)). rewrite E1. eapply H; eauto.
Qed.

(* x is c or a registered subclass of ... of c: what the traversal from c visits *)
Inductive subreach (st : state) : Z -> Z -> Prop :=
| sr_refl c : subreach st c c
| sr_step c k d x : getc st c = Some k -> In d (c_subs k) -> subreach st d x -> subreach st c x.

Lemma subreach_crel st st' c x : crel same_graph st st' -> subreach st c x -> subreach st' c x.
Proof.
  intros C H. induction H as [c|c k d x G Hd _ IH]; [constructor|].
  destruct (crel_getc_fwd _ _ _ _ _ C G) as (k' & G' & (_ & E2)).
  eapply sr_step; [exact G'|rewrite E2; exact Hd|exact IH].
Qed.

Lemma subreach_snoc st c b kb x :
  subreach st c b -> getc st b = Some kb -> In x (c_subs kb) -> subreach st c x.
Proof.
  intros H. induction H as [c|c k d b G Hd _ IH]; intros Gb Hx.
  - eapply sr_step; [exact Gb|exact Hx|constructor].
  - eapply sr_step; [exact G|exact Hd|]. apply IH; assumption.
Qed.

Section Hier.
  (* D: the classes the traversal may visit.  For them the registry must be
     complete; the class being re-based is not yet registered with its new
     bases, which are outside D *)
  Variable D : Z -> Prop.

  Definition Dclosed (st : state) : Prop :=
    forall x kx d, getc st x = Some kx -> D x -> In d (c_subs kx) -> D d.
  Definition Dcomplete (st : state) : Prop :=
    forall y ky x, getc st y = Some ky -> In x (c_bases ky) -> D x ->
      exists kx, getc st x = Some kx /\ In y (c_subs kx).

  Lemma Dclosed_crel st st' : crel same_graph st st' -> Dclosed st -> Dclosed st'.
  Proof.
    intros C H x kx' d G' Dx Hd. destruct (crel_getc _ _ _ _ _ C G') as (kx & G & (_ & E2)).
    rewrite E2 in Hd. eapply H; eauto.
  Qed.

  Lemma Dcomplete_crel st st' : crel same_graph st st' -> Dcomplete st -> Dcomplete st'.
  Proof.
    intros C H y ky' x G' Hx Dx. destruct (crel_getc _ _ _ _ _ C G') as (ky & G & (E1 & _)).
    rewrite E1 in Hx. destruct (H y ky x G Hx Dx) as (kx & Gx & Hy).
    destruct (crel_getc_fwd _ _ _ _ _ C Gx) as (kx' & Gx' & (_ & F2)). exists kx'. rewrite F2. tauto.
  Qed.

  (* a successful traversal from d: only caches change; every class it visits
     ends up locally consistent, and so does every class that was *)
  Definition hier_post (h : state -> Z -> option state) : Prop :=
    forall s d s', Dclosed s -> Dcomplete s -> irrefl s -> D d -> h s d = Some s' ->
      crel same_graph s s' /\ forall x, (subreach s d x \/ LCat s x) -> LCat s' x.

  Lemma fold_lc (h : state -> Z -> option state) :
    hier_post h ->
    forall ds s0 s', (forall d, In d ds -> D d) -> Dclosed s0 -> Dcomplete s0 -> irrefl s0 ->
      fold_left (fun acc d => obind acc (fun s => h s d)) ds (Some s0) = Some s' ->
      crel same_graph s0 s' /\
      forall x, ((exists d, In d ds /\ subreach s0 d x) \/ LCat s0 x) -> LCat s' x.
  Proof.
    intros Hh. induction ds as [|d r IH]; intros s0 s' HD Cl Co Ir H; simpl in H.
    - inversion H; subst. split; [apply crel_refl; apply same_graph_refl|].
      intros x [(d & [] & _)|L]. assumption.
    - destruct (h s0 d) as [s1|] eqn:E; [|rewrite fold_obind_None in H; discriminate].
      destruct (Hh s0 d s1 Cl Co Ir (HD d (or_introl eq_refl)) E) as [C1 P1].
      destruct (IH s1 s' (fun x Hx => HD x (or_intror Hx))
                   (Dclosed_crel _ _ C1 Cl) (Dcomplete_crel _ _ C1 Co) (irrefl_crel _ _ C1 Ir) H) as [C2 P2].
      split; [eapply crel_trans; [exact same_graph_trans|exact C1|exact C2]|].
      intros x [(d' & [Ed|Hd] & Sr)|L].
      + subst d'. apply P2. right. apply P1. left. exact Sr.
      + apply P2. left. exists d'. split; [exact Hd|]. eapply subreach_crel; eauto.
      + apply P2. right. apply P1. right. assumption.
  Qed.

  Lemma lcached_setc_mro st c k l x bs :
    getc st c = Some k -> ~ In c bs ->
    linearize_cached (setc st c (with_mro l k)) x bs = linearize_cached st x bs.
  Proof.
    intros G NB. pose proof (getc_pos _ _ _ G) as P.
    assert (C0 : crel same_graph st (setc st c (with_mro l k))).
    { apply (crel_setc same_graph _ _ k); [exact same_graph_refl|assumption|split; reflexivity]. }
    apply linearize_cached_ext.
    - intros b Hb. apply mro_setc_other; [assumption|]. intros E. subst b. exact (NB Hb).
    - intros y _. apply (bases_fn_crel same_graph); [|assumption]. intros a b0 [Hx _]. exact Hx.
    - apply nclasses_setc.
    - reflexivity.
  Qed.

  Lemma hier_lc fuel : hier_post (hier fuel).
  Proof.
    induction fuel as [|f IH]; intros st c st' Cl Co Ir Dc H; [discriminate|].
    simpl in H. destruct (getc st c) as [k|] eqn:G; [|discriminate].
    destruct (linearize_cached st c (c_bases k)) as [l|] eqn:E; [|discriminate].
    pose proof (getc_pos _ _ _ G) as P.
    set (st0 := setc st c (with_mro l k)) in *.
    assert (C0 : crel same_graph st st0).
    { apply (crel_setc same_graph _ _ k); [exact same_graph_refl|assumption|split; reflexivity]. }
    assert (L0 : LCat st0 c).
    { intros k0 G0. unfold st0 in G0. rewrite (getc_setc_same _ _ _ _ G) in G0. inversion G0; subst k0.
      unfold lc, st0. simpl c_bases. simpl c_mro. rewrite (lcached_setc_mro _ _ _ _ _ _ G (Ir c k G)). exact E. }
    destruct (fold_lc (hier f) IH (c_subs k) st0 st' (fun d Hd => Cl c k d G Dc Hd)
                (Dclosed_crel _ _ C0 Cl) (Dcomplete_crel _ _ C0 Co) (irrefl_crel _ _ C0 Ir) H) as [C1 P1].
    split; [eapply crel_trans; [exact same_graph_trans|exact C0|exact C1]|].
    intros x [Sr|L].
    - inversion Sr as [|c0 k0 d x0 G0 Hd Sd]; subst.
      + apply P1. right. exact L0.
      + rewrite G in G0. inversion G0; subst k0. apply P1. left. exists d. split; [exact Hd|].
        eapply subreach_crel; eauto.
    - destruct (Z.eq_dec x c) as [Ex|Nx]; [subst x; apply P1; right; exact L0|].
      destruct (getc st x) as [kx|] eqn:Gx.
      + destruct (in_dec Z.eq_dec c (c_bases kx)) as [Hin|Hnin].
        * destruct (Co x kx c Gx Hin Dc) as (kc & Gc & Hs). rewrite G in Gc. inversion Gc; subst kc.
          apply P1. left. exists x. split; [exact Hs|constructor].
        * apply P1. right. intros kx0 Gx0. unfold st0 in Gx0.
          rewrite getc_setc_other in Gx0 by (try assumption; congruence).
          rewrite Gx in Gx0. inversion Gx0; subst kx0.
          unfold lc, st0. rewrite (lcached_setc_mro _ _ _ _ _ _ G Hnin). exact (L kx Gx).
      + intros k' G'. destruct (crel_getc _ _ _ _ _ (crel_trans _ _ _ _ same_graph_trans C0 C1) G') as (k0 & G0 & _).
        congruence.
  Qed.
End Hier.

(* ---------- the subclass registrations move ---------- *)

Lemma getc_upd_cls_same st x f : getc (upd_cls st x f) x = option_map f (getc st x).
Proof.
  unfold upd_cls. destruct (getc st x) as [k|] eqn:G; simpl.
  - apply (getc_setc_same _ _ _ _ G).
  - assumption.
Qed.

Lemma getc_upd_cls_other st b x f : b <> x -> getc (upd_cls st b f) x = getc st x.
Proof.
  intros N. unfold upd_cls. destruct (getc st b) as [k|] eqn:G; [|reflexivity].
  apply getc_setc_other; [eapply getc_pos; eauto|assumption].
Qed.

Lemma flag_upd_cls st b f : flag (upd_cls st b f) = flag st.
Proof. unfold upd_cls. destruct (getc st b); reflexivity. Qed.

Lemma nclasses_upd_cls st b f : nclasses (upd_cls st b f) = nclasses st.
Proof. unfold upd_cls. destruct (getc st b); [apply nclasses_setc|reflexivity]. Qed.

Lemma iter_shift {A} (f : A -> A) m x : Nat.iter (S m) f x = Nat.iter m f (f x).
Proof. induction m as [|m IH]; [reflexivity|]. simpl in *. rewrite IH. reflexivity. Qed.

Lemma fold_upd_getc (F : cls -> cls) l : forall st x,
  exists m, getc (fold_left (fun s b => upd_cls s b F) l st) x = option_map (Nat.iter m F) (getc st x) /\
            ((0 < m)%nat <-> In x l).
Proof.
  induction l as [|b r IH]; intros st x; simpl.
  - exists O. split; [destruct (getc st x); reflexivity|]. split; [lia|intros []].
  - destruct (IH (upd_cls st b F) x) as (m & E & Hm). destruct (Z.eq_dec b x) as [Eb|Nb].
    + subst b. exists (S m). split; [|split; [left; reflexivity|lia]].
      rewrite E, getc_upd_cls_same. destruct (getc st x); simpl; [|reflexivity].
      f_equal. rewrite <- iter_shift. reflexivity.
    + exists m. split; [rewrite E, getc_upd_cls_other by assumption; reflexivity|].
      rewrite Hm. split; [intros H; right; assumption|intros [H|H]; [congruence|assumption]].
Qed.

Lemma fold_upd_flag (F : cls -> cls) l : forall st,
  flag (fold_left (fun s b => upd_cls s b F) l st) = flag st /\
  nclasses (fold_left (fun s b => upd_cls s b F) l st) = nclasses st.
Proof.
  induction l as [|b r IH]; intros st; simpl; [split; reflexivity|].
  destruct (IH (upd_cls st b F)) as [H1 H2]. rewrite H1, H2, flag_upd_cls, nclasses_upd_cls. split; reflexivity.
Qed.

Definition Frem (c : Z) (k : cls) : cls := with_subs (filter (fun x => negb (x =? c)) (c_subs k)) k.
Definition Fadd (c : Z) (k : cls) : cls := with_subs (c_subs k ++ [c]) k.

Lemma iter_Frem c m k :
  same_lin k (Nat.iter m (Frem c) k) /\
  forall y, In y (c_subs (Nat.iter m (Frem c) k)) <-> In y (c_subs k) /\ (m = O \/ y <> c).
Proof.
  induction m as [|m [IH1 IH2]]; simpl.
  - split; [apply same_lin_refl|]. intros y. tauto.
  - split; [destruct IH1 as [A B]; split; simpl; assumption|].
    intros y. simpl. rewrite filter_In, IH2. rewrite negb_true_iff, Z.eqb_neq. split.
    + intros [[H _] N]. split; [assumption|right; assumption].
    + intros [H [N|N]]; [discriminate|]. tauto.
Qed.

Lemma iter_Fadd c m k :
  same_lin k (Nat.iter m (Fadd c) k) /\
  forall y, In y (c_subs (Nat.iter m (Fadd c) k)) <-> In y (c_subs k) \/ ((0 < m)%nat /\ y = c).
Proof.
  induction m as [|m [IH1 IH2]]; simpl.
  - split; [apply same_lin_refl|]. intros y. split; [tauto|]. intros [H|[H _]]; [assumption|lia].
  - split; [destruct IH1 as [A B]; split; simpl; assumption|].
    intros y. simpl. rewrite in_app_iff, IH2. simpl. split.
    + intros [[H|[_ H]]|[H|[]]]; [left; assumption|right; split; [lia|assumption]|right; split; [lia|congruence]].
    + intros [H|[_ H]]; [left; left; assumption|right; left; congruence].
Qed.

Lemma remove_sub_spec c olds st :
  crel same_lin st (remove_sub c olds st) /\
  forall x k k', getc st x = Some k -> getc (remove_sub c olds st) x = Some k' ->
    forall y, In y (c_subs k') <-> In y (c_subs k) /\ (~ In x olds \/ y <> c).
Proof.
  unfold remove_sub. change (fun k => with_subs (filter (fun x => negb (x =? c)) (c_subs k)) k) with (Frem c).
  destruct (fold_upd_flag (Frem c) olds st) as [Hf Hn]. split.
  - split; [|split; assumption]. intros x. destruct (fold_upd_getc (Frem c) olds st x) as (m & E & _).
    rewrite E. unfold orel2. destruct (getc st x) as [k|]; simpl; [|exact Logic.I]. apply iter_Frem.
  - intros x k k' G G' y. destruct (fold_upd_getc (Frem c) olds st x) as (m & E & Hm).
    rewrite E, G in G'. simpl in G'. inversion G'; subst k'.
    destruct (iter_Frem c m k) as [_ H]. rewrite H. split; intros [H1 H2]; (split; [assumption|]).
    + destruct H2 as [H2|H2]; [left; rewrite <- Hm; lia|right; assumption].
    + destruct H2 as [H2|H2]; [left|right; assumption]. destruct m; [reflexivity|]. exfalso. apply H2. apply Hm. lia.
Qed.

Lemma add_sub_spec c news st :
  crel same_lin st (add_sub c news st) /\
  forall x k k', getc st x = Some k -> getc (add_sub c news st) x = Some k' ->
    forall y, In y (c_subs k') <-> In y (c_subs k) \/ (In x news /\ y = c).
Proof.
  unfold add_sub. change (fun k => with_subs (c_subs k ++ [c]) k) with (Fadd c).
  destruct (fold_upd_flag (Fadd c) news st) as [Hf Hn]. split.
  - split; [|split; assumption]. intros x. destruct (fold_upd_getc (Fadd c) news st x) as (m & E & _).
    rewrite E. unfold orel2. destruct (getc st x) as [k|]; simpl; [|exact Logic.I]. apply iter_Fadd.
  - intros x k k' G G' y. destruct (fold_upd_getc (Fadd c) news st x) as (m & E & Hm).
    rewrite E, G in G'. simpl in G'. inversion G'; subst k'.
    destruct (iter_Fadd c m k) as [_ H]. rewrite H, Hm. tauto.
Qed.

(* ---------- __bases__ assignment ---------- *)

(* c occurs in the cached linearisation of x: the cycle check of type_set_bases *)
Definition cache_in (st : state) (c x : Z) : bool :=
  match mro st x with Some l => zmem c l | None => false end.

Lemma assign_unfold st c bs st' :
  assign st c bs = Some st' ->
  exists k st2, getc st c = Some k /\ (forall b, In b bs -> cache_in st c b = false) /\
    hier (fuel_of st) (setc st c (with_bases bs k)) c = Some st2 /\
    st' = add_sub c bs (remove_sub c (c_bases k) st2).
Proof.
  unfold assign. destruct (getc st c) as [k|]; [|discriminate].
  destruct (existsb _ bs) eqn:E; [discriminate|].
  destruct (hier (fuel_of st) (setc st c (with_bases bs k)) c) as [st2|] eqn:Hh; [|discriminate].
  intros H. inversion H; subst. exists k, st2. split; [reflexivity|]. split; [|split; [exact Hh|reflexivity]].
  intros b Hb. destruct (cache_in st c b) eqn:Ec; [|reflexivity].
  rewrite <- E. symmetry. apply existsb_exists. exists b. split; [assumption|exact Ec].
Qed.

(* with the invariant, the check is about the graph *)
Lemma cache_in_reach st c x :
  GInv st -> valid st x -> (cache_in st c x = true <-> reach (bases_fn st) x c).
Proof.
  intros GI V. unfold cache_in.
  assert (M : exists l, mro st x = Some l).
  { destruct V as [E|N]; [subst; exists [0]; reflexivity|].
    destruct (getc st x) as [k|] eqn:G; [|congruence]. exists (c_mro k). apply mro_getc. exact G. }
  destruct M as (l & M). rewrite M, zmem_In. apply (GInv_MR st GI x l M).
Qed.

Lemma cache_in_valid st c x : cache_in st c x = true -> valid st x.
Proof. unfold cache_in. destruct (mro st x) as [l|] eqn:M; [|discriminate]. intros _. eapply mro_Some_valid; eauto. Qed.

Lemma cache_in_self st c k : GInv st -> getc st c = Some k -> cache_in st c c = true.
Proof. intros GI G. apply cache_in_reach; [assumption|right; congruence|constructor]. Qed.

(* descendants of c stay descendants along a bases edge *)
Lemma cache_in_up st c d kd x :
  GInv st -> getc st d = Some kd -> In x (c_bases kd) -> cache_in st c x = true -> cache_in st c d = true.
Proof.
  intros GI G Hx Hc. apply cache_in_reach; [assumption|right; congruence|].
  eapply reach_step; [rewrite (bases_fn_getc _ _ _ G); exact Hx|].
  apply (cache_in_reach st c x GI (cache_in_valid _ _ _ Hc)). exact Hc.
Qed.

Lemma cache_in_zero st c : 0 < c -> cache_in st c 0 = false.
Proof.
  intros P. unfold cache_in. change (mro st 0) with (Some [0]). apply zmem_false. intros [H|[]]. lia.
Qed.

Lemma list_max_In (l : list nat) n : In n l -> (n <= list_max l)%nat.
Proof.
  intros H. pose proof (proj1 (list_max_le l (list_max l)) (Nat.le_refl _)) as Fa.
  rewrite Forall_forall in Fa. apply Fa. assumption.
Qed.

(* the new graph is acyclic: the descendants of c are lifted above the new bases *)
Lemma rebase_ranked st c k bs :
  GInv st -> getc st c = Some k -> (forall b, In b bs -> cache_in st c b = false) ->
  exists rk' : Z -> nat,
    forall x y, In y (if Z.eq_dec x c then bs else bases_fn st x) -> (rk' y < rk' x)%nat.
Proof.
  intros GI G Hchk. pose proof GI as [L _ _ (rk & Hrk)].
  set (K := S (list_max (map rk bs))).
  exists (fun x => if cache_in st c x then (rk x + K)%nat else rk x).
  intros x y Hy. destruct (Z.eq_dec x c) as [E|N].
  - subst x. rewrite (cache_in_self _ _ _ GI G), (Hchk y Hy).
    assert (rk y <= list_max (map rk bs))%nat by (apply list_max_In; apply in_map; assumption).
    unfold K. lia.
  - pose proof (Hrk x y Hy) as Lt. unfold bases_fn in Hy. destruct (getc st x) as [kx|] eqn:Gx; [|destruct Hy].
    destruct (cache_in st c y) eqn:Ey.
    + rewrite (cache_in_up _ _ _ _ _ GI Gx Hy Ey). lia.
    + destruct (cache_in st c x); lia.
Qed.

(* what reaches c is visited by the traversal from c *)
Lemma reach_subreach st c :
  subs_complete st -> 0 < c -> forall x, reach (bases_fn st) x c -> subreach st c x.
Proof.
  intros Co P x H. induction H as [c|x b c Hb Hr IH]; [constructor|].
  unfold bases_fn in Hb. destruct (getc st x) as [kx|] eqn:Gx; [|destruct Hb].
  assert (N0 : b <> 0).
  { intros E0. subst b. apply reach_from_root in Hr; [lia|reflexivity]. }
  destruct (Co x kx b Gx Hb N0) as (kb & Gb & Hx).
  eapply subreach_snoc; [apply IH; assumption|exact Gb|exact Hx].
Qed.

Lemma crel_flag (R : cls -> cls -> Prop) st st' : crel R st st' -> flag st' = flag st.
Proof. intros (_ & H & _). exact H. Qed.

Lemma crel_nclasses (R : cls -> cls -> Prop) st st' : crel R st st' -> nclasses st' = nclasses st.
Proof. intros (_ & _ & H). exact H. Qed.

Lemma same_graph_bases a b : same_graph a b -> c_bases b = c_bases a.
Proof. intros [H _]. exact H. Qed.
Lemma same_lin_bases a b : same_lin a b -> c_bases b = c_bases a.
Proof. intros [H _]. exact H. Qed.

(* a successful assignment keeps the invariant *)
Lemma subreach_setc_bases st c k bs c0 x :
  getc st c = Some k -> subreach st c0 x -> subreach (setc st c (with_bases bs k)) c0 x.
Proof.
  intros G H. pose proof (getc_pos _ _ _ G) as P. induction H as [c0|c0 k0 d x G0 Hd _ IH]; [constructor|].
  destruct (Z.eq_dec c c0) as [E|N].
  - subst c0. rewrite G in G0. inversion G0; subst k0.
    eapply sr_step; [apply (getc_setc_same _ _ _ _ G)|exact Hd|exact IH].
  - eapply sr_step; [rewrite getc_setc_other by assumption; exact G0|exact Hd|exact IH].
Qed.

Theorem assign_GInv st c bs st' :
  GInv st -> assign st c bs = Some st' ->
  GInv st' /\ flag st' = flag st /\ nclasses st' = nclasses st.
Proof.
  intros GI A. destruct (assign_unfold _ _ _ _ A) as (k & st2 & G & Hchk & Hh & E).
  pose proof GI as [L Co So Rk]. pose proof (getc_pos _ _ _ G) as P.
  set (st1 := setc st c (with_bases bs k)) in *.
  assert (G1 : forall x, getc st1 x = if Z.eq_dec x c then Some (with_bases bs k) else getc st x).
  { intros x. unfold st1. destruct (Z.eq_dec x c) as [Ex|Nx].
    - subst x. apply (getc_setc_same _ _ _ _ G).
    - apply getc_setc_other; [assumption|congruence]. }
  assert (M1 : forall x, mro st1 x = mro st x).
  { intros x. apply (mro_setc _ _ k); [assumption|reflexivity]. }
  set (D := fun x => cache_in st c x = true).
  assert (Dc : D c) by (exact (cache_in_self _ _ _ GI G)).
  assert (S1 : forall x kx, getc st1 x = Some kx ->
               exists kx0, getc st x = Some kx0 /\ c_subs kx0 = c_subs kx).
  { intros x kx Gx. rewrite G1 in Gx. destruct (Z.eq_dec x c) as [Ex|Nx].
    - subst x. inversion Gx; subst kx. exists k. split; [assumption|reflexivity].
    - exists kx. split; [assumption|reflexivity]. }
  assert (Cl1 : Dclosed D st1).
  { intros x kx d Gx Dx Hd. destruct (S1 _ _ Gx) as (kx0 & Gx0 & Es). rewrite <- Es in Hd.
    destruct (So x kx0 d Gx0 Hd) as (kd & Gd & Hx). exact (cache_in_up _ _ _ _ _ GI Gd Hx Dx). }
  assert (Co1 : Dcomplete D st1).
  { intros y ky x Gy Hx Dx. rewrite G1 in Gy. destruct (Z.eq_dec y c) as [Ey|Ny].
    - inversion Gy; subst ky. simpl in Hx. unfold D in Dx. rewrite (Hchk x Hx) in Dx. discriminate.
    - assert (N0 : x <> 0).
      { intros E0. subst x. unfold D in Dx. rewrite cache_in_zero in Dx by assumption. discriminate. }
      destruct (Co y ky x Gy Hx N0) as (kx & Gx & Hy). rewrite G1. destruct (Z.eq_dec x c) as [Ex|Nx].
      + subst x. rewrite G in Gx. inversion Gx; subst kx. exists (with_bases bs k). split; [reflexivity|exact Hy].
      + exists kx. split; assumption. }
  destruct (rebase_ranked _ _ _ bs GI G Hchk) as (rk' & Hrk').
  assert (B1 : forall x, bases_fn st1 x = if Z.eq_dec x c then bs else bases_fn st x).
  { intros x. unfold bases_fn. rewrite G1. destruct (Z.eq_dec x c); reflexivity. }
  assert (Ir1 : irrefl st1).
  { intros x kx Gx Hin. assert (H : In x (bases_fn st1 x)) by (unfold bases_fn; rewrite Gx; assumption).
    rewrite B1 in H. specialize (Hrk' x x H). lia. }
  destruct (hier_lc D (fuel_of st) st1 c st2 Cl1 Co1 Ir1 Dc Hh) as [C12 P12].
  assert (L2 : forall x, LCat st2 x).
  { intros x. apply P12. destruct (cache_in st c x) eqn:Dx.
    - left. apply subreach_setc_bases; [assumption|]. apply (reach_subreach st c Co P).
      apply (cache_in_reach st c x GI (cache_in_valid _ _ _ Dx)). exact Dx.
    - right. intros kx Gx. rewrite G1 in Gx. destruct (Z.eq_dec x c) as [Ex|Nx].
      + subst x. unfold D in Dc. congruence.
      + unfold lc. rewrite <- (L x kx Gx). apply linearize_cached_ext.
        * intros b _. apply M1.
        * intros y Hy. rewrite B1. destruct (Z.eq_dec y c) as [Ey|Ny]; [|reflexivity]. subst y.
          apply (cache_in_reach st c x GI) in Hy; [congruence|right; congruence].
        * apply nclasses_setc.
        * reflexivity. }
  destruct (remove_sub_spec c (c_bases k) st2) as [C23 S23].
  set (st3 := remove_sub c (c_bases k) st2) in *.
  destruct (add_sub_spec c bs st3) as [C34 S34]. rewrite <- E in C34, S34.
  assert (FW : forall x kx1, getc st1 x = Some kx1 ->
            exists kx', getc st' x = Some kx' /\ c_bases kx' = c_bases kx1 /\
              forall y, In y (c_subs kx') <->
                (In y (c_subs kx1) /\ (~ In x (c_bases k) \/ y <> c)) \/ (In x bs /\ y = c)).
  { intros x kx1 Gx1.
    destruct (crel_getc_fwd _ _ _ _ _ C12 Gx1) as (k2 & G2 & (E2b & E2s)).
    destruct (crel_getc_fwd _ _ _ _ _ C23 G2) as (k3 & G3 & (E3b & _)).
    destruct (crel_getc_fwd _ _ _ _ _ C34 G3) as (k4 & G4 & (E4b & _)).
    exists k4. split; [assumption|]. split; [congruence|].
    intros y. rewrite (S34 x k3 k4 G3 G4 y), (S23 x k2 k3 G2 G3 y), E2s. tauto. }
  assert (BW : forall x kx', getc st' x = Some kx' -> exists kx1, getc st1 x = Some kx1).
  { intros x kx' Gx'.
    destruct (crel_getc _ _ _ _ _ C34 Gx') as (k3 & G3 & _).
    destruct (crel_getc _ _ _ _ _ C23 G3) as (k2 & G2 & _).
    destruct (crel_getc _ _ _ _ _ C12 G2) as (k1 & Gk1 & _). exists k1. assumption. }
  assert (L4 : forall x, LCat st' x).
  { intros x. apply (LCat_crel _ _ _ C34). apply (LCat_crel _ _ _ C23). apply L2. }
  assert (B4 : forall x, bases_fn st' x = bases_fn st1 x).
  { intros x. rewrite (bases_fn_crel _ _ _ same_lin_bases C34), (bases_fn_crel _ _ _ same_lin_bases C23).
    apply (bases_fn_crel _ _ _ same_graph_bases C12). }
  split; [|split].
  - constructor.
    + exact L4.
    + (* complete *)
      intros y ky' x Gy' Hx N0. destruct (BW _ _ Gy') as (ky1 & Gy1).
      destruct (FW _ _ Gy1) as (ky'' & Gy'' & Eb & _). rewrite Gy' in Gy''. inversion Gy''; subst ky''.
      pose proof Gy1 as Gy1'. rewrite G1 in Gy1'. destruct (Z.eq_dec y c) as [Ey|Ny].
      * subst y. inversion Gy1'; subst ky1. simpl in Eb.
        destruct (lc_base_mro _ _ _ _ (L4 c ky' Gy') Hx) as (m & Em).
        destruct (mro_Some_cases _ _ _ Em) as [[E0 _]|(kx' & Gx' & _)]; [contradiction|].
        exists kx'. split; [assumption|]. destruct (BW _ _ Gx') as (kx1 & Gx1).
        destruct (FW _ _ Gx1) as (kx'' & Gx'' & _ & Hs). rewrite Gx' in Gx''. inversion Gx''; subst kx''.
        apply Hs. right. split; [rewrite <- Eb; assumption|reflexivity].
      * rewrite Eb in Hx. destruct (Co y ky1 x Gy1' Hx N0) as (kx & Gx & Hy).
        assert (Gx1 : exists kx1, getc st1 x = Some kx1 /\ c_subs kx1 = c_subs kx).
        { rewrite G1. destruct (Z.eq_dec x c) as [Ex|Nx].
          - subst x. rewrite G in Gx. inversion Gx; subst kx. exists (with_bases bs k). split; reflexivity.
          - exists kx. split; [assumption|reflexivity]. }
        destruct Gx1 as (kx1 & Gx1 & Es). destruct (FW _ _ Gx1) as (kx' & Gx' & _ & Hs).
        exists kx'. split; [assumption|]. apply Hs. left. rewrite Es. split; [assumption|right; assumption].
    + (* sound *)
      intros x kx' d Gx' Hd. destruct (BW _ _ Gx') as (kx1 & Gx1).
      destruct (FW _ _ Gx1) as (kx'' & Gx'' & _ & Hs). rewrite Gx' in Gx''. inversion Gx''; subst kx''.
      apply Hs in Hd. destruct Hd as [[Hd Hn]|[Hxb Ed]].
      * destruct (S1 _ _ Gx1) as (kx0 & Gx0 & Es). rewrite <- Es in Hd.
        destruct (So x kx0 d Gx0 Hd) as (kd & Gd & Hx).
        assert (Nd : d <> c).
        { intros Ed. subst d. rewrite G in Gd. inversion Gd; subst kd. destruct Hn as [Hn|Hn]; [apply Hn; exact Hx|congruence]. }
        assert (Gd1 : getc st1 d = Some kd) by (rewrite G1; destruct (Z.eq_dec d c); [contradiction|assumption]).
        destruct (FW _ _ Gd1) as (kd' & Gd' & Eb & _). exists kd'. split; [assumption|]. rewrite Eb. assumption.
      * subst d. assert (Gc1 : getc st1 c = Some (with_bases bs k)) by (rewrite G1; destruct (Z.eq_dec c c); [reflexivity|contradiction]).
        destruct (FW _ _ Gc1) as (kc' & Gc' & Eb & _). exists kc'. split; [assumption|]. rewrite Eb. exact Hxb.
    + exists rk'. intros x y Hy. rewrite B4, B1 in Hy. apply Hrk'. assumption.
  - rewrite (crel_flag _ _ _ C34), (crel_flag _ _ _ C23), (crel_flag _ _ _ C12). reflexivity.
  - rewrite (crel_nclasses _ _ _ C34), (crel_nclasses _ _ _ C23), (crel_nclasses _ _ _ C12). apply nclasses_setc.
Qed.

(* ---------- _update_supertypes ---------- *)

Lemma assign_flag st c bs st' : GInv st -> assign st c bs = Some st' -> flag st' = flag st.
Proof. intros GI A. destruct (assign_GInv _ _ _ _ GI A) as (_ & H & _). exact H. Qed.

(* installing the replacement: every cache was a C3 result or already a replacement *)
Lemma GInv_set_flag st : GInv st -> GInv (set_flag st).
Proof.
  intros [L Co So Rk]. constructor.
  - intros x k G. change (getc st x = Some k) in G. specialize (L x k G). unfold lc, linearize_cached in *.
    change (mro (set_flag st)) with (mro st). change (bases_fn (set_flag st)) with (bases_fn st).
    change (fuel_of (set_flag st)) with (fuel_of st). change (flag (set_flag st)) with true.
    destruct (map_opt (mro st) (c_bases k)) as [ms|]; [|discriminate].
    destruct (linearize x ms (c_bases k)); [exact L|]. destruct (flag st); [exact L|discriminate].
  - exact Co.
  - exact So.
  - exact Rk.
Qed.

(* whatever the outcome: one of the three attempts went through, or nothing
   but the flag changed *)
Theorem update_supertypes_GInv st c st' r :
  GInv st -> update_supertypes st c = (st', r) -> GInv st'.
Proof.
  intros GI U. unfold update_supertypes in U.
  destruct (assign st c (compute_supertypes (supers_fn st c))) as [s1|] eqn:A1.
  - inversion U; subst. destruct (assign_GInv _ _ _ _ GI A1) as (H & _). exact H.
  - match type of U with context [assign st c ?bs2] => destruct (assign st c bs2) as [s2|] eqn:A2 end.
    + inversion U; subst. destruct (assign_GInv _ _ _ _ GI A2) as (H & _). exact H.
    + match type of U with context [assign (set_flag st) c ?bs2] =>
        destruct (assign (set_flag st) c bs2) as [s3|] eqn:A3 end.
      * inversion U; subst. destruct (assign_GInv _ _ _ _ (GInv_set_flag _ GI) A3) as (H & _). exact H.
      * inversion U; subst. apply GInv_set_flag. exact GI.
Qed.

(* the flag is only ever raised; when it is not, a C3 attempt succeeded *)
Lemma update_supertypes_flag st c st' r :
  GInv st -> update_supertypes st c = (st', r) -> flag st' = false -> flag st = false /\ r = None.
Proof.
  intros GI U F'. unfold update_supertypes in U.
  destruct (assign st c (compute_supertypes (supers_fn st c))) as [s1|] eqn:A1.
  - inversion U; subst. rewrite <- (assign_flag _ _ _ _ GI A1). tauto.
  - match type of U with context [assign st c ?bs2] => destruct (assign st c bs2) as [s2|] eqn:A2 end.
    + inversion U; subst. rewrite <- (assign_flag _ _ _ _ GI A2). tauto.
    + match type of U with context [assign (set_flag st) c ?bs2] =>
        destruct (assign (set_flag st) c bs2) as [s3|] eqn:A3 end.
      * inversion U; subst. rewrite (assign_flag _ _ _ _ (GInv_set_flag _ GI) A3) in F'. discriminate.
      * inversion U; subst. discriminate.
Qed.

(* ---------- the edits that leave the Python class graph alone ---------- *)

Definition cf_eq (st st' : state) : Prop := classes st' = classes st /\ flag st' = flag st.

Lemma cf_refl st : cf_eq st st. Proof. split; reflexivity. Qed.

Lemma cf_trans a b c : cf_eq a b -> cf_eq b c -> cf_eq a c.
Proof. unfold cf_eq. intuition congruence. Qed.

Lemma cf_set_slot st i n s : cf_eq st (set_slot st i n s).
Proof. unfold set_slot. destruct (geti st i); split; reflexivity. Qed.

Lemma cf_getattr st i n : cf_eq st (fst (getattr_m st i n)).
Proof.
  unfold getattr_m. destruct (geti st i) as [x|]; [|apply cf_refl].
  destruct (class_lookup st (i_cls x) n) as [[f|s|b]|]; destruct (ns_get n (i_dict x)) as [[? ?|? ?|?]|];
    simpl; try apply cf_refl; apply cf_set_slot.
Qed.

Lemma cf_setattr st i n v : cf_eq st (fst (setattr_m st i n v)).
Proof.
  unfold setattr_m. destruct (geti st i) as [x|]; [|apply cf_refl].
  destruct (class_lookup st (i_cls x) n) as [[f|s|b]|]; simpl; try apply cf_set_slot.
  destruct (ns_get n (i_dict x)) as [sl|]; simpl.
  - destruct sl as [fs v0|fs vs|v0]; simpl; try apply cf_refl.
    destruct (conforms st (f_type fs) v); simpl; [apply cf_set_slot|apply cf_refl].
  - destruct (default_slot f) as [fs v0|fs vs|v0]; simpl; try apply cf_set_slot.
    destruct (conforms _ (f_type fs) v); simpl; [|apply cf_set_slot].
    eapply cf_trans; apply cf_set_slot.
Qed.

Lemma cf_append st i n v : cf_eq st (fst (append_m st i n v)).
Proof.
  unfold append_m. pose proof (cf_getattr st i n) as G.
  destruct (getattr_m st i n) as [st1 g]. simpl in G.
  destruct (geti st1 i) as [x|]; [|assumption].
  destruct (ns_get n (i_dict x)) as [[? ?|f vs|?]|]; try assumption.
  destruct (conforms st1 (f_type f) v && negb ((v =? -1) && (0 <? f_type f))); simpl; [|assumption].
  eapply cf_trans; [exact G|apply cf_set_slot].
Qed.

Lemma crel_cf st st' : cf_eq st st' -> crel same_py st st'.
Proof.
  intros [Ec Ef]. split; [|split; [assumption|unfold nclasses; rewrite Ec; reflexivity]].
  intros x. rewrite (getc_classes_eq _ _ x Ec). unfold orel2. destruct (getc st x); [apply same_py_refl|exact Logic.I].
Qed.

Lemma crel_upd_cls (R : cls -> cls -> Prop) st c f :
  (forall a, R a a) -> (forall k, R k (f k)) -> crel R st (upd_cls st c f).
Proof.
  intros Rr Rf. unfold upd_cls. destruct (getc st c) as [k|] eqn:G; [|apply crel_refl; assumption].
  eapply crel_setc; eauto.
Qed.

Lemma crel_py_setc st c k k' : getc st c = Some k -> same_py k k' -> crel same_py st (setc st c k').
Proof. intros G H. eapply crel_setc; eauto. exact same_py_refl. Qed.

Definition graph_op (o : op) : bool :=
  match o with NewClass _ | AddSuper _ _ | RemoveSuper _ _ => true | _ => false end.

Lemma step_other_crel o st : graph_op o = false -> crel same_py st (next st o).
Proof.
  intros NG. pose proof (crel_refl same_py st same_py_refl) as Rf.
  destruct o; try discriminate; unfold next; simpl.
  - (* AddFeat *)
    destruct (getc st c) as [k|] eqn:G; simpl; [|exact Rf]. eapply crel_py_setc; eauto. repeat split.
  - (* RemoveFeat *)
    destruct (getc st c) as [k|] eqn:G; simpl; [|exact Rf].
    destruct (remove_feat n (c_feats k)) as [fs|]; simpl; [|exact Rf].
    destruct (ns_del n (c_ns k)) as [ns|]; simpl; eapply crel_py_setc; eauto; repeat split.
  - (* ClearFeats *)
    destruct (getc st c) as [k|] eqn:G; simpl; [|exact Rf].
    destruct (del_all (c_ns k) (map f_name (c_feats k))) as [ns ok]. simpl.
    eapply crel_py_setc; eauto. repeat split.
  - (* AddOp *)
    unfold add_oper. destruct (getc st c) as [k|] eqn:G; simpl; [|exact Rf].
    assert (C1 : crel same_py st (setc st c (with_ops (c_ops k ++ [o]) k))) by (eapply crel_py_setc; eauto; repeat split).
    destruct (py_def (to_code (o_name o) (o_params o))) as [[]|s]; simpl; [exact C1|].
    eapply crel_trans; [exact same_py_trans|exact C1|]. apply crel_upd_cls; [exact same_py_refl|]. intros k0. repeat split.
  - (* RemoveOp *)
    destruct (getc st c) as [k|] eqn:G; simpl; [|exact Rf].
    destruct (remove_oper n (c_ops k)) as [os|]; simpl; [|exact Rf].
    destruct (ns_del (normalized_name n) (c_ns k)) as [ns|]; simpl; eapply crel_py_setc; eauto; repeat split.
  - (* ClearOps *)
    destruct (getc st c) as [k|] eqn:G; simpl; [|exact Rf].
    destruct (del_all (c_ns k) (map (fun o => normalized_name (o_name o)) (c_ops k))) as [ns ok]. simpl.
    eapply crel_py_setc; eauto. repeat split.
  - (* Attach *)
    destruct (getc st c) as [k|] eqn:G; simpl; [|exact Rf]. eapply crel_py_setc; eauto. repeat split.
  - (* NewInst *)
    destruct (getc st c); simpl; [|exact Rf]. apply crel_cf. split; reflexivity.
  - (* Get *)
    pose proof (cf_getattr st i n) as C. destruct (getattr_m st i n) as [st1 g]. simpl in C.
    apply crel_cf. destruct g; exact C.
  - (* SetA *) apply crel_cf. apply cf_setattr.
  - (* Append *) apply crel_cf. apply cf_append.
  - (* Call *)
    pose proof (cf_getattr st i n) as C. destruct (getattr_m st i n) as [st1 g]. simpl in C.
    apply crel_cf. destruct g; exact C.
  - (* Sig *)
    pose proof (cf_getattr st i n) as C. destruct (getattr_m st i n) as [st1 g]. simpl in C.
    apply crel_cf. destruct g; exact C.
Qed.

(* ---------- supertype edits and class creation ---------- *)

Lemma crel_set_supers st c ss : crel same_py st (set_supers st c ss).
Proof.
  unfold set_supers. destruct (getc st c) as [k|] eqn:G; [|apply crel_refl; exact same_py_refl].
  eapply crel_py_setc; eauto. repeat split.
Qed.

Lemma getc_new_class st kn x :
  getc (mkState (classes st ++ [kn]) (insts st) (flag st)) x =
  if Z.eq_dec x (Z.of_nat (S (nclasses st))) then Some kn else getc st x.
Proof.
  unfold getc, nclasses. simpl classes. destruct (Z.leb_spec x 0) as [Le|Gt].
  - destruct (Z.eq_dec x (Z.of_nat (S (length (classes st))))); [lia|reflexivity].
  - destruct (Z.eq_dec x (Z.of_nat (S (length (classes st))))) as [E|N].
    + assert (X : idx x = length (classes st)) by (unfold idx; lia).
      rewrite X, nth_error_app2, Nat.sub_diag by lia. reflexivity.
    + destruct (Nat.lt_ge_cases (idx x) (length (classes st))) as [L|L].
      * apply nth_error_app1. assumption.
      * assert (X : (length (classes st) < idx x)%nat) by (unfold idx in *; lia).
        rewrite nth_error_app2 by lia.
        destruct (idx x - length (classes st))%nat as [|m] eqn:Em; [lia|].
        rewrite (proj2 (nth_error_None (classes st) (idx x))) by lia. destruct m; reflexivity.
Qed.

Lemma getc_beyond st : getc st (Z.of_nat (S (nclasses st))) = None.
Proof.
  unfold getc, nclasses. destruct (Z.leb_spec (Z.of_nat (S (length (classes st)))) 0); [reflexivity|].
  apply nth_error_None. unfold idx. lia.
Qed.

Lemma linearize_cached_grow st st1 x bs :
  (forall b, In b bs -> mro st1 b = mro st b) -> (forall y, bases_fn st1 y = bases_fn st y) ->
  flag st1 = flag st -> nclasses st1 = S (nclasses st) ->
  (forall p y, chain (bases_fn st) x p y -> (length p <= nclasses st)%nat) ->
  linearize_cached st1 x bs = linearize_cached st x bs.
Proof.
  intros Hm Hb Hf Hn Hc. unfold linearize_cached. rewrite (map_opt_ext _ (mro st) bs Hm).
  destruct (map_opt (mro st) bs) as [ms|]; [|reflexivity].
  destruct (linearize x ms bs); [reflexivity|]. rewrite Hf. unfold fuel_of. rewrite Hn.
  rewrite (all_bases_ext _ _ Hb). rewrite all_bases_stable; [reflexivity|].
  intros p y H. specialize (Hc p y H). lia.
Qed.

(* the fresh class object: no bases yet, linearisation [c] *)
Lemma GInv_new_class st ss :
  GInv st ->
  GInv (mkState (classes st ++ [mkCls [] [] ss [] [] [Z.of_nat (S (nclasses st))] []]) (insts st) (flag st)).
Proof.
  intros [L Co So (rk & Hrk)].
  set (c := Z.of_nat (S (nclasses st))). set (kn := mkCls [] [] ss [] [] [c] []).
  set (st1 := mkState (classes st ++ [kn]) (insts st) (flag st)).
  assert (G1 : forall x, getc st1 x = if Z.eq_dec x c then Some kn else getc st x) by (intros x; apply getc_new_class).
  pose proof (getc_beyond st) as Gc. fold c in Gc.
  assert (Old : forall x k, getc st x = Some k -> getc st1 x = Some k).
  { intros x k G. rewrite G1. destruct (Z.eq_dec x c); [subst; congruence|assumption]. }
  assert (M1 : forall b m, mro st b = Some m -> mro st1 b = Some m).
  { intros b m M. destruct (mro_Some_cases _ _ _ M) as [[E1 E2]|(k & G & E)].
    - subst. reflexivity.
    - subst m. apply mro_getc. apply Old. assumption. }
  assert (B1 : forall y, bases_fn st1 y = bases_fn st y).
  { intros y. unfold bases_fn. rewrite G1. destruct (Z.eq_dec y c) as [E|N]; [subst y; rewrite Gc|]; reflexivity. }
  constructor.
  - intros x k G. rewrite G1 in G. destruct (Z.eq_dec x c) as [E|N].
    + inversion G; subst. reflexivity.
    + unfold lc. rewrite <- (L x k G). apply linearize_cached_grow.
      * intros b Hb. destruct (lc_base_mro _ _ _ _ (L x k G) Hb) as (m & Em). rewrite Em. apply M1. assumption.
      * exact B1.
      * reflexivity.
      * unfold nclasses, st1. simpl. rewrite app_length. simpl. lia.
      * intros p y H. apply (chain_bound st rk L Hrk x p y); [right; congruence|exact H].
  - intros y ky x G Hx N0. rewrite G1 in G. destruct (Z.eq_dec y c) as [E|N].
    + inversion G; subst. destruct Hx.
    + destruct (Co y ky x G Hx N0) as (kx & Gx & Hy). exists kx. split; [apply Old; assumption|assumption].
  - intros x kx d G Hd. rewrite G1 in G. destruct (Z.eq_dec x c) as [E|N].
    + inversion G; subst. destruct Hd.
    + destruct (So x kx d G Hd) as (kd & Gd & Hx). exists kd. split; [apply Old; assumption|assumption].
  - exists rk. intros x y Hy. apply (Hrk x y). rewrite <- B1. exact Hy.
Qed.

(* ---------- every edit keeps the invariant ---------- *)

(* the state on which a supertype edit runs _update_supertypes *)
Definition pre_update (o : op) (st : state) : option (state * Z) :=
  match o with
  | NewClass supers =>
    let c := Z.of_nat (S (nclasses st)) in
    Some (mkState (classes st ++ [mkCls [] [] (zdedup supers) [] [] [c] []]) (insts st) (flag st), c)
  | AddSuper c s =>
    match getc st c with
    | Some k => Some (set_supers st c (if zmem s (c_supers k) then c_supers k else c_supers k ++ [s]), c)
    | None => None
    end
  | RemoveSuper c s =>
    match getc st c with
    | Some k => match remove_first Z.eqb s (c_supers k) with
                | Some ss => Some (set_supers st c ss, c)
                | None => None
                end
    | None => None
    end
  | _ => None
  end.

Lemma graph_op_next o st :
  graph_op o = true ->
  match pre_update o st with
  | Some (s1, c) => next st o = fst (update_supertypes s1 c)
  | None => next st o = st
  end.
Proof.
  intros GO. destruct o; try discriminate; unfold next; simpl.
  - unfold new_class. destruct (update_supertypes _ _) as [st2 [e|]]; reflexivity.
  - destruct (getc st c) as [k|]; [|reflexivity]. destruct (update_supertypes _ _) as [st2 [e|]]; reflexivity.
  - destruct (getc st c) as [k|]; [|reflexivity].
    destruct (remove_first Z.eqb s (c_supers k)) as [ss|]; [|reflexivity].
    destruct (update_supertypes _ _) as [st2 [e|]]; reflexivity.
Qed.

Lemma pre_update_GInv o st s1 c : GInv st -> pre_update o st = Some (s1, c) -> GInv s1 /\ flag s1 = flag st.
Proof.
  intros GI H. destruct o; try discriminate; simpl in H.
  - inversion H; subst. split; [apply GInv_new_class; assumption|reflexivity].
  - destruct (getc st c0) as [k|]; [|discriminate]. inversion H; subst.
    split; [eapply GInv_crel; [apply crel_set_supers|assumption]|apply (crel_flag _ _ _ (crel_set_supers st c _))].
  - destruct (getc st c0) as [k|]; [|discriminate].
    destruct (remove_first Z.eqb s (c_supers k)) as [ss|]; [|discriminate]. inversion H; subst.
    split; [eapply GInv_crel; [apply crel_set_supers|assumption]|apply (crel_flag _ _ _ (crel_set_supers st c ss))].
Qed.

Theorem step_GInv o st : GInv st -> GInv (next st o).
Proof.
  intros GI. destruct (graph_op o) eqn:GO.
  - pose proof (graph_op_next o st GO) as N. destruct (pre_update o st) as [[s1 c]|] eqn:P.
    + rewrite N. destruct (pre_update_GInv _ _ _ _ GI P) as [G1 _].
      destruct (update_supertypes s1 c) as [st2 r] eqn:U. simpl. eapply update_supertypes_GInv; eauto.
    + rewrite N. exact GI.
  - eapply GInv_crel; [exact (step_other_crel o st GO)|exact GI].
Qed.

(* the replacement, once installed, stays *)
Theorem step_flag o st : GInv st -> flag (next st o) = false -> flag st = false.
Proof.
  intros GI F'. destruct (graph_op o) eqn:GO.
  - pose proof (graph_op_next o st GO) as N. destruct (pre_update o st) as [[s1 c]|] eqn:P.
    + rewrite N in F'. destruct (pre_update_GInv _ _ _ _ GI P) as [G1 Ff].
      destruct (update_supertypes s1 c) as [st2 r] eqn:U. simpl in F'.
      destruct (update_supertypes_flag _ _ _ _ G1 U F') as [H _]. congruence.
    + rewrite N in F'. exact F'.
  - rewrite <- (crel_flag _ _ _ (step_other_crel o st GO)). exact F'.
Qed.

Theorem history_GInv_from ops : forall st, GInv st -> GInv (fold_left next ops st).
Proof. induction ops as [|o r IH]; intros st GI; simpl; [exact GI|]. apply IH. apply step_GInv. exact GI. Qed.

Theorem history_GInv ops fl : GInv (fold_left next ops (empty_state fl)).
Proof. apply history_GInv_from. apply GInv_empty. Qed.

Lemma history_flag_from ops : forall st, GInv st -> flag (fold_left next ops st) = false -> flag st = false.
Proof.
  induction ops as [|o r IH]; intros st GI F; simpl in F; [exact F|].
  apply (step_flag o st GI). apply IH; [apply step_GInv; exact GI|exact F].
Qed.

(* the linearisations Python caches are those of the current bases, in every
   state reached without installing the replacement *)
Theorem history_consistent ops fl :
  flag (fold_left next ops (empty_state fl)) = false -> consistent (fold_left next ops (empty_state fl)).
Proof. intros F. apply GInv_consistent; [apply history_GInv|exact F]. Qed.

(* ... and in every state, replacement or not, they list exactly the classes
   reachable through the current bases *)
Definition closed_caches (st : state) : Prop :=
  forall c l, mro st c = Some l -> forall x, In x l <-> reach (bases_fn st) c x.

Theorem history_closed_caches ops fl : closed_caches (fold_left next ops (empty_state fl)).
Proof. intros c l M. apply (GInv_MR _ (history_GInv ops fl) c l M). Qed.

(* ---------- visibility and isinstance from closed caches ---------- *)
(* The theorems of MetaEditProofs.v use `consistent st` and `flag st = false`
   only through: a cached linearisation lists what the class reaches.  Here
   they are again from that fact alone, so that they also cover the states in
   which pyecore's replacement linearisation is installed. *)

Theorem class_lookup_sound_cc st c n e :
  Inv st -> closed_caches st -> class_lookup st c n = Some e ->
  exists d, in_closure st c d /\
    match e with
    | EFeat f => declares_feat st d n f
    | EFun s => declares_op st d n s
    | EBeh _ => True
    end.
Proof.
  intros I Cc H. destruct (class_lookup_found _ _ _ _ H) as (l & d & M & Hd & E).
  apply (Cc _ _ M) in Hd.
  unfold ns_of in E. destruct (getc st d) as [k|] eqn:G; [|discriminate].
  pose proof (getc_pos _ _ _ G) as P.
  exists d. split; [apply reach_bases_supers; [assumption|assumption|lia]|].
  pose proof (ok_entries _ (Inv_getc _ _ _ I G) _ _ E) as K.
  destruct e; simpl in K; [| |exact Logic.I].
  - unfold declares_feat, feats_of. rewrite G. assumption.
  - unfold declares_op, ops_of. rewrite G. assumption.
Qed.

Theorem visible_sound_cc st i n x :
  Inv st -> closed_caches st -> geti st i = Some x -> visible st i n ->
  (exists d, in_closure st (i_cls x) d /\
     ((exists f, declares_feat st d n f) \/ (exists s, declares_op st d n s) \/
      (exists b, ns_get n (ns_of st d) = Some (EBeh b))))
  \/ has_slot st i n.
Proof.
  intros I Cc G V. destruct (visible_cases _ _ _ _ G V) as [(e & L)|H]; [left|right; assumption].
  destruct (class_lookup_sound_cc _ _ _ _ I Cc L) as (d & Hd & K).
  destruct e as [f|s|b].
  - exists d. split; [assumption|]. left. exists f. assumption.
  - exists d. split; [assumption|]. right. left. exists s. assumption.
  - destruct (class_lookup_found _ _ _ _ L) as (l & d' & M & Hd' & E).
    apply (Cc _ _ M) in Hd'.
    assert (P : d' <> 0).
    { intros Z0. subst. unfold ns_of in E. simpl in E. discriminate. }
    exists d'. split; [apply reach_bases_supers; assumption|]. right. right. exists b. assumption.
Qed.

Corollary untouched_sound_cc st i n x :
  Inv st -> closed_caches st -> geti st i = Some x -> ns_get n (i_dict x) = None ->
  visible st i n ->
  exists d, in_closure st (i_cls x) d /\
     ((exists f, declares_feat st d n f) \/ (exists s, declares_op st d n s) \/
      (exists b, ns_get n (ns_of st d) = Some (EBeh b))).
Proof.
  intros I Cc G D V. destruct (visible_sound_cc _ _ _ _ I Cc G V) as [H|(x' & s & G' & D')]; [assumption|].
  rewrite G in G'. inversion G'; subst. congruence.
Qed.

Theorem isinstance_closure_cc st i c x l :
  Inv st -> closed_caches st -> geti st i = Some x -> mro st (i_cls x) = Some l -> c <> 0 ->
  (isinstance_m st i c = true <-> in_closure st (i_cls x) c).
Proof.
  intros I Cc G M N. unfold isinstance_m. rewrite G, M. rewrite zmem_In.
  rewrite (Cc _ _ M c).
  split; intros H; [apply reach_bases_supers|apply reach_supers_bases]; assumption.
Qed.

Lemma in_closure_in_mro_cc st c d l :
  Inv st -> closed_caches st -> mro st c = Some l -> in_closure st c d -> d <> 0 -> In d l.
Proof.
  intros I Cc M R N. apply (Cc _ _ M). apply reach_supers_bases; assumption.
Qed.

Theorem declared_is_found_cc st c l d n :
  Inv st -> Full st -> closed_caches st -> mro st c = Some l -> in_closure st c d ->
  ((exists f, declares_feat st d n f) \/ (exists s, declares_op st d n s)) ->
  exists e, class_lookup st c n = Some e.
Proof.
  intros I Fu Cc M R D.
  assert (N : d <> 0) by (destruct D as [(f & D)|(s & D)]; [eapply declares_feat_pos|eapply declares_op_pos]; eauto).
  pose proof (in_closure_in_mro_cc _ _ _ _ I Cc M R N) as Hd.
  unfold class_lookup. rewrite M.
  destruct D as [(f & Hf & En)|(s & o & Ho & En & PD)].
  - unfold feats_of in Hf. destruct (getc st d) as [k|] eqn:G; [|destruct Hf].
    apply (first_some_exists _ _ d (EFeat f)); [assumption|].
    unfold ns_of. rewrite G. rewrite <- En. apply (full_feats _ (Full_getc _ _ _ Fu G)). assumption.
  - unfold ops_of in Ho. destruct (getc st d) as [k|] eqn:G; [|destruct Ho].
    destruct (full_ops _ (Full_getc _ _ _ Fu G) o s Ho PD) as [E|(b & E)]; unfold op_key in E; rewrite En in E.
    + apply (first_some_exists _ _ d (EFun s)); [assumption|]. unfold ns_of. rewrite G. assumption.
    + apply (first_some_exists _ _ d (EBeh b)); [assumption|]. unfold ns_of. rewrite G. assumption.
Qed.

Theorem declared_feature_lookup_cc st c l d n f :
  Inv st -> Full st -> closed_caches st -> mro st c = Some l -> in_closure st c d ->
  declares_feat st d n f ->
  (forall z, In z l -> z <> d -> ns_get n (ns_of st z) = None) ->
  class_lookup st c n = Some (EFeat f).
Proof.
  intros I Fu Cc M R D U.
  pose proof (in_closure_in_mro_cc _ _ _ _ I Cc M R (declares_feat_pos _ _ _ _ D)) as Hd.
  unfold class_lookup. rewrite M. destruct D as [Hf En].
  unfold feats_of in Hf. destruct (getc st d) as [k|] eqn:G; [|destruct Hf].
  apply (first_some_unique _ _ d); [assumption| |assumption].
  unfold ns_of. rewrite G. rewrite <- En. apply (full_feats _ (Full_getc _ _ _ Fu G)). assumption.
Qed.

Theorem declared_is_visible_cc st i x l d n :
  Inv st -> Full st -> closed_caches st -> geti st i = Some x -> mro st (i_cls x) = Some l ->
  in_closure st (i_cls x) d ->
  ((exists f, declares_feat st d n f) \/ (exists s, declares_op st d n s)) ->
  visible st i n.
Proof.
  intros I Fu Cc G M R D. destruct (declared_is_found_cc _ _ _ _ _ I Fu Cc M R D) as (e & L).
  unfold visible, getattr_m. rewrite G, L.
  destruct e as [f|s|b]; destruct (ns_get n (i_dict x)) as [[? ?|? ?|?]|]; simpl; try discriminate.
  unfold default_slot. destruct (f_many f); discriminate.
Qed.

Theorem visible_iff_declared_cc st i x l n :
  Inv st -> Full st -> closed_caches st -> geti st i = Some x -> mro st (i_cls x) = Some l ->
  ns_get n (i_dict x) = None ->
  (forall d b, ns_get n (ns_of st d) = Some (EBeh b) -> exists s, declares_op st d n s) ->
  (visible st i n <->
   exists d, in_closure st (i_cls x) d /\
     ((exists f, declares_feat st d n f) \/ (exists s, declares_op st d n s))).
Proof.
  intros I Fu Cc G M D NB. split.
  - intros V. destruct (untouched_sound_cc _ _ _ _ I Cc G D V) as (d & R & [H|[H|(b & H)]]).
    + exists d. tauto.
    + exists d. tauto.
    + exists d. split; [assumption|]. right. eapply NB; eauto.
  - intros (d & R & H). eapply declared_is_visible_cc; eauto.
Qed.

(* ---------- every instance keeps an existing class ---------- *)

Definition IC (st : state) : Prop := forall i x, geti st i = Some x -> getc st (i_cls x) <> None.

Definition dom_le (st st' : state) : Prop := forall c, getc st c <> None -> getc st' c <> None.

Definition irel (st st' : state) : Prop :=
  forall j x', geti st' j = Some x' -> exists x, geti st j = Some x /\ i_cls x = i_cls x'.

Lemma IC_step st st' : dom_le st st' -> irel st st' -> IC st -> IC st'.
Proof.
  intros Dl Ir H j x' G'. destruct (Ir j x' G') as (x & G & E). rewrite <- E. apply Dl. eapply H; eauto.
Qed.

Lemma irel_insts st st' : insts st' = insts st -> irel st st'.
Proof. intros E j x' G. exists x'. split; [|reflexivity]. unfold geti in *. rewrite E in G. exact G. Qed.

Lemma irel_trans a b c : irel a b -> irel b c -> irel a c.
Proof.
  intros H1 H2 j x'' G. destruct (H2 j x'' G) as (x' & G' & E'). destruct (H1 j x' G') as (x & G0 & E).
  exists x. split; [assumption|congruence].
Qed.

Lemma irel_set_slot st i n s : irel st (set_slot st i n s).
Proof.
  unfold set_slot. destruct (geti st i) as [x|] eqn:G; [|apply irel_insts; reflexivity].
  intros j x' G'. unfold geti, seti in *. simpl insts in G'.
  destruct (i <? 0) eqn:Ei; [discriminate|]. destruct (j <? 0) eqn:Ej; [discriminate|].
  destruct (Nat.eq_dec (Z.to_nat i) (Z.to_nat j)) as [E|N].
  - rewrite <- E in *. rewrite nth_error_set_at_same in G' by (eapply nth_error_Some_lt; eauto).
    inversion G'; subst x'. exists x. split; [assumption|reflexivity].
  - rewrite nth_error_set_at_other in G' by assumption. exists x'. split; [assumption|reflexivity].
Qed.

Lemma dom_le_crel (R : cls -> cls -> Prop) st st' : crel R st st' -> dom_le st st'.
Proof.
  intros (A & _) c H. specialize (A c). unfold orel2 in A. destruct (getc st c); [|congruence].
  destruct (getc st' c); [discriminate|destruct A].
Qed.

Lemma dom_le_steqv st st' : steqv st st' -> dom_le st st'.
Proof.
  intros A c H. specialize (A c). unfold orel in A. destruct (getc st c); [|congruence].
  destruct (getc st' c); [discriminate|destruct A].
Qed.

Lemma dom_le_trans a b c : dom_le a b -> dom_le b c -> dom_le a c.
Proof. intros H1 H2 x H. apply H2. apply H1. exact H. Qed.

Lemma dom_le_update_supertypes st c st' r : update_supertypes st c = (st', r) -> dom_le st st'.
Proof.
  intros U. destruct (update_supertypes_spec _ _ _ _ U) as [[_ E]|(_ & k & bs & G & _ & E)].
  - apply dom_le_steqv. exact E.
  - eapply dom_le_trans; [|apply dom_le_steqv; exact E].
    apply (dom_le_crel (fun _ _ => True)). eapply crel_setc; eauto.
Qed.

(* the class side never touches the instances *)
Lemma hier_insts fuel : forall st x st', hier fuel st x = Some st' -> insts st' = insts st.
Proof.
  induction fuel as [|f IH]; intros st x st' H; [discriminate|]. simpl in H.
  destruct (getc st x) as [k|]; [|discriminate].
  destruct (linearize_cached st x (c_bases k)) as [l|]; [|discriminate].
  revert H. change (insts st) with (insts (setc st x (with_mro l k))). generalize (setc st x (with_mro l k)).
  induction (c_subs k) as [|d r IHr]; intros s0 H; simpl in H.
  - inversion H; subst. reflexivity.
  - destruct (hier f s0 d) as [s1|] eqn:E; [|rewrite fold_obind_None in H; discriminate].
    rewrite (IHr _ H). eapply IH; eauto.
Qed.

Lemma fold_upd_insts (F : cls -> cls) l : forall st,
  insts (fold_left (fun s b => upd_cls s b F) l st) = insts st.
Proof.
  induction l as [|b r IH]; intros st; simpl; [reflexivity|]. rewrite IH.
  unfold upd_cls. destruct (getc st b); reflexivity.
Qed.

Lemma assign_insts st c bs st' : assign st c bs = Some st' -> insts st' = insts st.
Proof.
  intros A. destruct (assign_unfold _ _ _ _ A) as (k & st2 & G & _ & Hh & E). subst st'.
  unfold add_sub, remove_sub. rewrite !fold_upd_insts. rewrite (hier_insts _ _ _ _ Hh). reflexivity.
Qed.

Lemma update_supertypes_insts st c st' r : update_supertypes st c = (st', r) -> insts st' = insts st.
Proof.
  unfold update_supertypes.
  repeat match goal with |- context [assign ?a c ?d] => let E := fresh "A" in destruct (assign a c d) eqn:E end;
    intros H; inversion H; subst; try reflexivity;
    match goal with A : assign _ _ _ = Some _ |- _ => rewrite (assign_insts _ _ _ _ A); reflexivity end.
Qed.

Lemma irel_refl st : irel st st.
Proof. apply irel_insts. reflexivity. Qed.

Lemma irel_getattr st i n : irel st (fst (getattr_m st i n)).
Proof.
  unfold getattr_m. destruct (geti st i) as [x|]; [|apply irel_refl].
  destruct (class_lookup st (i_cls x) n) as [[f|s|b]|]; destruct (ns_get n (i_dict x)) as [[? ?|? ?|?]|];
    simpl; try apply irel_refl; apply irel_set_slot.
Qed.

Lemma irel_setattr st i n v : irel st (fst (setattr_m st i n v)).
Proof.
  unfold setattr_m. destruct (geti st i) as [x|]; [|apply irel_refl].
  destruct (class_lookup st (i_cls x) n) as [[f|s|b]|]; simpl; try apply irel_set_slot.
  destruct (ns_get n (i_dict x)) as [sl|]; simpl.
  - destruct sl as [fs v0|fs vs|v0]; simpl; try apply irel_refl.
    destruct (conforms st (f_type fs) v); simpl; [apply irel_set_slot|apply irel_refl].
  - destruct (default_slot f) as [fs v0|fs vs|v0]; simpl; try apply irel_set_slot.
    destruct (conforms _ (f_type fs) v); simpl; [|apply irel_set_slot].
    eapply irel_trans; apply irel_set_slot.
Qed.

Lemma irel_append st i n v : irel st (fst (append_m st i n v)).
Proof.
  unfold append_m. pose proof (irel_getattr st i n) as G.
  destruct (getattr_m st i n) as [st1 g]. simpl in G.
  destruct (geti st1 i) as [x|]; [|assumption].
  destruct (ns_get n (i_dict x)) as [[? ?|f vs|?]|]; try assumption.
  destruct (conforms st1 (f_type f) v && negb ((v =? -1) && (0 <? f_type f))); simpl; [|assumption].
  eapply irel_trans; [exact G|apply irel_set_slot].
Qed.

Lemma insts_upd_cls st c f : insts (upd_cls st c f) = insts st.
Proof. unfold upd_cls. destruct (getc st c); reflexivity. Qed.

Theorem step_IC o st : IC st -> IC (next st o).
Proof.
  intros H. destruct (graph_op o) eqn:GO.
  - destruct o; try discriminate; unfold next; simpl.
    + (* NewClass *)
      unfold new_class.
      match goal with |- context [update_supertypes ?s1 ?c1] =>
        destruct (update_supertypes s1 c1) as [st2 e] eqn:U; assert (H1 : IC s1) end.
      { intros j x G. specialize (H j x G). rewrite getc_new_class.
        destruct (Z.eq_dec (i_cls x) (Z.of_nat (S (nclasses st)))); [discriminate|assumption]. }
      assert (H2 : IC st2).
      { eapply IC_step; [eapply dom_le_update_supertypes; eauto|apply irel_insts; eapply update_supertypes_insts; eauto|exact H1]. }
      destruct e; exact H2.
    + (* AddSuper *)
      destruct (getc st c) as [k|] eqn:G; simpl; [|exact H].
      set (ss := if zmem s (c_supers k) then c_supers k else c_supers k ++ [s]).
      destruct (update_supertypes (set_supers st c ss) c) as [st2 e] eqn:U.
      assert (H2 : IC st2).
      { eapply IC_step; [eapply dom_le_update_supertypes; eauto|apply irel_insts; eapply update_supertypes_insts; eauto|].
        eapply IC_step; [apply (dom_le_crel _ _ _ (crel_set_supers st c ss))|apply irel_insts|exact H].
        unfold set_supers. destruct (getc st c); reflexivity. }
      destruct e; exact H2.
    + (* RemoveSuper *)
      destruct (getc st c) as [k|] eqn:G; simpl; [|exact H].
      destruct (remove_first Z.eqb s (c_supers k)) as [ss|]; simpl; [|exact H].
      destruct (update_supertypes (set_supers st c ss) c) as [st2 e] eqn:U.
      assert (H2 : IC st2).
      { eapply IC_step; [eapply dom_le_update_supertypes; eauto|apply irel_insts; eapply update_supertypes_insts; eauto|].
        eapply IC_step; [apply (dom_le_crel _ _ _ (crel_set_supers st c ss))|apply irel_insts|exact H].
        unfold set_supers. destruct (getc st c); reflexivity. }
      destruct e; exact H2.
  - pose proof (dom_le_crel _ _ _ (step_other_crel o st GO)) as Dl.
    assert (NI : forall c, o = NewInst c -> IC (next st o)).
    { intros c E. subst o. unfold next. simpl. destruct (getc st c) as [k|] eqn:G; simpl; [|exact H].
      intros j x' G'. change (getc st (i_cls x') <> None).
      unfold geti in G'. simpl insts in G'. destruct (j <? 0); [discriminate|].
      apply nth_error_In in G'. apply in_app_or in G'. destruct G' as [G'|[G'|[]]].
      - apply In_nth_error in G'. destruct G' as (m & Em). apply (H (Z.of_nat m) x').
        unfold geti. destruct (Z.ltb_spec (Z.of_nat m) 0); [lia|]. rewrite Nat2Z.id. exact Em.
      - subst x'. simpl. congruence. }
    destruct o; try discriminate; try (eapply NI; reflexivity);
      (eapply IC_step; [exact Dl| |exact H]); unfold next; simpl.
    + destruct (getc st c); simpl; apply irel_insts; reflexivity.
    + destruct (getc st c) as [k|]; simpl; [|apply irel_refl].
      destruct (remove_feat n (c_feats k)); simpl; [|apply irel_refl].
      destruct (ns_del n (c_ns k)); simpl; apply irel_insts; reflexivity.
    + destruct (getc st c) as [k|]; simpl; [|apply irel_refl].
      destruct (del_all (c_ns k) (map f_name (c_feats k))). simpl. apply irel_insts; reflexivity.
    + unfold add_oper. destruct (getc st c) as [k|]; simpl; [|apply irel_refl].
      destruct (py_def (to_code (o_name o) (o_params o))) as [[]|s]; simpl; [apply irel_insts; reflexivity|].
      apply irel_insts. rewrite insts_upd_cls. reflexivity.
    + destruct (getc st c) as [k|]; simpl; [|apply irel_refl].
      destruct (remove_oper n (c_ops k)); simpl; [|apply irel_refl].
      destruct (ns_del (normalized_name n) (c_ns k)); simpl; apply irel_insts; reflexivity.
    + destruct (getc st c) as [k|]; simpl; [|apply irel_refl].
      destruct (del_all (c_ns k) (map (fun o => normalized_name (o_name o)) (c_ops k))). simpl. apply irel_insts; reflexivity.
    + destruct (getc st c); simpl; apply irel_insts; reflexivity.
    + pose proof (irel_getattr st i n) as C. destruct (getattr_m st i n) as [st1 g]. simpl in C. destruct g; exact C.
    + apply irel_setattr.
    + apply irel_append.
    + pose proof (irel_getattr st i n) as C. destruct (getattr_m st i n) as [st1 g]. simpl in C. destruct g; exact C.
    + pose proof (irel_getattr st i n) as C. destruct (getattr_m st i n) as [st1 g]. simpl in C. destruct g; exact C.
Qed.

Lemma IC_empty fl : IC (empty_state fl).
Proof. intros i x G. unfold geti, empty_state in G. simpl in G. destruct (i <? 0); [discriminate|]. destruct (Z.to_nat i); discriminate. Qed.

Theorem history_IC ops : forall st, IC st -> IC (fold_left next ops st).
Proof. induction ops as [|o r IH]; intros st H; simpl; [exact H|]. apply IH. apply step_IC. exact H. Qed.

Lemma IC_mro st i x : IC st -> geti st i = Some x -> exists l, mro st (i_cls x) = Some l.
Proof.
  intros H G. specialize (H i x G). destruct (getc st (i_cls x)) as [k|] eqn:Gk; [|congruence].
  exists (c_mro k). apply mro_getc. exact Gk.
Qed.

(* ---------- the theorems for whole histories ---------- *)

Lemma history_sound_facts ops fl :
  sides ops (empty_state fl) ->
  Inv (fold_left next ops (empty_state fl)) /\ closed_caches (fold_left next ops (empty_state fl)).
Proof. intros S. split; [apply history_Inv; exact S|apply history_closed_caches]. Qed.

Lemma history_full_facts ops fl :
  wf_history ops (empty_state fl) ->
  Inv (fold_left next ops (empty_state fl)) /\ Full (fold_left next ops (empty_state fl)) /\
  closed_caches (fold_left next ops (empty_state fl)).
Proof.
  intros W. destruct (history_Inv_Full ops (empty_state fl) (Inv_empty fl) (Full_empty fl) W) as [I Fu].
  split; [exact I|]. split; [exact Fu|apply history_closed_caches].
Qed.

Theorem history_visible_sound ops fl i n x :
  let st := fold_left next ops (empty_state fl) in
  sides ops (empty_state fl) -> geti st i = Some x -> visible st i n ->
  (exists d, in_closure st (i_cls x) d /\
     ((exists f, declares_feat st d n f) \/ (exists s, declares_op st d n s) \/
      (exists b, ns_get n (ns_of st d) = Some (EBeh b))))
  \/ has_slot st i n.
Proof.
  intros st S G V. destruct (history_sound_facts ops fl S) as [I Cc].
  exact (visible_sound_cc st i n x I Cc G V).
Qed.

Theorem history_declared_is_visible ops fl i x d n :
  let st := fold_left next ops (empty_state fl) in
  wf_history ops (empty_state fl) -> geti st i = Some x ->
  in_closure st (i_cls x) d ->
  ((exists f, declares_feat st d n f) \/ (exists s, declares_op st d n s)) ->
  visible st i n.
Proof.
  intros st W G R D. destruct (history_full_facts ops fl W) as (I & Fu & Cc).
  destruct (IC_mro st i x (history_IC ops _ (IC_empty fl)) G) as (l & M).
  exact (declared_is_visible_cc st i x l d n I Fu Cc G M R D).
Qed.

Theorem history_visible_iff_declared ops fl i x n :
  let st := fold_left next ops (empty_state fl) in
  wf_history ops (empty_state fl) -> geti st i = Some x ->
  ns_get n (i_dict x) = None ->
  (forall d b, ns_get n (ns_of st d) = Some (EBeh b) -> exists s, declares_op st d n s) ->
  (visible st i n <->
   exists d, in_closure st (i_cls x) d /\
     ((exists f, declares_feat st d n f) \/ (exists s, declares_op st d n s))).
Proof.
  intros st W G D NB. destruct (history_full_facts ops fl W) as (I & Fu & Cc).
  destruct (IC_mro st i x (history_IC ops _ (IC_empty fl)) G) as (l & M).
  exact (visible_iff_declared_cc st i x l n I Fu Cc G M D NB).
Qed.

Theorem history_declared_feature_lookup ops fl c l d n f :
  let st := fold_left next ops (empty_state fl) in
  wf_history ops (empty_state fl) -> mro st c = Some l -> in_closure st c d ->
  declares_feat st d n f ->
  (forall z, In z l -> z <> d -> ns_get n (ns_of st z) = None) ->
  class_lookup st c n = Some (EFeat f).
Proof.
  intros st W M R D U. destruct (history_full_facts ops fl W) as (I & Fu & Cc).
  exact (declared_feature_lookup_cc st c l d n f I Fu Cc M R D U).
Qed.

Theorem history_isinstance_closure ops fl i c x :
  let st := fold_left next ops (empty_state fl) in
  sides ops (empty_state fl) -> geti st i = Some x -> c <> 0 ->
  (isinstance_m st i c = true <-> in_closure st (i_cls x) c).
Proof.
  intros st S G N. destruct (history_sound_facts ops fl S) as [I Cc].
  destruct (IC_mro st i x (history_IC ops _ (IC_empty fl)) G) as (l & M).
  exact (isinstance_closure_cc st i c x l I Cc G M N).
Qed.

(* ---------- when the replacement gets installed ---------- *)

(* exactly when a supertype edit (or a class creation) finds no C3 order for
   the class and its registered subclasses, neither with the bases in declared
   order nor sorted by number of supertypes -- each attempt being CPython's
   type_set_bases: cycle check, then mro_hierarchy against the caches *)
Theorem flag_raised_iff o st :
  GInv st -> flag st = false ->
  (flag (next st o) = true <->
   exists s1 c, pre_update o st = Some (s1, c) /\
     assign s1 c (compute_supertypes (supers_fn s1 c)) = None /\
     assign s1 c (sort_desc (fun x => length (all_supertypes s1 x)) (compute_supertypes (supers_fn s1 c))) = None).
Proof.
  intros GI F. destruct (graph_op o) eqn:GO.
  - pose proof (graph_op_next o st GO) as N. destruct (pre_update o st) as [[s1 c]|] eqn:P.
    + destruct (pre_update_GInv _ _ _ _ GI P) as [G1 F1]. rewrite N. unfold update_supertypes.
      destruct (assign s1 c (compute_supertypes (supers_fn s1 c))) as [a1|] eqn:A1.
      * simpl. rewrite (assign_flag _ _ _ _ G1 A1), F1, F. split; [discriminate|].
        intros (s & c' & E & H1 & _). inversion E; subst. congruence.
      * destruct (assign s1 c (sort_desc (fun x => length (all_supertypes s1 x)) (compute_supertypes (supers_fn s1 c)))) as [a2|] eqn:A2.
        -- simpl. rewrite (assign_flag _ _ _ _ G1 A2), F1, F. split; [discriminate|].
           intros (s & c' & E & _ & H2). inversion E; subst. congruence.
        -- split; [intros _; exists s1, c; tauto|]. intros _.
           destruct (assign (set_flag s1) c _) as [a3|] eqn:A3; simpl; [|reflexivity].
           rewrite (assign_flag _ _ _ _ (GInv_set_flag _ G1) A3). reflexivity.
    + rewrite N, F. split; [discriminate|]. intros (s & c' & E & _). discriminate.
  - rewrite (crel_flag _ _ _ (step_other_crel o st GO)), F. split; [discriminate|].
    intros (s & c' & E & _). destruct o; discriminate.
Qed.

(* ---------- the traversal's fuel is a model artefact that never matters ---------- *)

Definition subs_fn (st : state) (x : Z) : list Z :=
  match getc st x with Some k => c_subs k | None => [] end.

Lemma subs_fn_crel st st' : crel same_graph st st' -> forall x, subs_fn st' x = subs_fn st x.
Proof.
  intros (A & _) x. specialize (A x). unfold subs_fn, orel2 in *.
  destruct (getc st x), (getc st' x); try tauto. destruct A as [_ H]. exact H.
Qed.

(* only caches change, whatever the outcome of the visits *)
Lemma hier_frame fuel : forall st x st', hier fuel st x = Some st' -> crel same_graph st st'.
Proof.
  induction fuel as [|f IH]; intros st x st' H; [discriminate|]. simpl in H.
  destruct (getc st x) as [k|] eqn:G; [|discriminate].
  destruct (linearize_cached st x (c_bases k)) as [l|]; [|discriminate].
  assert (C0 : crel same_graph st (setc st x (with_mro l k))).
  { apply (crel_setc same_graph _ _ k); [exact same_graph_refl|assumption|split; reflexivity]. }
  revert H C0. generalize (setc st x (with_mro l k)).
  induction (c_subs k) as [|d r IHr]; intros s0 H C0; simpl in H.
  - inversion H; subst. exact C0.
  - destruct (hier f s0 d) as [s1|] eqn:E; [|rewrite fold_obind_None in H; discriminate].
    apply (IHr s1 H). eapply crel_trans; [exact same_graph_trans|exact C0|eapply IH; eauto].
Qed.

Lemma fold_hier_ext (h h' : state -> Z -> option state) st0 ds :
  (forall s d s', h s d = Some s' -> crel same_graph s s') ->
  (forall s d, crel same_graph st0 s -> In d ds -> h' s d = h s d) ->
  forall s0, crel same_graph st0 s0 ->
    fold_left (fun acc d => obind acc (fun s => h' s d)) ds (Some s0) =
    fold_left (fun acc d => obind acc (fun s => h s d)) ds (Some s0).
Proof.
  intros Hf He. induction ds as [|d r IH]; intros s0 C; simpl; [reflexivity|].
  rewrite (He s0 d C (or_introl eq_refl)). destruct (h s0 d) as [s1|] eqn:E.
  - apply IH.
    + intros s d' Cs Hd. apply He; [exact Cs|right; exact Hd].
    + eapply crel_trans; [exact same_graph_trans|exact C|eapply Hf; eauto].
  - rewrite !fold_obind_None. reflexivity.
Qed.

(* more fuel than the longest chain of registered subclasses changes nothing *)
Lemma hier_fuel f : forall st c,
  (forall p x, chain (subs_fn st) c p x -> (length p < f)%nat) ->
  forall F, (f <= F)%nat -> hier F st c = hier f st c.
Proof.
  induction f as [|f IH]; intros st c Hc F Le.
  - specialize (Hc [] c eq_refl). simpl in Hc. lia.
  - destruct F as [|F]; [lia|]. simpl.
    destruct (getc st c) as [k|] eqn:G; [|reflexivity].
    destruct (linearize_cached st c (c_bases k)) as [l|]; [|reflexivity].
    assert (C0 : crel same_graph st (setc st c (with_mro l k))).
    { apply (crel_setc same_graph _ _ k); [exact same_graph_refl|assumption|split; reflexivity]. }
    apply (fold_hier_ext (hier f) (hier F) (setc st c (with_mro l k)) (c_subs k)).
    + intros s d s' H. eapply hier_frame; eauto.
    + intros s d Cs Hd. apply IH; [|lia]. intros p x Hp.
      assert (E : forall y, subs_fn s y = subs_fn st y).
      { intros y. rewrite (subs_fn_crel _ _ Cs). apply (subs_fn_crel _ _ C0). }
      assert (Hp' : chain (subs_fn st) c (d :: p) x).
      { split; [unfold subs_fn; rewrite G; exact Hd|].
        clear -Hp E. revert d Hp. induction p as [|b p IHp]; intros d Hp; simpl in *; [exact Hp|].
        destruct Hp as [Hb Hp]. rewrite E in Hb. split; [exact Hb|]. apply IHp. exact Hp. }
      specialize (Hc _ _ Hp'). simpl in Hc. lia.
    + apply crel_refl. exact same_graph_refl.
Qed.

Lemma chain_ext (g g' : Z -> list Z) : (forall y, g' y = g y) -> forall p c x, chain g' c p x -> chain g c p x.
Proof.
  intros E. induction p as [|b p IH]; intros c x H; simpl in *; [exact H|].
  destruct H as [Hb H]. rewrite E in Hb. split; [exact Hb|]. apply IH. exact H.
Qed.

Lemma chain_NoDup_inc (g : Z -> list Z) (rk : Z -> nat) :
  (forall c b, In b (g c) -> (rk c < rk b)%nat) -> forall p c x, chain g c p x -> NoDup (c :: p).
Proof.
  intros Hrk.
  assert (R : forall p c x y, chain g c p x -> In y p -> (rk c < rk y)%nat).
  { induction p as [|b p IH]; intros c x y H Hy; [destruct Hy|]. simpl in H. destruct H as [Hb H].
    pose proof (Hrk _ _ Hb). destruct Hy as [Hy|Hy]; [subst; assumption|].
    specialize (IH b x y H Hy). lia. }
  induction p as [|b p IH]; intros c x H.
  - constructor; [intros []|constructor].
  - constructor.
    + intros Hin. pose proof (R _ _ _ _ H Hin). lia.
    + simpl in H. destruct H as [_ H]. eapply IH; eauto.
Qed.

Lemma getc_range st x : getc st x <> None -> In x (zseq 1 (nclasses st)).
Proof.
  intros N. destruct (getc st x) as [k|] eqn:G; [|congruence]. pose proof (getc_pos _ _ _ G) as P.
  unfold getc in G. destruct (Z.leb_spec x 0); [lia|]. apply nth_error_Some_lt in G.
  apply zseq_In. unfold idx, nclasses in *. lia.
Qed.

(* chains of registered subclasses are shorter than the number of classes *)
Lemma subs_chain_bound st :
  GInv st -> forall c p x, getc st c <> None -> chain (subs_fn st) c p x -> (length p < nclasses st)%nat.
Proof.
  intros [L _ So (rk & Hrk)] c p x Gc H.
  assert (Inc : forall a b, In b (subs_fn st a) -> (rk a < rk b)%nat /\ getc st b <> None).
  { intros a b Hb. unfold subs_fn in Hb. destruct (getc st a) as [ka|] eqn:Ga; [|destruct Hb].
    destruct (So a ka b Ga Hb) as (kb & Gb & Ha). split; [|congruence].
    apply Hrk. rewrite (bases_fn_getc _ _ _ Gb). exact Ha. }
  pose proof (chain_NoDup_inc _ rk (fun a b Hb => proj1 (Inc a b Hb)) p c x H) as ND.
  assert (Ex : forall q a y, getc st a <> None -> chain (subs_fn st) a q y -> forall z, In z q -> getc st z <> None).
  { induction q as [|b q IH]; intros a y Ga Hq z Hz; [destruct Hz|]. simpl in Hq. destruct Hq as [Hb Hq].
    destruct (Inc a b Hb) as [_ Gb]. destruct Hz as [Hz|Hz]; [subst; exact Gb|]. eapply IH; eauto. }
  assert (Len : (length (c :: p) <= length (zseq 1 (nclasses st)))%nat).
  { apply NoDup_incl_length; [assumption|]. intros y [Hy|Hy]; apply getc_range; [subst; assumption|].
    eapply Ex; eauto. }
  rewrite zseq_length in Len. simpl in Len. lia.
Qed.

(* a __bases__ assignment never fails for lack of fuel in the model *)
Theorem assign_fuel_enough st c k bs F :
  GInv st -> getc st c = Some k -> (fuel_of st <= F)%nat ->
  hier F (setc st c (with_bases bs k)) c = hier (fuel_of st) (setc st c (with_bases bs k)) c.
Proof.
  intros GI G Le. set (st1 := setc st c (with_bases bs k)).
  assert (E : forall y, subs_fn st1 y = subs_fn st y).
  { intros y. unfold subs_fn, st1. destruct (Z.eq_dec c y) as [Ey|Ny].
    - subst y. rewrite (getc_setc_same _ _ _ _ G), G. reflexivity.
    - rewrite (getc_setc_other _ _ _ _ (getc_pos _ _ _ G) Ny). reflexivity. }
  assert (Hc : forall p x, chain (subs_fn st1) c p x -> (length p < S (nclasses st))%nat).
  { intros p x H. apply (chain_ext _ _ E) in H.
    assert (N : getc st c <> None) by congruence.
    pose proof (subs_chain_bound st GI c p x N H). lia. }
  unfold fuel_of in *.
  rewrite (hier_fuel (S (nclasses st)) st1 c Hc F) by lia.
  rewrite (hier_fuel (S (nclasses st)) st1 c Hc (S (S (nclasses st)))) by lia. reflexivity.
Qed.
