"""Entry point:  check <PID> [--tier quick|thorough] [--seed N] [--replay FILE] [--no-build]"""
import argparse
import importlib
import json
import os
import sys
import traceback

sys.path.insert(0, os.path.dirname(os.path.dirname(os.path.abspath(__file__))))
from harness import common  # noqa


class Ctx:
    pass


def main():
    ap = argparse.ArgumentParser()
    ap.add_argument('pid')
    ap.add_argument('--tier', default=os.environ.get('VERIF_TIER', 'quick'))
    ap.add_argument('--seed', type=int, default=int(os.environ.get('VERIF_SEED', '0') or 0))
    ap.add_argument('--replay')
    ap.add_argument('--no-build', action='store_true')
    a = ap.parse_args()
    pid = a.pid.upper()
    tier = a.tier if a.tier in ('quick', 'thorough') else 'quick'
    os.environ.setdefault('PYTHONHASHSEED', '0')
    mod = importlib.import_module(f'harness.props.{pid.lower()}')
    ctx = Ctx()
    ctx.pid, ctx.tier, ctx.seed = pid, tier, a.seed
    ctx.rng = common.rng_for(a.seed, pid)
    if a.replay:
        rep = json.load(open(a.replay))
        common.use_repo()
        rc = mod.replay(ctx, rep)
        sys.exit(rc)
    out = common.Outcome(pid, tier, a.seed)
    if a.no_build and os.path.exists(os.path.join(common.BUILD, 'modelrun')):
        b = common.Build()
        b.modelrun_ok = True
    else:
        b = common.build_all()
    out.build = b
    out.proof = common.proof_status(pid, b)
    try:
        if b.modelrun_ok:
            mod.run(ctx, out)
        else:
            out.notes.append('model driver unavailable: correspondence skipped; searching the implementation only')
            if hasattr(mod, 'run_impl_only'):
                mod.run_impl_only(ctx, out)
    except Exception:
        tb = traceback.format_exc()
        out.diff('harness exception: ' + tb[-1500:], {'exception': True})
        print(tb, file=sys.stderr)
    sys.exit(out.finish('proof'))


if __name__ == '__main__':
    main()
