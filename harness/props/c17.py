"""C17 — data type values survive conversion to text and back.

Three corners:
  Coq theorems (Props/C17.v)      : from_string(to_string v) = v for every conversion pair named by the
                                    GENERATED tables (coq/Gen/DataTypes.v <- translator/datatypes_gen.py <- /repo)
  correspondence (this file, A-C) : the extracted conversion models (build/modelrun `dataconv`) against the real
                                    pyecore data type objects: same table, same Python type, same text, same value
                                    back, on boundary + ctx.rng-sampled values; the strptime fall-back per format;
                                    CPython's float(repr(f)) == f (the hypothesis of the float theorems) sampled
  oracle (D)                      : the property itself on every data type object found in pyecore.ecore and
                                    pyecore.type that the property lists, independent of the model and of the table
"""
import importlib
import math
import struct
import time
from datetime import datetime, timedelta, timezone
from decimal import Decimal

from harness import common

LIMB = 1 << 24
PYTYPE_CODE = {str: 1, bool: 2, int: 3, float: 4, Decimal: 5, datetime: 6, bytes: 7, bytearray: 8, dict: 9,
               list: 10, set: 11, type: 12, object: 13}
MODELLED = (str, bool, int, Decimal, datetime)
US = timedelta(microseconds=1)


# ------------------------------------------------------------------ codec
def enc_big(z):
    a, ls = abs(z), []
    while a:
        ls.append(a % LIMB)
        a //= LIMB
    return [1 if z < 0 else 0, len(ls)] + ls


def dec_big(t, p):
    sg, n = t[p], t[p + 1]
    v = 0
    for l in reversed(t[p + 2:p + 2 + n]):
        v = v * LIMB + l
    return (-v if sg == 1 else v), p + 2 + n


def enc_text(s):
    return [len(s)] + [ord(c) for c in s]


def dec_text(t, p):
    n = t[p]
    return ''.join(chr(c) for c in t[p + 1:p + 1 + n]), p + 1 + n


def dt_fields(d):
    off = d.utcoffset()
    return (d.year, d.month, d.day, d.hour, d.minute, d.second, d.microsecond,
            0 if off is None else 1, 0 if off is None else off // US)


def dec_triple(d):
    t = d.as_tuple()
    return (t.sign, int(''.join(map(str, t.digits)) or '0'), t.exponent)


def enc_val(v):
    if type(v) is str:
        return [1] + enc_text(v)
    if type(v) is bool:
        return [2, int(v)]
    if type(v) is int:
        return [3] + enc_big(v)
    if type(v) is Decimal:
        s, c, e = dec_triple(v)
        return [5, s] + enc_big(c) + enc_big(e)
    if type(v) is datetime:
        return [6] + list(dt_fields(v))
    raise AssertionError(v)


def dec_val(t, p=0):
    """model value -> a canonical comparable ('kind', payload)"""
    k = t[p]
    if k == 1:
        return ('str', dec_text(t, p + 1)[0])
    if k == 2:
        return ('bool', t[p + 1] == 1)
    if k == 3:
        return ('int', dec_big(t, p + 1)[0])
    if k == 5:
        c, q = dec_big(t, p + 2)
        e, q = dec_big(t, q)
        return ('Decimal', (t[p + 1], c, e))
    if k == 6:
        return ('datetime', tuple(t[p + 1:p + 10]))
    return ('?', t)


def canon(v):
    """implementation value -> the same canonical form (exact type, not isinstance)"""
    if type(v) is str:
        return ('str', v)
    if type(v) is bool:
        return ('bool', v)
    if type(v) is int:
        return ('int', v)
    if type(v) is Decimal and v.is_finite():
        return ('Decimal', dec_triple(v))
    if type(v) is datetime:
        return ('datetime', dt_fields(v))
    return ('other:' + type(v).__name__, repr(v))


# ------------------------------------------------------------------ value generators
def gen_strs(rng, n):
    b = ['', ' ', 'a', 'A', '0', '-1', 'True', 'true', 'False', 'None', '\x00', '\n', '\t x ', 'é', 'ß', 'İ', 'ǅ',
         '€', '\U0001F600', '\ud800', '\udfff', '\U0010FFFF', '￿', '\x7f\x80', 'a' * 300, '"<&>\'', '٣',
         '1e5', 'nan', '2020-01-01T00:00:00.000000']
    ranges = [(0, 0x7f), (0x80, 0x7ff), (0x800, 0xffff), (0x10000, 0x10ffff), (0x20, 0x7e), (0x30, 0x39)]
    out = list(b)
    for _ in range(n):
        k = rng.choice([0, 1, 1, 2, 3, 5, 8, 13, 40])
        lo, hi = rng.choice(ranges)
        mix = rng.random() < 0.5
        out.append(''.join(chr(rng.randint(*(rng.choice(ranges) if mix else (lo, hi)))) for _ in range(k)))
    return out


def gen_ints(rng, n, thorough):
    b = [0, 1, -1, 9, -9, 10, -10, 11, 99, 100, -100, 101, 255, 256, -255, -256, 1000, 9999, 10000]
    ks = [7, 8, 15, 16, 24, 31, 32, 33, 48, 53, 63, 64, 65, 127, 128, 255, 256, 512, 1023, 1024, 2048]
    if thorough:
        ks += [4096, 8192, 14000]
    for k in ks:
        for d in (-1, 0, 1):
            b += [2 ** k + d, -(2 ** k) + d]
    for k in [1, 2, 3, 9, 18, 19, 20, 38, 39, 77, 100, 308, 617] + ([1233, 4000] if thorough else []):
        b += [10 ** k, 10 ** k - 1, -(10 ** k), -(10 ** k) + 1, 10 ** k + 1]
    out = list(b)
    for _ in range(n):
        bits = rng.choice([1, 4, 8, 16, 31, 32, 63, 64, 65, 100, 200, 512] + ([3000] if thorough else []))
        v = rng.getrandbits(rng.randint(1, bits))
        out.append(-v if rng.random() < 0.5 else v)
    return out


def f_of_bits(b):
    return struct.unpack('<d', struct.pack('<Q', b))[0]


def bits_of(f):
    return struct.unpack('<Q', struct.pack('<d', f))[0]


def gen_floats(rng, n):
    hexes = ['0x0.0p+0', '-0x0.0p+0', '0x0.0000000000001p-1022', '0x0.fffffffffffffp-1022', '0x1.0000000000000p-1022',
             '0x1.fffffffffffffp+1023', '-0x1.fffffffffffffp+1023', '0x1.0000000000000p+0', '0x1.0000000000001p+0',
             '0x1.fffffffffffffp-1', '0x1.999999999999ap-4', '0x1.5555555555555p-2', '0x1.0p+53', '0x1.0000000000001p+53',
             '0x1.0p+63', '0x1.0p+64', '0x1.0p-1074', '-0x1.0p-1074', '0x1.921fb54442d18p+1', '0x1.0p+1023']
    out = [float.fromhex(h) for h in hexes]
    out += [float('inf'), float('-inf'), float('nan'), -float('nan'), f_of_bits(0x7ff0000000000001),
            f_of_bits(0xfff8000000000123), 1e22, 1e23, 1e16, 1e-5, 1e-4, 123456789012345680.0, 0.1 + 0.2, 5e-324,
            2.2250738585072014e-308, 2.2250738585072011e-308, 9007199254740993.0, 1e15, 1e-7, 100.0, -1.5]
    for _ in range(n):
        r = rng.random()
        if r < 0.5:
            out.append(f_of_bits(rng.getrandbits(64)))                       # every class, NaNs included
        elif r < 0.7:
            out.append(f_of_bits(rng.getrandbits(52) | (rng.getrandbits(1) << 63)))   # subnormals
        elif r < 0.9:
            out.append(rng.uniform(-1, 1) * 10 ** rng.randint(-30, 30))
        else:
            out.append(float(rng.randint(-10 ** 17, 10 ** 17)))
    return out


def float_class(f):
    if math.isnan(f):
        return 'nan'
    if math.isinf(f):
        return 'inf'
    if f == 0:
        return 'zero'
    return 'subnormal' if abs(f) < 2.2250738585072014e-308 else 'normal'


def gen_decimals(rng, n, thorough):
    coefs = [0, 1, 9, 10, 12, 100, 123, 999999, 1000000, 1234567, 10 ** 27, 10 ** 28 - 1, 10 ** 40 + 7, 2 ** 200]
    out = []
    for c in coefs:
        L = len(str(c))
        exps = {0, 1, -1, 2, 5, 6, 7, -5, -6, -7, -8, -L, -L + 1, -L - 1, -L - 4, -L - 5, -L - 6, -L - 7, 28, -28,
                10 ** 6, -10 ** 6, 10 ** 17, -10 ** 17, 425000000, -425000000, 999999999, -999999999}
        for e in sorted(exps):
            for s in (0, 1):
                out.append((s, c, e))
    for _ in range(n):
        c = rng.getrandbits(rng.choice([1, 4, 10, 30, 64, 100, 300]))
        L = len(str(c))
        e = rng.choice([rng.randint(-12, 12), -L + rng.randint(-8, 3), rng.randint(-10 ** 9, 10 ** 9),
                        rng.randint(-40, 40)])
        out.append((rng.randint(0, 1), c, e))
    vals = []
    for s, c, e in out:
        try:
            vals.append(Decimal((s, tuple(int(ch) for ch in str(c)), e)))
        except Exception:          # not constructible: outside CPython's Decimal domain
            pass
    return vals


def gen_offsets():
    offs = [0, 1, -1, 999999, -999999, 500000, 1000000, -1000000, 1000001, -1000001, 1500000, 59000000, -59000000,
            60000000, -60000000, 61000000, 3600000000, -3600000000, 3600000001, 19800000000, -19800000000,
            20700000000, 45900000000, 86399999999, -86399999999, 86399000000, -86399000000, 86340000000,
            3661000000, -3661500000, 1, 12 * 3600000000, -12 * 3600000000]
    return offs


def mk_dt(y, mo, d, h, mi, s, us, off):
    tz = None if off is None else timezone(timedelta(microseconds=off))
    return datetime(y, mo, d, h, mi, s, us, tzinfo=tz)


def gen_dates(rng, n, low_years):
    out = []
    years = [1000, 1001, 1582, 1899, 1900, 1970, 1999, 2000, 2024, 2100, 9998, 9999]
    for y in years + (low_years or []):
        for (mo, d) in [(1, 1), (2, 28), (12, 31), (6, 30)]:
            for (h, mi, s, us) in [(0, 0, 0, 0), (23, 59, 59, 999999), (12, 0, 0, 1), (1, 2, 3, 100000)]:
                for off in (None, 0, 19800000000):
                    out.append(mk_dt(y, mo, d, h, mi, s, us, off))
    out += [mk_dt(2000, 2, 29, 0, 0, 0, 0, None), mk_dt(2024, 2, 29, 10, 10, 10, 10, 0), mk_dt(2400, 2, 29, 1, 1, 1, 1, None),
            mk_dt(1900, 2, 28, 1, 1, 1, 1, None), mk_dt(2023, 4, 30, 1, 1, 1, 1, None), mk_dt(2023, 1, 31, 1, 1, 1, 1, None)]
    for off in gen_offsets():
        out.append(mk_dt(2020, 2, 29, 1, 2, 3, 4, off))
        out.append(mk_dt(1000, 1, 1, 0, 0, 0, 0, off))
        out.append(mk_dt(9999, 12, 31, 23, 59, 59, 999999, off))
    out.append(datetime(2020, 1, 1, 1, 1, 1, 1, tzinfo=timezone(timedelta(hours=1), 'CET')))
    out.append(datetime(2020, 1, 1, 1, 1, 1, 1, tzinfo=timezone.utc))
    out.append(datetime(2020, 10, 25, 1, 30, fold=1))
    for _ in range(n):
        y = rng.choice([rng.randint(1000, 9999), rng.randint(1900, 2100)])
        mo = rng.randint(1, 12)
        dim = [31, 29 if (y % 4 == 0 and y % 100 != 0) or y % 400 == 0 else 28, 31, 30, 31, 30, 31, 31, 30, 31, 30, 31][mo - 1]
        us = rng.choice([0, rng.randint(0, 999999), rng.randint(0, 999) * 1000])
        r = rng.random()
        if r < 0.3:
            off = None
        elif r < 0.55:
            off = rng.randint(-24 * 60 + 1, 24 * 60 - 1) * 60000000
        elif r < 0.75:
            off = rng.randint(-86399, 86399) * 1000000
        elif r < 0.9:
            off = rng.randint(-86399999999, 86399999999)
        else:
            off = rng.randint(-2000000, 2000000)
        out.append(mk_dt(y, mo, rng.randint(1, dim), rng.randint(0, 23), rng.randint(0, 59), rng.randint(0, 59), us, off))
    return out


# ------------------------------------------------------------------ regions (signatures, distributions)
def region(v):
    if type(v) is str:
        if v == '':
            return 'empty'
        m = max(map(ord, v))
        return 'ascii' if m < 128 else 'bmp' if m < 0x10000 else 'astral'
    if type(v) is bool:
        return str(v)
    if type(v) is int:
        return 'zero' if v == 0 else ('negative-' if v < 0 else 'positive-') + ('small' if abs(v) < 2 ** 63 else 'large')
    if type(v) is float:
        return float_class(v)
    if type(v) is Decimal:
        if not v.is_finite():
            return 'special'
        s, c, e = dec_triple(v)
        L = len(str(c))
        return ('plain' if e <= 0 and e + L > -6 else 'scientific') + ('-zero' if c == 0 else '')
    if type(v) is datetime:
        off = v.utcoffset()
        if off is None:
            return 'naive'
        o = off // US
        if o == 0:
            return 'utc'
        if abs(o) < 1000000:
            return 'utc-offset-nonzero-under-one-second'
        if o % 1000000:
            return 'utc-offset-with-sub-second-part'
        return 'utc-offset-whole-minutes' if o % 60000000 == 0 else 'utc-offset-whole-seconds'
    return type(v).__name__


def same_value(v, w):
    """the property's `equals v and has the same Python type` (NaN equals NaN)"""
    if type(w) is not type(v):
        return 'type'
    if type(v) is float and math.isnan(v):
        return None if math.isnan(w) else 'value'
    if type(v) is Decimal and v.is_nan():
        return None if v.as_tuple() == w.as_tuple() else 'value'
    try:
        return None if w == v else 'value'
    except Exception:
        return 'value'


# ------------------------------------------------------------------ the run
def load_tables():
    common.use_repo()
    E = importlib.import_module('pyecore.ecore')
    T = importlib.import_module('pyecore.type.type')
    importlib.import_module('pyecore.type')
    return E, T


def impl_datatypes(mod, E, foreign=()):
    """name -> EDataType object for every data type bound at module level (EEnums apart)"""
    res = {}
    for k, o in vars(mod).items():
        if isinstance(o, E.EDataType) and not isinstance(o, E.EEnum) and not any(o is f for f in foreign):
            res[k] = o
    return res


def in_property(dt, which):
    """Is this data type one the property lists?  -> Python type of its domain, or None.
    ecore: strings, characters, booleans, integers, floats, big decimals, dates.
    XMLTypes: boolean, integer and floating-point types; the java.math.BigInteger family is typed `object`
    in Python (not in javaTransMap) but holds ints."""
    t = dt.eType
    if which == 'ecore':
        return t if t in (str, bool, int, float, Decimal, datetime) else None
    if t in (bool, int, float):
        return t
    if dt.instanceClassName == 'java.math.BigInteger':
        return int
    return None


def ask_text(m, req):
    r = m.ask('dataconv', req)
    if r[0] == 1:
        return dec_text(r, 1)[0]
    return None if r[0] == 0 else ('?', r)


def ask_val(m, req):
    r = m.ask('dataconv', req)
    if r[0] == 1:
        return dec_val(r, 1)
    return None if r[0] == 0 else ('?', r)


def run(ctx, out):
    thorough = ctx.tier == 'thorough'
    rng = ctx.rng
    t0 = time.time()
    phases = {}

    def phase(name):
        nonlocal t0
        phases[name] = round(time.time() - t0, 2)
        t0 = time.time()
    E, T = load_tables()
    # application data types that merely SHARE A NAME with the built-in ones (an application package may well declare
    # its own 'EDouble' printing two decimals, its own day-only 'EDate' ...): the converters of a data type belong to
    # that data type object; creating these must not change what the built-in ones do
    impostors = [
        E.EDataType('EDouble', float, from_string=lambda s: round(float(s), 1), to_string=lambda v: '%.2f' % v),
        E.EDataType('EFloat', float, from_string=lambda s: 0.0, to_string=lambda v: '0'),
        E.EDataType('EInt', int, from_string=lambda s: int(s) % 100, to_string=lambda v: str(v % 100)),
        E.EDataType('ELong', int, from_string=lambda s: 0, to_string=lambda v: '0'),
        E.EDataType('EString', str, from_string=lambda s: s.strip().lower(), to_string=lambda v: v.upper()),
        E.EDataType('EBoolean', bool, from_string=lambda s: True, to_string=lambda v: 'yes'),
        E.EDataType('EDate', object, from_string=lambda s: s[:10], to_string=lambda v: str(v)[:10]),
        E.EDataType('EBigDecimal', object, from_string=lambda s: None, to_string=lambda v: '?'),
    ]
    out.coverage['namesake_data_types_created_first'] = len(impostors)
    ctx._keep_impostors = impostors
    m = common.Model()
    N = 4000 if thorough else 250
    stats = {'corr': 0, 'oracle': 0, 'by_type': {}, 'by_region': {}, 'outside_image': 0, 'distinct': set(),
             'samples': [], 'float_hyp': 0, 'strptime': 0, 'enum': 0, 'not_listed': [], 'entries': 0}

    values = {
        str: gen_strs(rng, N),
        bool: [True, False],
        int: gen_ints(rng, N, thorough),
        float: gen_floats(rng, N * 4),
        Decimal: gen_decimals(rng, N, thorough),
        datetime: gen_dates(rng, N, None),
    }
    low_year_dates = gen_dates(rng, 0, [1, 9, 10, 99, 100, 999])[:0] + [
        mk_dt(y, 1, 1, 0, 0, 0, 0, off) for y in (1, 9, 10, 99, 100, 999) for off in (None, 0)]
    extra_texts = {
        'FS_bool': ['True', 'true', 'TRUE', 'False', 'false', '', '1', '0', ' true', 'true ', 'tru', 'Truee', 'yes',
                    'trUe', 'ı', 'True\n'],
        'FS_int': ['007', '-0', '-', '', '+5', ' 5', '5 ', '5_0', '٣', '--1', '1-', '0x10', '1.0', '1e3', '-007', '00'],
        'FS_Decimal': ['1.', '.5', '-.5', '0.', '1e5', '1E5', '1E+5', '1E-5', '+1', '00.100', '-0E-0', '1e', 'e1', '.',
                       '', '-', '1..2', '1.2.3', '12E+', '0.000000', '1.2e+0003', '1_0', ' 1', 'Infinity', 'NaN'],
    }

    # ---------- A. table <-> module objects, Python types ----------
    tables = {}
    for k, (mod, which, foreign) in enumerate([(E, 'ecore', ()), (T, 'xml', tuple(impl_datatypes(E, E).values()))]):
        r = m.ask('dataconv', [1, k])
        names, p = [], 1
        for _ in range(r[0]):
            s, p = dec_text(r, p)
            names.append(s)
        objs = impl_datatypes(mod, E, foreign)
        if set(names) != set(objs):
            out.diff(f'{which}: generated table and module disagree on the data types: only in table '
                     f'{sorted(set(names) - set(objs))}, only in module {sorted(set(objs) - set(names))}',
                     {'table': which})
        for i, nm in enumerate(names):
            dt = objs.get(nm)
            if dt is None:
                continue
            if dt.name != nm:
                out.diff(f'{which}.{nm}: object is named {dt.name!r}', {'table': which, 'datatype': nm})
            code = m.ask('dataconv', [6, k, i])[0]
            stats['corr'] += 1
            if PYTYPE_CODE.get(dt.eType, -1) != code:
                out.diff(f'{which}.{nm}: Python type {dt.eType} but the table says code {code}',
                         {'table': which, 'datatype': nm})
        tables[which] = (k, names, objs)
    r = m.ask('dataconv', [8])
    formats, p = [], 1
    for _ in range(r[0]):
        s, p = dec_text(r, p)
        formats.append(s)

    phase('A tables')

    # ---------- B. correspondence of every conversion, both directions ----------
    def corr_entry(which, k, i, nm, dt, vals, extra):
        for v in vals:
            case = {'table': which, 'datatype': nm, 'value': repr(v)}
            try:
                it = dt.to_string(v)
            except Exception as ex:
                it = None
            mt = ask_text(m, [2, k, i] + enc_val(v))
            stats['corr'] += 1
            if mt != it:
                out.diff(f'{which}.{nm}.to_string({v!r}): model {mt!r} impl {it!r}', case)
                continue
            if it is None or type(it) is not str:
                continue
            back(which, k, i, nm, dt, it, case, True)
        for t in extra:
            back(which, k, i, nm, dt, t, {'table': which, 'datatype': nm, 'text': t}, False)

    def back(which, k, i, nm, dt, text, case, in_image):
        try:
            iv = canon(dt.from_string(text))
        except Exception:
            iv = None
        mv = ask_val(m, [3, k, i] + enc_text(text))
        stats['corr'] += 1
        if mv is None and iv is not None and not in_image:
            stats['outside_image'] += 1      # the real parser accepts more than the formatter's image
            return
        if mv != iv:
            out.diff(f'{which}.{nm}.from_string({text!r}): model {mv!r} impl {iv!r}', case)

    for which in ('ecore', 'xml'):
        k, names, objs = tables[which]
        for i, nm in enumerate(names):
            dt = objs.get(nm)
            if dt is None:
                continue
            t = in_property(dt, which)
            if t is None:
                t = dt.eType if dt.eType in MODELLED else None   # e.g. the string XMLTypes: modelled, not listed
            if t is None or t is float:
                continue
            vals = values[t]
            primary = (which, nm) in (('ecore', 'EString'), ('ecore', 'EBoolean'), ('ecore', 'EBooleanObject'),
                                      ('ecore', 'EInt'), ('ecore', 'EBigInteger'), ('ecore', 'EDate'),
                                      ('ecore', 'EBigDecimal'), ('ecore', 'EChar'), ('xml', 'Integer'),
                                      ('xml', 'Boolean'), ('xml', 'Byte'))
            if not primary:
                # same tag pair as a fully sampled entry: a thinner sample, and no integers above 2^1100
                # (the extracted str(int) is quadratic: 1.6 s for a 14000-bit value)
                vals = vals[::7] if not thorough else vals[::4]
                if t is int:
                    vals = [v for v in vals if abs(v) < 2 ** 1100]
            elif t is int and nm not in ('EBigInteger', 'Integer'):
                vals = [v for v in vals if abs(v) < 2 ** 4200]
            if t is datetime:
                vals = vals + low_year_dates
            extra = []
            if t is bool:
                extra = extra_texts['FS_bool']
            elif t is int:
                extra = extra_texts['FS_int']
            elif t is Decimal:
                extra = extra_texts['FS_Decimal']
            elif t is str:
                extra = []
            corr_entry(which, k, i, nm, dt, vals, extra)
            stats['entries'] += 1

    phase('B conversions')

    # the strptime fall-back of parse_date, one format at a time (unreachable through parse_date on CPython >= 3.11
    # for the formatter's image, hence compared with datetime.strptime directly)
    for j, f in enumerate(formats):
        for d in values[datetime][::5] + low_year_dates:
            try:
                text = d.strftime(f)
            except Exception:
                continue
            try:
                iv = canon(datetime.strptime(text, f))
            except Exception:
                iv = None
            mv = ask_val(m, [7, j] + enc_text(text))
            stats['corr'] += 1
            stats['strptime'] += 1
            if mv != iv:
                out.diff(f'strptime({text!r}, {f!r}): model {mv!r} CPython {iv!r}', {'format': f, 'text': text})

    # the hypothesis of the float theorems: float(repr(f)) is f again (bit for bit; every NaN reads back as a NaN)
    for f in values[float]:
        stats['float_hyp'] += 1
        g = float(repr(f))
        ok = (math.isnan(f) and math.isnan(g)) or bits_of(f) == bits_of(g)
        if not ok or type(g) is not float or str(f) != repr(f):
            out.diff(f'CPython float(repr(f)) != f for f = {f.hex()}', {'float_hex': f.hex()})

    phase('B strptime+float hypothesis')

    # ---------- C. enumerations ----------
    enum_cases = gen_enums(rng, 60 if not thorough else 600)
    for lits, valid in enum_cases:
        en = E.EEnum('En')
        # (every second literal carries a display text `literal` different from its name: conversion goes by NAME)
        objs = [E.EEnumLiteral(name=nm, value=val) for nm, val in lits]
        for j, x in enumerate(objs):
            if j % 2:
                x.literal = 'lit ' + x.name
        en.eLiterals.extend(objs)
        kept = list(en.eLiterals)          # an ordered set: literals are distinct objects, all kept
        req_e = [len(kept)]
        for o in kept:
            req_e += enc_text(o.name) + [o.value]
        for i, o in enumerate(kept):
            case = {'enum': [[nm, val] for nm, val in lits], 'literal': i}
            it = en.to_string(o)
            mt = ask_text(m, [4] + req_e + [i])
            stats['corr'] += 1
            stats['enum'] += 1
            if mt != it:
                out.diff(f'EEnum.to_string: model {mt!r} impl {it!r}', case)
                continue
            w = en.from_string(it)
            r = m.ask('dataconv', [5] + req_e + enc_text(it))
            mi = r[1] if r[0] == 1 else None
            ii = next((j for j, x in enumerate(kept) if x is w), None)
            stats['corr'] += 1
            if mi != ii:
                out.diff(f'EEnum.from_string({it!r}): model {mi!r} impl {ii!r}', case)
            if valid:
                stats['oracle'] += 1
                bump(stats, 'EEnum', 'unique-non-empty-names')
                if w is not o:
                    out.fail({'property': 'C17', 'datatype': 'EEnum', 'clause': 'value',
                              'region': 'unique-non-empty-names'},
                             f'EEnum literal {o!r} comes back as {w!r}', case)
        for t in ['', 'nope'] + [nm for nm, _ in lits[:2]]:
            w = en.from_string(t)
            r = m.ask('dataconv', [5] + req_e + enc_text(t))
            mi = r[1] if r[0] == 1 else None
            ii = next((j for j, x in enumerate(kept) if x is w), None)
            stats['corr'] += 1
            if mi != ii:
                out.diff(f'EEnum.from_string({t!r}): model {mi!r} impl {ii!r}', {'enum': lits, 'text': t})
    # the constructor path EEnum(name, literals=[...])
    en = E.EEnum('Colour', literals=['RED', 'GREEN', '1BLUE'])
    for o in en.eLiterals:
        stats['oracle'] += 1
        if en.from_string(en.to_string(o)) is not o:
            out.fail({'property': 'C17', 'datatype': 'EEnum', 'clause': 'value', 'region': 'constructor-literals'},
                     f'{o!r} does not come back', {'enum': 'Colour', 'literal': o.name})

    phase('C enumerations')

    # ---------- D. oracle: the property on the implementation ----------
    oracle_types = []
    for which, mod, foreign in (('ecore', E, ()), ('xml', T, tuple(impl_datatypes(E, E).values()))):
        for nm, dt in sorted(impl_datatypes(mod, E, foreign).items()):
            t = in_property(dt, which)
            if t is None:
                stats['not_listed'].append(f'{which}.{nm}({getattr(dt.eType, "__name__", dt.eType)})')
                continue
            oracle_types.append(f'{which}.{nm}')
            vals = values[t]
            if t is Decimal:
                vals = vals + [Decimal('Infinity'), Decimal('-Infinity'), Decimal('NaN'), Decimal('-NaN'),
                               Decimal('sNaN'), Decimal('NaN123')]
            for v in vals:
                oracle_one(out, stats, which, nm, dt, v)
    m.close()
    phase('D oracle')

    out.coverage.update({
        'phase_seconds': phases,
        'evaluations': stats['oracle'],
        'distinct_nontrivial': len(stats['distinct']),
        'rule': 'a case = (data type object, value); distinct_nontrivial counts distinct (Python type, value) pairs '
                'on which from_string(to_string(v)) was evaluated on the implementation; boundary values are '
                'enumerated per type (0, +-1, +-2^k+-1, +-10^k; all float classes; field extremes of dates, every '
                'offset shape; decimal exponents around the plain/scientific switch and huge), the rest drawn from ctx.rng',
        'samples': stats['samples'][:8],
        'traces_validated_against_impl': stats['corr'],
        'model_vs_impl_comparisons': stats['corr'],
        'table_entries_run_through_the_model': stats['entries'],
        'strptime_fallback_comparisons': stats['strptime'],
        'float_hypothesis_samples': stats['float_hyp'],
        'float_classes': {c: sum(1 for f in values[float] if float_class(f) == c)
                          for c in ('zero', 'subnormal', 'normal', 'inf', 'nan')},
        'enum_literal_comparisons': stats['enum'],
        'texts_outside_the_modelled_image': stats['outside_image'],
        'oracle_evaluations_by_python_type': stats['by_type'],
        'oracle_evaluations_by_region': stats['by_region'],
        'values_per_type': {t.__name__: len(v) for t, v in values.items()},
        'datatypes_under_oracle': oracle_types,
        'datatypes_not_listed_by_the_property': stats['not_listed'],
        'strptime_formats': formats,
    })
    out.assumptions += [
        'CPython 3.12 on glibc: %Y is not zero padded (years < 1000 are outside the property: "from year 1000 on")',
        'default decimal context (capitals=1); decimals are those CPython can construct (adjusted exponent within +-10^18)',
        'integers are sampled up to 2^2048 (thorough 2^14000): beyond sys.get_int_max_str_digits() (4300 digits) '
        'CPython itself refuses str(int)/int(str)',
        'float repr/parse are CPython\'s (section hypothesis float_of_repr), validated on %d floats of every class' % stats['float_hyp'],
        'byte-string types (EByte, EByteObject, EByteArray: Python bytes/bytearray), XML Decimal/date/duration/QName/'
        'list types and the object/dict/type-valued types are not in the property\'s list',
        'values of an integer type are exact ints (bool is not sampled as an int)',
        'datetime equality is Python\'s (same instant for aware values); the model/implementation comparison is '
        'field-wise, offset included',
    ]


def bump(stats, tname, reg):
    stats['by_type'][tname] = stats['by_type'].get(tname, 0) + 1
    key = f'{tname}:{reg}'
    stats['by_region'][key] = stats['by_region'].get(key, 0) + 1


def oracle_one(out, stats, which, nm, dt, v):
    reg = region(v)
    stats['oracle'] += 1
    bump(stats, type(v).__name__, reg)
    stats['distinct'].add((type(v).__name__, v.hex() if type(v) is float else repr(v)))
    case = {'table': which, 'datatype': nm, 'value': value_json(v)}
    if len(stats['samples']) < 8 and stats['oracle'] % 997 == 1:
        stats['samples'].append(case)
    clause = None
    what = ''
    try:
        s = dt.to_string(v)
        w = dt.from_string(s)
        clause = same_value(v, w)
        if clause:
            what = f'{nm}: {v!r} -> {s!r} -> {w!r}'
    except Exception as ex:
        clause = 'raises'
        what = f'{nm}: {v!r} raises {type(ex).__name__}: {ex}'
    if clause:
        out.fail({'property': 'C17', 'datatype': nm, 'clause': clause, 'region': reg}, what, case)


def value_json(v):
    if type(v) is float:
        return {'float_hex': v.hex()}
    if type(v) is Decimal:
        return {'decimal': str(v)}
    if type(v) is datetime:
        return {'datetime': list(dt_fields(v))}
    if type(v) is int:
        return {'int': str(v)}
    if type(v) is bool:
        return {'bool': v}
    return {'str': [ord(c) for c in v]}


def value_of_json(j):
    if 'float_hex' in j:
        return float.fromhex(j['float_hex'])
    if 'decimal' in j:
        return Decimal(j['decimal'])
    if 'datetime' in j:
        f = j['datetime']
        return mk_dt(*f[:7], f[8] if f[7] else None)
    if 'int' in j:
        return int(j['int'])
    if 'bool' in j:
        return bool(j['bool'])
    return ''.join(chr(c) for c in j['str'])


def gen_enums(rng, n):
    """[( [(name, value)...], satisfies_the_hypotheses )]"""
    pool = ['A', 'B', 'a', 'RED', 'green', '_1x', 'é', '\U0001F600', 'x y', ' ', '0', 'None', 'True', 'name', 'value',
            'Aa', 'AA', 'ß', 'SS', 'ab', 'abc']
    out = [([('A', 0)], True), ([('A', 0), ('B', 1), ('C', 2)], True), ([('B', 5), ('A', 0)], True),
           ([('A', 1), ('B', 1)], True), ([('A', 0), ('A', 1)], False), ([('', 0), ('B', 1)], False),
           ([('B', 1), ('', 0)], False), ([('B', 1), ('', 3)], False), ([('x', 3), ('', 0), ('y', 0)], False)]
    for _ in range(n):
        k = rng.randint(1, 6)
        if rng.random() < 0.75:
            names = rng.sample(pool, k)
            valid = True
        else:
            names = [rng.choice(pool[:6] + ['']) for _ in range(k)]
            valid = len(set(names)) == len(names) and '' not in names
        vals = [rng.choice([i, i, 0, rng.randint(-3, 9)]) for i in range(k)]
        out.append((list(zip(names, vals)), valid))
    return out


def replay(ctx, rep):
    E, T = load_tables()
    case = rep['case']
    if 'enum' in case and 'value' not in case:
        print('enum case', case)
        if not isinstance(case['enum'], list):
            return 0
        en = E.EEnum('En')
        objs = [E.EEnumLiteral(name=nm, value=val) for nm, val in case['enum']]
        for j, x in enumerate(objs):
            if j % 2:
                x.literal = 'lit ' + x.name
        en.eLiterals.extend(objs)
        o = list(en.eLiterals)[case.get('literal', 0)]
        w = en.from_string(en.to_string(o))
        print(repr(o), '->', repr(en.to_string(o)), '->', repr(w))
        bad = w is not o
        print('REPRODUCED' if bad else 'not reproduced')
        return 1 if bad else 0
    mod = E if case['table'] == 'ecore' else T
    dt = getattr(mod, case['datatype'])
    v = value_of_json(case['value'])
    try:
        s = dt.to_string(v)
        w = dt.from_string(s)
        print(f'{case["datatype"]}: v = {v!r}\n  to_string   -> {s!r}\n  from_string -> {w!r}  (type {type(w).__name__})')
        bad = same_value(v, w)
    except Exception as ex:
        print(f'{case["datatype"]}: v = {v!r} raises {type(ex).__name__}: {ex}')
        bad = 'raises'
    print(f'REPRODUCED ({bad})' if bad else 'not reproduced')
    return 1 if bad else 0
