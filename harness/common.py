"""Shared machinery of every property check: build, proof status, model process,
known findings, verdict, evidence.  Run with /venv/bin/python -P."""
import fcntl
import hashlib
import json
import os
import random
import re
import subprocess
import sys
import time

VERIF = os.path.dirname(os.path.dirname(os.path.abspath(__file__)))
REPO = os.environ.get('VERIF_REPO', '/repo')
COQ = os.path.join(VERIF, 'coq')
BUILD = os.path.join(VERIF, 'build')
# a run against another checkout (VERIF_REPO, used to try seeded changes) must not
# overwrite the evidence and replays of /repo itself
_OUT = VERIF if REPO == '/repo' else os.path.join(VERIF, 'build', 'scratch', 'other_repo')
REPLAYS = os.path.join(_OUT, 'replays')
EVIDENCE = os.path.join(_OUT, 'evidence')
PY = '/venv/bin/python'

ALLOWED_AXIOMS = {
    # axioms declared by Coq's standard library; every use is reported in the evidence
    'functional_extensionality_dep', 'classic', 'proof_irrelevance', 'JMeq_eq',
    'Eqdep.Eq_rect_eq.eq_rect_eq', 'eq_rect_eq', 'propositional_extensionality',
    'constructive_indefinite_description', 'dependent_unique_choice', 'relational_choice',
    'ClassicalDedekindReals.sig_forall_dec', 'ClassicalDedekindReals.sig_not_dec',
}
FORBIDDEN = re.compile(
    r'\b(Admitted|admit|Axiom|Axioms|Parameter|Parameters|Conjecture|Conjectures|Unset\s+Guard|'
    r'bypass_check|Admit\s+Obligations|type-in-type|impredicative-set|Unset\s+Universe\s+Checking|'
    r'Unset\s+Positivity)\b')


def use_repo():
    """Make `import pyecore` resolve to REPO's working tree and nothing else."""
    if REPO not in sys.path:
        sys.path.insert(0, REPO)
    import pyecore
    assert os.path.abspath(pyecore.__file__).startswith(os.path.abspath(REPO) + os.sep), pyecore.__file__
    return pyecore


def sh(cmd, timeout=3000, cwd=None, env=None):
    p = subprocess.run(cmd, shell=isinstance(cmd, str), cwd=cwd, env=env, timeout=timeout,
                       stdout=subprocess.PIPE, stderr=subprocess.STDOUT, text=True)
    out = '\n'.join(l for l in p.stdout.splitlines() if 'WARNING: conda' not in l and 'conda' not in l.lower()[:20])
    return p.returncode, out


class Build:
    """Result of (re)building the Coq development and the extracted driver."""

    def __init__(self):
        self.log = ''
        self.translator_ok = True
        self.translator_msg = ''
        self.failed_files = []
        self.modelrun_ok = False

    def vo_ok(self, rel):
        v = os.path.join(COQ, rel)
        vo = v[:-2] + '.vo'
        return os.path.exists(vo) and os.path.getmtime(vo) >= os.path.getmtime(v) and rel not in self.failed_files


def build_all():
    """Translator + incremental make + extraction, under a lock."""
    b = Build()
    os.makedirs(BUILD, exist_ok=True)
    st = os.path.join(BUILD, 'translator.status')
    if os.path.exists(st):
        os.remove(st)
    rc, out = sh([os.path.join(VERIF, 'setup.sh')], timeout=3500)
    b.log = out
    if os.path.exists(st):
        b.translator_ok = False
        b.translator_msg = open(st).read()
    mk = os.path.join(BUILD, 'make.log')
    if os.path.exists(mk):
        txt = open(mk).read()
        b.failed_files = re.findall(r'File "\./([^"]+\.v)", line \d+, characters [\d-]+:\nError', txt)
        b.failed_files += re.findall(r'make.*\*\*\* \[[^\]]*: ([^\]\s]+)\.vo\]', txt)
        b.failed_files = sorted(set(f if f.endswith('.v') else f + '.v' for f in b.failed_files))
        b.make_tail = txt[-3000:]
    b.modelrun_ok = rc == 0 and os.path.exists(os.path.join(BUILD, 'modelrun'))
    return b


def deps_of(rel, seen=None):
    """Transitive PyecoreV dependencies of a .v file (by scanning Require lines)."""
    seen = seen if seen is not None else set()
    if rel in seen:
        return seen
    seen.add(rel)
    p = os.path.join(COQ, rel)
    if not os.path.exists(p):
        return seen
    txt = re.sub(r'\(\*.*?\*\)', ' ', open(p).read(), flags=re.S)
    # a Require statement ends at a '.' followed by white space; module names contain dots; may span lines
    for line in re.findall(r'(?:From\s+PyecoreV\s+)?Require\s+(?:Import|Export)?\s*(.*?)\.(?=\s|$)', txt, flags=re.S):
        for name in line.split():
            name = name.replace('PyecoreV.', '')
            cand = name.replace('.', '/') + '.v'
            if os.path.exists(os.path.join(COQ, cand)):
                deps_of(cand, seen)
    return seen


def proof_status(pid, build):
    """Compile status of Props/<pid>.v and everything it depends on, its
    Print Assumptions output, the forbidden-word scan, obligation counts."""
    rel = f'Props/{pid}.v'
    files = sorted(deps_of(rel))
    st = {'props_file': rel, 'files': files, 'ok': True, 'problems': [], 'axioms': [],
          'theorems': [], 'obligations': 0, 'discharged': 0}
    if not os.path.exists(os.path.join(COQ, rel)):
        st['ok'] = False
        st['problems'].append(f'{rel} missing')
        return st
    for f in files:
        txt = open(os.path.join(COQ, f)).read()
        code = re.sub(r'\(\*.*?\*\)', ' ', txt, flags=re.S)
        m = FORBIDDEN.search(code)
        if m:
            st['ok'] = False
            st['problems'].append(f'forbidden word {m.group(0)!r} in {f}')
        n = len(re.findall(r'^\s*(?:Theorem|Lemma|Corollary|Example|Fact|Remark|Proposition)\s', code, flags=re.M))
        if f.startswith('Props/') or f.startswith('Proofs/'):
            st['obligations'] += n
            if build.vo_ok(f):
                st['discharged'] += n
        if not build.vo_ok(f):
            st['ok'] = False
            st['problems'].append(f'{f} does not compile')
    if not st['ok']:
        return st
    # recompile the property file alone to capture Print Assumptions
    rc, out = sh(['coqc', '-Q', COQ, 'PyecoreV', os.path.join(COQ, rel)], timeout=900, cwd=COQ)
    st['coqc_output'] = out[-6000:]
    if rc != 0:
        st['ok'] = False
        st['problems'].append(f'coqc {rel} failed')
        return st
    code = re.sub(r'\(\*.*?\*\)', ' ', open(os.path.join(COQ, rel)).read(), flags=re.S)
    st['theorems'] = re.findall(r'^\s*Theorem\s+(\w+)', code, flags=re.M)
    n_print = len(re.findall(r'Print\s+Assumptions', code))
    if n_print < len(st['theorems']):
        st['ok'] = False
        st['problems'].append('a theorem lacks Print Assumptions')
    closed = out.count('Closed under the global context')
    axioms = set()
    for blk in re.findall(r'Axioms:\n((?:.+\n?)*?)(?:\n\n|\Z|(?=Closed under)|(?=Axioms:))', out):
        for m in re.finditer(r'^([A-Za-z_][\w.\']*)\s*:', blk, flags=re.M):
            axioms.add(m.group(1))
    # section hypotheses are not axioms; anything else must be an allowed stdlib axiom
    bad = [a for a in axioms if a.split('.')[-1] not in ALLOWED_AXIOMS and a not in ALLOWED_AXIOMS]
    st['axioms'] = sorted(axioms)
    st['closed_theorems'] = closed
    if bad:
        st['ok'] = False
        st['problems'].append(f'unexpected axioms: {bad}')
    return st


class Model:
    """Persistent modelrun process: one request line -> one answer line."""

    def __init__(self):
        self.p = subprocess.Popen([os.path.join(BUILD, 'modelrun')], stdin=subprocess.PIPE,
                                  stdout=subprocess.PIPE, text=True, bufsize=1)
        self.calls = 0

    def ask(self, name, toks):
        self.p.stdin.write(name + ' ' + ' '.join(str(int(t)) for t in toks) + '\n')
        self.p.stdin.flush()
        line = self.p.stdout.readline()
        if not line:
            raise RuntimeError('modelrun died on ' + name)
        self.calls += 1
        return [int(x) for x in line.split()]

    def close(self):
        try:
            self.p.stdin.close()
            self.p.wait(timeout=5)
        except Exception:
            self.p.kill()


def load_known():
    p = os.path.join(VERIF, 'known_findings.json')
    if not os.path.exists(p):
        return {'findings': [], 'fixed': []}
    return json.load(open(p))


def sig_key(sig):
    return json.dumps(sig, sort_keys=True)


class Outcome:
    """Collects what a property run saw; turns it into exit code, lines, evidence."""

    def __init__(self, pid, tier, seed):
        self.pid, self.tier, self.seed = pid, tier, seed
        self.t0 = time.time()
        self.corr_diffs = []       # [{'what':..., 'case':...}]
        self.oracle_fails = []     # [{'signature':{}, 'what':str, 'case':{}}]
        self.coverage = {}
        self.assumptions = []
        self.notes = []
        self.proof = None
        self.build = None

    def diff(self, what, case, detail=None):
        if len(self.corr_diffs) < 50:
            self.corr_diffs.append({'what': what, 'case': case, 'detail': detail})
        else:
            self.corr_diffs.append(None)

    def fail(self, signature, what, case):
        self.oracle_fails.append({'signature': signature, 'what': what, 'case': case})

    def finish(self, level='proof'):
        pid = self.pid
        known = load_known()
        kf = [k for k in known.get('findings', []) if k['property'] == pid]
        known_sigs = {sig_key(k['signature']): k for k in kf}
        new = [f for f in self.oracle_fails if sig_key(f['signature']) not in known_sigs]
        seen_known = {sig_key(f['signature']) for f in self.oracle_fails if sig_key(f['signature']) in known_sigs}
        os.makedirs(REPLAYS, exist_ok=True)
        os.makedirs(EVIDENCE, exist_ok=True)
        lines = []
        violations = 0
        tie_problems = []
        if self.build is not None and not self.build.translator_ok:
            tie_problems.append('translator refused the source: ' + self.build.translator_msg.strip()[:300])
        if self.build is not None and not self.build.modelrun_ok:
            tie_problems.append('extracted model driver failed to build')
        if self.proof is not None and not self.proof['ok']:
            tie_problems.append('proof obligations: ' + '; '.join(self.proof['problems']))
        ndiff = len(self.corr_diffs)
        if ndiff:
            first = next(d for d in self.corr_diffs if d)
            tie_problems.append(f'correspondence model/implementation differs on {ndiff} case(s); first: {first["what"]}')
        if new:
            # distinct signatures, first (smallest) case of each
            bysig = {}
            for f in new:
                k = sig_key(f['signature'])
                if k not in bysig or len(json.dumps(f['case'])) < len(json.dumps(bysig[k]['case'])):
                    bysig[k] = f
            for i, (k, f) in enumerate(sorted(bysig.items())):
                path = os.path.join(REPLAYS, f'{pid}_{hashlib.sha1(k.encode()).hexdigest()[:10]}.json')
                json.dump({'property': pid, 'kind': 'failing-input', 'signature': f['signature'],
                           'what': f['what'], 'case': f['case'], 'tie_problems': tie_problems,
                           'replay': f'./check {pid} --replay {path}'}, open(path, 'w'), indent=1)
                lines.append(f'VIOLATION property={pid} replay={path}')
                violations += 1
        elif tie_problems:
            path = os.path.join(REPLAYS, f'{pid}_tie_broken.json')
            first = next((d for d in self.corr_diffs if d), None)
            json.dump({'property': pid, 'kind': 'tie-broken', 'no_failing_input_found': True,
                       'broken': tie_problems,
                       'theorems': (self.proof or {}).get('theorems'),
                       'proof_problems': (self.proof or {}).get('problems'),
                       'first_correspondence_difference': first,
                       'coqc_output_tail': (self.proof or {}).get('coqc_output', '')[-1500:],
                       'make_tail': getattr(self.build, 'make_tail', '')[-1500:] if self.build else ''},
                      open(path, 'w'), indent=1)
            lines.append(f'VIOLATION property={pid} replay={path} no-failing-input-found')
            violations += 1
        for k in kf:
            seen = sig_key(k['signature']) in seen_known
            lines.append(f'KNOWN-FINDING: property={pid} {k["id"]}: {k["what"]}'
                         + ('' if seen else ' (not re-observed in this run)'))
        cov = dict(self.coverage)
        if self.proof is not None:
            cov.setdefault('obligations', self.proof['obligations'])
            cov.setdefault('discharged', self.proof['discharged'])
            cov.setdefault('checker_cmd', f'cd /verif/coq && make && coqc -Q . PyecoreV Props/{pid}.v  (Coq 8.16.1 kernel; Print Assumptions parsed)')
            cov.setdefault('trusted_base', TRUSTED_BASE + [f'Print Assumptions reported: {self.proof["axioms"] or "Closed under the global context"}'])
            cov['theorems'] = self.proof['theorems']
            cov['proof_files'] = self.proof['files']
            cov['proof_problems'] = self.proof['problems']
        cov['correspondence_differences'] = ndiff
        cov['oracle_failures_total'] = len(self.oracle_fails)
        cov['oracle_failures_unknown'] = len(new)
        cov['known_findings_listed'] = [k['id'] for k in kf]
        cov['known_findings_reobserved'] = sorted(known_sigs[s]['id'] for s in seen_known)
        cov['notes'] = self.notes
        ev = {'property_id': pid, 'tier': self.tier, 'seed': self.seed, 'level': level,
              'coverage': cov, 'assumptions': self.assumptions,
              'wall_s': round(time.time() - self.t0, 2), 'violations': violations}
        json.dump(ev, open(os.path.join(EVIDENCE, f'{pid}.json'), 'w'), indent=1, default=str)
        for l in lines:
            print(l)
        print(f'[{pid}] tier={self.tier} seed={self.seed} proof_ok={self.proof and self.proof["ok"]} '
              f'corr_diffs={ndiff} oracle_fails={len(self.oracle_fails)} unknown={len(new)} '
              f'wall={ev["wall_s"]}s -> {"FAIL" if violations else "ok"}')
        return 1 if violations else 0


TRUSTED_BASE = [
    'Coq 8.16.1 kernel (coqc); vm_compute used for closed witnesses/finite tables; native_compute not used',
    'extraction: ExtrOcamlBasic only (Extract Inductive bool/option/unit/list/prod/sumbool/sumor, Extract Inlined Constant fst/snd/andb/orb/negb as shipped); Z/positive/nat stay extracted inductives; OCaml 4.13.1; ocaml/driver.ml int<->Z glue',
    'correspondence harness (harness/*.py): encoders of cases/observations, comparison; translator (translator/*.py) where a Gen/*.v table is used',
    'CPython built-ins, ordered_set 4.1.0 unpatched methods, lxml, json are modelled, not verified (DESIGN.md section 7)',
]


def rng_for(seed, salt=''):
    return random.Random(f'{seed}:{salt}')


def scenario_replay(ctx, rep, table):
    """Replay of a failure found by an implementation-only scenario generator: the generator is re-run with the
    recorded seed and tier (each scenario draws from its own PRNG stream) and the failure reproduces when a
    failure with the same signature and the same recorded history shows up again."""
    case = rep['case']
    ctx.seed, ctx.tier = case.get('seed', 0), case.get('tier', 'quick')

    class _Out:
        def __init__(self):
            self.fails, self.coverage, self.assumptions, self.notes = [], {}, [], []

        def fail(self, signature, what, case):
            self.fails.append((signature, what, case))

        def diff(self, what, case):
            self.fails.append(({'diff': True}, what, case))
    o = _Out()
    table[case['scenario']](ctx, o)
    for sig, what, c in o.fails:
        if c.get('history') == case.get('history'):
            print('REPRODUCED', what)
            return 1
    for sig, what, c in o.fails:
        if sig == rep.get('signature'):
            print('REPRODUCED (same signature, other history)', what)
            return 1
    print('not reproduced')
    return 0
