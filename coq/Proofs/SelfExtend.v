(* c.extend(c) / c += c / c.update(c): the argument is the collection itself, for the model
   OExtend x f (vals s (x, f)) (the snapshot of the slot taken before the call).
   Containment references: Proofs/BulkMove.v (bulk_self).  Here the remaining shapes, a
   many-valued feature WITHOUT opposite and WITHOUT containment (attributes and plain
   references), from ANY state: a non-unique collection (EList) is doubled, as a Python list
   extended by itself; a unique one (EOrderedSet) keeps its content, every element being
   present already; the call is accepted, no other cell changes, the cell is marked set.
   For such a feature the reference part of an addition (link_elem) only records the inverse
   entry (OwnColl.link_plain), so the value store follows the list operations alone. *)
From Coq Require Import ZArith List Bool Arith Lia.
From PyecoreV Require Import Lib.PyBase Lib.PyList Model.Kernel Proofs.PyListFacts Proofs.KernelFacts
  Proofs.C01Proofs Proofs.C01Full Proofs.OwnColl.
Import ListNotations.
Local Open Scope nat_scope.

(* re-adding elements that are all present leaves a unique list as it is *)
Lemma readd_present (l acc : list value) :
  (forall v, In v l -> vmem v acc = true) -> fold_left (fun a v => raw_append true v a) l acc = acc.
Proof.
  induction l as [|v l IH]; intros H; [reflexivity|]. cbn [fold_left].
  unfold raw_append at 2. rewrite (H v (or_introl eq_refl)). cbn [andb].
  apply IH. intros w Hw. apply H. right. exact Hw.
Qed.

Lemma readd_self (l : list value) : fold_left (fun a v => raw_append true v a) l l = l.
Proof. apply readd_present. intros v Hv. apply In_vmem. exact Hv. Qed.

Section Plain.
Variable m : mm.
Variable f : fid.
Hypothesis Hc : f_cont (fd m f) = false.
Hypothesis Ho : f_opp (fd m f) = None.

(* the unique branch of coll_extend_full on the value store *)
Lemma rounds_plain (x : oid) : forall (l : list value) (t : state),
  let t' := fold_left (fun acc v => link_elem m (set_vals acc (x, f) (raw_append true v (vals acc (x, f)))) x f v) l t in
  vals t' (x, f) = fold_left (fun a v => raw_append true v a) l (vals t (x, f)) /\
  (forall k, k <> (x, f) -> vals t' k = vals t k).
Proof.
  induction l as [|v l IH]; intros t; cbv zeta; [split; [reflexivity | intros; reflexivity]|].
  cbn [fold_left].
  set (t1 := link_elem m (set_vals t (x, f) (raw_append true v (vals t (x, f)))) x f v).
  assert (E1 : vals t1 = upd (vals t) (x, f) (raw_append true v (vals t (x, f)))).
  { unfold t1. rewrite (proj1 (link_plain m _ x f v Hc Ho)). reflexivity. }
  destruct (IH t1) as [A B]. split.
  - rewrite A, E1, upd_same. reflexivity.
  - intros k N. rewrite (B k N), E1. apply upd_other. intros E. apply N. symmetry. exact E.
Qed.
End Plain.

Lemma rounds_plain_cont m f (x : oid) :
  f_cont (fd m f) = false -> f_opp (fd m f) = None -> forall (l : list value) (t : state) c,
  cont (fold_left (fun acc v => link_elem m (set_vals acc (x, f) (raw_append true v (vals acc (x, f)))) x f v) l t) c
  = cont t c.
Proof.
  intros Hc Ho. induction l as [|v l IH]; intros t c; [reflexivity|]. cbn [fold_left].
  rewrite IH. rewrite (proj1 (proj2 (link_plain m _ x f v Hc Ho))). reflexivity.
Qed.

Section Op.
Variable m : mm.
Variable f : fid.
Hypothesis Hc : f_cont (fd m f) = false.
Hypothesis Ho : f_opp (fd m f) = None.

(* extend / update / += with any argument, on a feature without opposite and containment *)
Theorem plain_extend s (x : oid) (vs : list value) :
  forallb (check_elem m f) vs = true ->
  let s' := next m s (OExtend x f vs) in
  fst (fst (step m s (OExtend x f vs))) = None /\
  vals s' (x, f) = (if f_unique (fd m f)
                    then fold_left (fun a v => raw_append true v a) vs (vals s (x, f))
                    else vals s (x, f) ++ vs) /\
  (forall k, k <> (x, f) -> vals s' k = vals s k) /\
  isset s' (x, f) = true /\
  (forall c, cont s' c = cont s c).
Proof.
  intros Hk. cbv zeta. unfold next, step. cbn [fst snd]. unfold coll_extend_full. rewrite Hk. cbn [negb fst snd].
  split; [reflexivity|]. cbn [vals isset cont set_isset notify push_log].
  destruct (f_unique (fd m f)).
  - destruct (rounds_plain m f Hc Ho x vs s) as [A B].
    split; [exact A|]. split; [exact B|]. split; [apply upd_same|].
    intros c. apply (rounds_plain_cont m f x Hc Ho).
  - destruct (fold_link_plain m x f vs Hc Ho s) as [A [B _]]. cbn [vals cont set_vals].
    split; [rewrite upd_same, A; reflexivity|]. split.
    + intros k N. rewrite upd_other by (intros E; apply N; symmetry; exact E). rewrite A. reflexivity.
    + split; [apply upd_same | intros c; rewrite B; reflexivity].
Qed.

(* (S1) a non-unique collection extended by itself is doubled *)
Theorem self_extend_list s (x : oid) :
  f_unique (fd m f) = false -> forallb (check_elem m f) (vals s (x, f)) = true ->
  let s' := next m s (OExtend x f (vals s (x, f))) in
  fst (fst (step m s (OExtend x f (vals s (x, f))))) = None /\
  vals s' (x, f) = vals s (x, f) ++ vals s (x, f) /\
  (forall k, k <> (x, f) -> vals s' k = vals s k) /\
  isset s' (x, f) = true /\ (forall c, cont s' c = cont s c).
Proof.
  intros Hu Hk. pose proof (plain_extend s x (vals s (x, f)) Hk) as H. cbv zeta in *. rewrite Hu in H. exact H.
Qed.

(* (S2) a unique collection updated by itself keeps its content *)
Theorem self_extend_set s (x : oid) :
  f_unique (fd m f) = true -> forallb (check_elem m f) (vals s (x, f)) = true ->
  let s' := next m s (OExtend x f (vals s (x, f))) in
  fst (fst (step m s (OExtend x f (vals s (x, f))))) = None /\
  vals s' (x, f) = vals s (x, f) /\
  (forall k, k <> (x, f) -> vals s' k = vals s k) /\
  isset s' (x, f) = true /\ (forall c, cont s' c = cont s c).
Proof.
  intros Hu Hk. pose proof (plain_extend s x (vals s (x, f)) Hk) as H. cbv zeta in *.
  rewrite Hu, readd_self in H. exact H.
Qed.
End Op.

Print Assumptions self_extend_list.
Print Assumptions self_extend_set.

(* ---------- Example: an EList attribute, an EOrderedSet attribute, a plain EList reference ---------- *)
Definition ex_mm_self : mm :=
  {| feats := [ {| f_owner := 0; f_isref := false; f_many := true; f_unique := false; f_cont := false;
                   f_opp := None; f_type := TInt; f_default := VNone |};
                {| f_owner := 0; f_isref := false; f_many := true; f_unique := true; f_cont := false;
                   f_opp := None; f_type := TInt; f_default := VNone |};
                {| f_owner := 0; f_isref := true; f_many := true; f_unique := false; f_cont := false;
                   f_opp := None; f_type := TClass 0; f_default := VNone |} ];
     conf := [(0, 0)]; ocls := [0; 0; 0]; enames := []; nres := 0 |}.

Definition ex_self_ops : list op :=
  [OExtend 0 0 [VInt 1; VInt 2]; OExtend 0 1 [VInt 1; VInt 2]; OExtend 0 2 [VObj 1; VObj 2]].

Example self_extend_witness :
  let m := ex_mm_self in
  let s := fold_left (next m) ex_self_ops (init_state m) in
  let after (f : fid) := next m s (OExtend 0 f (vals s (0, f))) in
  (vals s (0, 0), vals s (0, 1), vals s (0, 2)) = ([VInt 1; VInt 2], [VInt 1; VInt 2], [VObj 1; VObj 2]) /\
  (* by the theorems *)
  vals (after 0) (0, 0) = vals s (0, 0) ++ vals s (0, 0) /\
  vals (after 1) (0, 1) = vals s (0, 1) /\
  vals (after 2) (0, 2) = vals s (0, 2) ++ vals s (0, 2) /\
  (* by computation *)
  (vals (after 0) (0, 0), vals (after 1) (0, 1), vals (after 2) (0, 2), inv (after 2) 1) =
    ([VInt 1; VInt 2; VInt 1; VInt 2], [VInt 1; VInt 2], [VObj 1; VObj 2; VObj 1; VObj 2], [(0, 2)]).
Proof.
  cbv zeta. split; [vm_compute; reflexivity|]. split; [|split; [|split]].
  - refine (proj1 (proj2 (self_extend_list ex_mm_self 0 eq_refl eq_refl _ 0 eq_refl _))). vm_compute. reflexivity.
  - refine (proj1 (proj2 (self_extend_set ex_mm_self 1 eq_refl eq_refl _ 0 eq_refl _))). vm_compute. reflexivity.
  - refine (proj1 (proj2 (self_extend_list ex_mm_self 2 eq_refl eq_refl _ 0 eq_refl _))). vm_compute. reflexivity.
  - vm_compute. reflexivity.
Qed.
