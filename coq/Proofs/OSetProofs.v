(* The patched OrderedSet refines a duplicate-free Python list. *)
From Coq Require Import ZArith List Bool Lia.
From PyecoreV Require Import Lib.PyBase Lib.PyList Model.OSet Model.Coll Proofs.PyListFacts.
Import ListNotations.
Open Scope Z_scope.

Definition os_inv (o : oset) : Prop :=
  NoDup (items o) /\
  forall x, lookup x (omap o) = option_map Z.of_nat (index_of Z.eqb x (items o)).

Lemma lookup_mdel x k m : lookup x (mdel k m) = if k =? x then None else lookup x m.
Proof.
  induction m as [|[k' v] m IH]; simpl.
  - destruct (k =? x); reflexivity.
  - destruct (Z.eqb_spec k' k) as [E|N].
    + subst. rewrite IH. destruct (Z.eqb_spec k x); [reflexivity|]. reflexivity.
    + simpl. destruct (Z.eqb_spec k' x) as [E2|N2].
      * subst. destruct (Z.eqb_spec k x); [congruence | reflexivity].
      * exact IH.
Qed.

Lemma lookup_mset x k v m : lookup x (mset k v m) = if k =? x then Some v else lookup x m.
Proof.
  induction m as [|[k' v'] m IH]; simpl.
  - destruct (k =? x); reflexivity.
  - destruct (Z.eqb_spec k' k) as [E|N]; simpl.
    + subst. destruct (k =? x); reflexivity.
    + destruct (Z.eqb_spec k' x) as [E2|N2].
      * subst. destruct (Z.eqb_spec k x); [congruence | reflexivity].
      * exact IH.
Qed.

Lemma lookup_map_vals x f m : lookup x (map_vals f m) = option_map f (lookup x m).
Proof.
  induction m as [|[k' v'] m IH]; simpl; [reflexivity|].
  destruct (k' =? x); [reflexivity | exact IH].
Qed.

Lemma inv_lookup_None o k : os_inv o -> (lookup k (omap o) = None <-> ~ In k (items o)).
Proof.
  intros [_ H]. rewrite H, <- index_of_None.
  destruct (index_of Z.eqb k (items o)); simpl; split; congruence.
Qed.

Lemma inv_lookup_Some o k i :
  os_inv o -> lookup k (omap o) = Some i ->
  0 <= i /\ nth_error (items o) (Z.to_nat i) = Some k /\ i < zlen (items o).
Proof.
  intros [_ H] E. rewrite H in E.
  destruct (index_of Z.eqb k (items o)) as [n|] eqn:Ei; simpl in E; [|discriminate].
  inversion E; subst. pose proof (index_of_lt _ _ _ Ei). pose proof (index_of_Some_nth _ _ _ Ei).
  rewrite Nat2Z.id. unfold zlen. repeat split; try lia. assumption.
Qed.

Lemma os_empty_inv : os_inv os_empty.
Proof. split; [constructor | reflexivity]. Qed.

(* ---- insert ---- *)
Lemma insert_idx_clamp len index :
  0 <= len ->
  (if index <? 0 then (if 0 <? len + index then len + index else 0)
   else (if index <? len then index else len)) = clamp_index len index.
Proof.
  intros. unfold clamp_index.
  destruct (Z.ltb_spec index 0).
  - destruct (Z.ltb_spec 0 (len + index)); lia.
  - destruct (Z.ltb_spec index len); lia.
Qed.

Lemma clamp_index_range len i : 0 <= len -> 0 <= clamp_index len i <= len.
Proof. intros. unfold clamp_index. destruct (Z.ltb_spec i 0); lia. Qed.

Lemma clamp_index_idem len i : 0 <= len -> clamp_index len (clamp_index len i) = clamp_index len i.
Proof.
  intros. pose proof (clamp_index_range len i H). unfold clamp_index at 1.
  destruct (Z.ltb_spec (clamp_index len i) 0); lia.
Qed.

Lemma os_insert_ok i k o :
  os_inv o -> os_inv (os_insert i k o) /\ items (os_insert i k o) = sp_insert i k (items o).
Proof.
  intros Hinv. pose proof Hinv as [ND HL]. unfold os_insert, sp_insert.
  destruct (lookup k (omap o)) as [j|] eqn:Elk.
  - assert (Hin : In k (items o)).
    { destruct (in_dec Z.eq_dec k (items o)) as [Hi|Hni]; [exact Hi|].
      apply (inv_lookup_None o k Hinv) in Hni. congruence. }
    apply memb_In in Hin. rewrite Hin. split; [exact Hinv | reflexivity].
  - assert (Hnin : ~ In k (items o)) by (apply (inv_lookup_None o k Hinv); exact Elk).
    pose proof Hnin as Hm. apply memb_false_In in Hm. rewrite Hm.
    pose proof (zlen_nonneg (items o)) as Hlen.
    rewrite (insert_idx_clamp (zlen (items o)) i Hlen).
    pose proof (clamp_index_range (zlen (items o)) i Hlen) as Hr.
    pose proof (clamp_index_idem (zlen (items o)) i Hlen) as Hid.
    remember (clamp_index (zlen (items o)) i) as idx eqn:Eidx.
    cbn [items omap]. unfold py_insert. rewrite Hid, <- Eidx.
    split; [|reflexivity]. split; simpl.
    + apply insert_at_NoDup; assumption.
    + intros x. rewrite lookup_mset, lookup_map_vals, HL.
      rewrite index_of_insert_at; [| exact Hnin | unfold zlen in Hr; lia].
      destruct (Z.eqb_spec k x) as [E|N].
      * simpl. rewrite Z2Nat.id by lia. reflexivity.
      * destruct (index_of Z.eqb x (items o)) as [n|]; simpl; [|reflexivity].
        destruct (Z.leb_spec idx (Z.of_nat n)); destruct (Nat.leb_spec (Z.to_nat idx) n); try lia;
          f_equal; lia.
Qed.

(* ---- add ---- *)
Lemma os_add_ok k o :
  os_inv o -> os_inv (os_add k o) /\ items (os_add k o) = sp_add k (items o).
Proof.
  intros Hinv. pose proof Hinv as [ND HL]. unfold os_add, sp_add.
  destruct (lookup k (omap o)) as [j|] eqn:Elk.
  - assert (Hin : In k (items o)).
    { destruct (in_dec Z.eq_dec k (items o)) as [Hi|Hni]; [exact Hi|].
      apply (inv_lookup_None o k Hinv) in Hni. congruence. }
    apply memb_In in Hin. rewrite Hin. split; [exact Hinv | reflexivity].
  - assert (Hnin : ~ In k (items o)) by (apply (inv_lookup_None o k Hinv); exact Elk).
    pose proof Hnin as Hm. apply memb_false_In in Hm. rewrite Hm.
    split; [|reflexivity]. split; simpl.
    + apply NoDup_app_intro_single; assumption.
    + intros x. rewrite lookup_mset, HL, index_of_app_notin by exact Hnin.
      destruct (Z.eqb k x); reflexivity.
Qed.

(* ---- pop / discard ---- *)
Lemma norm_index_val len i k :
  norm_index len i = Some k -> k = (if i <? 0 then i + len else i) /\ 0 <= k < len.
Proof.
  intros H. pose proof (norm_index_range _ _ _ H). split; [|assumption].
  unfold norm_index in H.
  destruct (Z.leb_spec 0 i); destruct (Z.ltb_spec i len); simpl in H;
    destruct (Z.ltb_spec i 0); simpl in H; try (inversion H; subst; lia);
    destruct (Z.leb_spec 0 (len + i)); simpl in H; try discriminate; inversion H; lia.
Qed.

Lemma remove_pos_inv o k elem (strict : bool) :
  os_inv o -> 0 <= k -> nth_error (items o) (Z.to_nat k) = Some elem ->
  os_inv {| items := remove_at (Z.to_nat k) (items o);
            omap := map_vals (fun v => if (if strict then k <? v else k <=? v) then v - 1 else v)
                             (mdel elem (omap o)) |}.
Proof.
  intros [ND HL] Hk Hn. split; cbn [items omap].
  - apply remove_at_NoDup; assumption.
  - intros x. rewrite lookup_map_vals, lookup_mdel, HL.
    rewrite (index_of_remove_at x elem (items o) (Z.to_nat k) ND Hn).
    destruct (Z.eqb_spec elem x) as [E|N]; [reflexivity|].
    destruct (index_of Z.eqb x (items o)) as [j|] eqn:Ej; simpl; [|reflexivity].
    assert (Hjk : j <> Z.to_nat k).
    { intros ->. apply index_of_Some_nth in Ej. congruence. }
    destruct strict.
    + destruct (Z.ltb_spec k (Z.of_nat j)); destruct (Nat.ltb_spec (Z.to_nat k) j); try lia; f_equal; lia.
    + destruct (Z.leb_spec k (Z.of_nat j)); destruct (Nat.ltb_spec (Z.to_nat k) j); try lia; f_equal; lia.
Qed.

Definition pop_agree (r : res (Z * oset)) (s : res (Z * list Z)) : Prop :=
  match r, s with
  | Ok (x, o'), Ok (y, l') => x = y /\ items o' = l' /\ os_inv o'
  | Err e, Err e' => e = e'
  | _, _ => False
  end.

Lemma os_pop_ok i o : os_inv o -> pop_agree (os_pop i o) (sp_pop i (items o)).
Proof.
  intros Hinv. unfold os_pop, sp_pop, pop_agree.
  destruct (items o) as [|a l] eqn:El; [reflexivity|]. rewrite <- El.
  unfold py_get, py_pop.
  destruct (norm_index (zlen (items o)) i) as [k|] eqn:En; [|reflexivity].
  destruct (norm_index_val _ _ _ En) as [Ek Hr].
  destruct (nth_error (items o) (Z.to_nat k)) as [elem|] eqn:Hn.
  2:{ exfalso. apply nth_error_None in Hn. unfold zlen in Hr. lia. }
  assert (Eidx : (if i <? 0 then i + zlen (items o) else i) = k) by (symmetry; exact Ek).
  rewrite Eidx. rewrite (norm_index_nonneg _ _ (proj1 Hr) (proj2 Hr)). rewrite Hn.
  split; [reflexivity|]. split; [reflexivity|].
  exact (remove_pos_inv o k elem true Hinv (proj1 Hr) Hn).
Qed.

Definition st_agree (r : res oset) (s : res (list Z)) : Prop :=
  match r, s with
  | Ok o', Ok l' => items o' = l' /\ os_inv o'
  | Err e, Err e' => e = e'
  | _, _ => False
  end.

Lemma os_discard_ok k o : os_inv o -> st_agree (os_discard k o) (Ok (sp_discard k (items o))).
Proof.
  intros Hinv. pose proof Hinv as [ND HL]. unfold os_discard, sp_discard, st_agree.
  rewrite remove_first_index. pose proof (HL k) as Hk.
  destruct (index_of Z.eqb k (items o)) as [n|] eqn:Ei; simpl in Hk; rewrite Hk.
  - pose proof (index_of_Some_nth _ _ _ Ei) as Hn. pose proof (index_of_lt _ _ _ Ei) as Hlt.
    unfold py_pop. rewrite norm_index_nonneg by (unfold zlen; lia). rewrite Nat2Z.id, Hn.
    split; [reflexivity|].
    pose proof (remove_pos_inv o (Z.of_nat n) k false Hinv) as H. rewrite Nat2Z.id in H.
    apply H; [lia | exact Hn].
  - split; [reflexivity | exact Hinv].
Qed.

Lemma os_remove_ok k o : os_inv o -> st_agree (os_remove k o) (sp_remove k (items o)).
Proof.
  intros Hinv. pose proof Hinv as [ND HL]. unfold os_remove, sp_remove.
  pose proof (os_discard_ok k o Hinv) as Hd. unfold sp_discard in Hd.
  rewrite remove_first_index in *. pose proof (HL k) as Hk.
  destruct (index_of Z.eqb k (items o)) as [n|] eqn:Ei; simpl in Hk; rewrite Hk.
  - exact Hd.
  - reflexivity.
Qed.

Lemma os_delitem_ok i o :
  os_inv o ->
  st_agree (os_delitem i o) (match sp_pop i (items o) with Ok (_, l') => Ok l' | Err e => Err e end).
Proof.
  intros Hinv. pose proof (os_pop_ok i o Hinv) as H. unfold os_delitem, pop_agree, st_agree in *.
  destruct (os_pop i o) as [[x o']|e]; destruct (sp_pop i (items o)) as [[y l']|e']; try tauto.
Qed.

Lemma os_setitem_ok i x o : os_inv o -> st_agree (os_setitem i x o) (sp_setitem i x (items o)).
Proof.
  intros Hinv. unfold os_setitem, sp_setitem.
  destruct ((i <? 0) && ((if i <? 0 then zlen (items o) + i else i) <? 0)); [reflexivity|].
  pose proof (os_pop_ok (if i <? 0 then zlen (items o) + i else i) o Hinv) as H.
  unfold pop_agree, st_agree in *.
  destruct (os_pop _ o) as [[y o']|e]; destruct (sp_pop _ (items o)) as [[y' l']|e']; try tauto.
  destruct H as [_ [El Hinv']]. subst l'.
  destruct (os_insert_ok (if i <? 0 then zlen (items o) + i else i) x o' Hinv') as [Hi He].
  split; assumption.
Qed.

Lemma os_update_ok ks o :
  os_inv o -> os_inv (os_update ks o) /\
  items (os_update ks o) = fold_left (fun acc k => sp_add k acc) ks (items o).
Proof.
  revert o; induction ks as [|k ks IH]; intros o Hinv; simpl; [split; auto|].
  destruct (os_add_ok k o Hinv) as [Hi He]. unfold os_update in *. simpl.
  destruct (IH _ Hi) as [Hi2 He2]. split; [exact Hi2|]. rewrite He2, He. reflexivity.
Qed.

(* ---- the observers ---- *)
Lemma os_index_ok x o : os_inv o -> os_index x o = sp_index x (items o).
Proof.
  intros [_ HL]. unfold os_index, sp_index. rewrite HL.
  destruct (index_of Z.eqb x (items o)); reflexivity.
Qed.

Lemma os_contains_ok x o : os_inv o -> os_contains x o = memb Z.eqb x (items o).
Proof.
  intros Hinv. unfold os_contains. destruct (lookup x (omap o)) eqn:E.
  - symmetry. apply memb_In. destruct (in_dec Z.eq_dec x (items o)) as [Hi|Hni]; [exact Hi|].
    apply (inv_lookup_None o x Hinv) in Hni. congruence.
  - symmetry. apply memb_false_In. apply (inv_lookup_None o x Hinv). exact E.
Qed.

(* ---- every operation, at once ---- *)
Definition step_agree (r : cres oset) (s : cres (list Z)) : Prop :=
  match r, s with
  | Ok (o', v), Ok (l', v') => v = v' /\ items o' = l' /\ os_inv o'
  | Err e, Err e' => e = e'
  | _, _ => False
  end.

Theorem oset_step_refines op o :
  os_inv o -> step_agree (oset_step op o) (uspec_step op (items o)).
Proof.
  intros Hinv. destruct op as [x|i x|x|i| |i x|i|xs]; unfold oset_step, uspec_step, step_agree.
  - destruct (os_add_ok x o Hinv); auto.
  - destruct (os_insert_ok i x o Hinv); auto.
  - pose proof (os_remove_ok x o Hinv) as H. unfold st_agree in H.
    destruct (os_remove x o); destruct (sp_remove x (items o)); try tauto; try (destruct H; auto).
  - pose proof (os_pop_ok i o Hinv) as H. unfold pop_agree in H.
    destruct (os_pop i o) as [[y o']|e]; destruct (sp_pop i (items o)) as [[y' l']|e']; try tauto;
      try (destruct H as [-> [H1 H2]]; auto).
  - split; [reflexivity|]. split; [reflexivity | exact os_empty_inv].
  - pose proof (os_setitem_ok i x o Hinv) as H. unfold st_agree in H.
    destruct (os_setitem i x o); destruct (sp_setitem i x (items o)); try tauto; try (destruct H; auto).
  - pose proof (os_delitem_ok i o Hinv) as H. unfold st_agree in H.
    destruct (os_delitem i o); destruct (sp_pop i (items o)) as [[y l']|e']; try tauto; try (destruct H; auto).
  - destruct (os_update_ok xs o Hinv); auto.
Qed.

(* state after a whole history; a raising call leaves the collection as it was *)
Definition oset_next (o : oset) (op : cop) : oset :=
  match oset_step op o with Ok (o', _) => o' | Err _ => o end.
Definition uspec_next (l : list Z) (op : cop) : list Z :=
  match uspec_step op l with Ok (l', _) => l' | Err _ => l end.

Lemma oset_next_ok op o :
  os_inv o -> os_inv (oset_next o op) /\ items (oset_next o op) = uspec_next (items o) op.
Proof.
  intros Hinv. pose proof (oset_step_refines op o Hinv) as H. unfold step_agree in H.
  unfold oset_next, uspec_next.
  destruct (oset_step op o) as [[o' v]|e]; destruct (uspec_step op (items o)) as [[l' v']|e'];
    try tauto; auto.
Qed.

Theorem oset_history ops :
  os_inv (fold_left oset_next ops os_empty) /\
  items (fold_left oset_next ops os_empty) = fold_left uspec_next ops [].
Proof.
  assert (G : forall o, os_inv o ->
              os_inv (fold_left oset_next ops o) /\
              items (fold_left oset_next ops o) = fold_left uspec_next ops (items o)).
  { induction ops as [|op ops IH]; intros o Hinv; simpl; [auto|].
    destruct (oset_next_ok op o Hinv) as [H1 H2]. rewrite <- H2. apply IH. exact H1. }
  apply (G os_empty os_empty_inv).
Qed.

(* the position reported for an element is the position at which iteration yields it *)
Theorem index_is_position x i o :
  os_inv o ->
  (os_index x o = Ok i <-> (0 <= i /\ nth_error (items o) (Z.to_nat i) = Some x)).
Proof.
  intros Hinv. pose proof Hinv as [ND HL]. rewrite (os_index_ok x o Hinv). unfold sp_index. split.
  - destruct (index_of Z.eqb x (items o)) as [n|] eqn:E; [|discriminate].
    intros H; inversion H; subst. rewrite Nat2Z.id. split; [lia|]. apply index_of_Some_nth; exact E.
  - intros [Hi Hn]. rewrite (nth_index_of_NoDup x (items o) (Z.to_nat i) ND Hn).
    rewrite Z2Nat.id by lia. reflexivity.
Qed.

(* the duplicate-free list spec itself never creates a duplicate and behaves
   like the plain list whenever no already-present element is inserted *)
Lemma uspec_eq_list_when_fresh op l :
  (match op with
   | CAppend x | CInsert _ x => ~ In x l
   | CSetItem _ _ | CExtend _ => False
   | _ => True end) ->
  match uspec_step op l, list_step op l with
  | Ok (l1, v1), Ok (l2, v2) => l1 = l2 /\ v1 = v2
  | Err _, Err _ => True
  | _, _ => False
  end.
Proof.
  destruct op as [x|i x|x|i| |i x|i|xs]; simpl; intros H; try tauto.
  - unfold sp_add. rewrite (proj2 (memb_false_In x l) H). auto.
  - unfold sp_insert. rewrite (proj2 (memb_false_In x l) H). auto.
  - unfold sp_remove. destruct (remove_first Z.eqb x l); auto.
  - unfold sp_pop. destruct l as [|a l']; [rewrite py_pop_nil; exact I|].
    destruct (py_pop i (a :: l')) as [[y l2]|]; auto.
  - unfold sp_pop. destruct l as [|a l']; [rewrite py_pop_nil; exact I|].
    destruct (py_pop i (a :: l')) as [[y l2]|]; auto.
Qed.
