(* EProxy transparency after resolution, and what hashing-at-insertion does to
   membership in an OrderedSet filled with unresolved proxies. *)
From Coq Require Import ZArith List Bool Lia.
From PyecoreV Require Import Lib.PyBase Lib.PyDict Model.Proxy.
Import ListNotations.
Open Scope Z_scope.

Lemma assoc_set_same {A} k (v : A) l : assoc k (assoc_set k v l) = Some v.
Proof.
  induction l as [|[k' v'] l IH]; simpl.
  - rewrite Z.eqb_refl. reflexivity.
  - destruct (Z.eqb_spec k' k) as [E|N]; simpl.
    + rewrite Z.eqb_refl. reflexivity.
    + destruct (Z.eqb_spec k' k); [congruence | exact IH].
Qed.

Lemma assoc_set_other {A} k k2 (v : A) l : k2 <> k -> assoc k2 (assoc_set k v l) = assoc k2 l.
Proof.
  intros N. induction l as [|[k' v'] l IH]; simpl.
  - destruct (Z.eqb_spec k k2); [congruence | reflexivity].
  - destruct (Z.eqb_spec k' k) as [E|N1]; simpl.
    + subst. destruct (Z.eqb_spec k k2); [congruence | reflexivity].
    + destruct (Z.eqb_spec k' k2); [reflexivity | exact IH].
Qed.

Lemma state_set_same h p s : state_of (set_state h p s) p = s.
Proof. unfold state_of, set_state. simpl. rewrite assoc_set_same. reflexivity. Qed.

Lemma state_set_other h p q s : q <> p -> state_of (set_state h p s) q = state_of h q.
Proof. intros N. unfold state_of, set_state. simpl. rewrite assoc_set_other by exact N. reflexivity. Qed.

(* force_resolve: the state it leaves, and its idempotence *)
Lemma force_resolve_state h p t h' :
  force_resolve h p = Ok (t, h') -> state_of h' p = Resolved t /\ attrs h' = attrs h /\ world h' = world h.
Proof.
  unfold force_resolve. destruct (state_of h p) as [path|t0] eqn:E.
  - destruct (assoc path (world h)) as [t1|]; [|discriminate].
    intros H. inversion H; subst. rewrite state_set_same. repeat split; reflexivity.
  - intros H. inversion H; subst. repeat split; try reflexivity. exact E.
Qed.

Lemma force_resolve_resolved h p t : state_of h p = Resolved t -> force_resolve h p = Ok (t, h).
Proof. intros E. unfold force_resolve. rewrite E. reflexivity. Qed.

Lemma force_resolve_idem h p t h' :
  force_resolve h p = Ok (t, h') -> force_resolve h' p = Ok (t, h').
Proof. intros H. apply force_resolve_resolved. apply (force_resolve_state _ _ _ _ H). Qed.

(* a resolved proxy never changes target *)
Lemma force_resolve_keeps h p q t h' u :
  force_resolve h p = Ok (t, h') -> state_of h q = Resolved u -> state_of h' q = Resolved u.
Proof.
  unfold force_resolve. destruct (state_of h p) as [path|t0] eqn:E.
  - destruct (assoc path (world h)) as [t1|]; [|discriminate].
    intros H Hq. inversion H; subst. destruct (Z.eq_dec q p) as [->|N].
    + rewrite E in Hq. discriminate.
    + rewrite state_set_other by exact N. exact Hq.
  - intros H Hq. inversion H; subst. exact Hq.
Qed.

Section Transparent.
Variables (h h' : heap) (p t : Z).
Hypothesis Hres : force_resolve h p = Ok (t, h').

Lemma hash_like_target : py_hash h' (VProxy p) = py_hash h' (VObj t).
Proof. simpl. destruct (force_resolve_state _ _ _ _ Hres) as [E _]. rewrite E. reflexivity. Qed.

Lemma eq_left o : py_eq h' (VProxy p) (VObj o) = (Ok (t =? o), h').
Proof. simpl. rewrite (force_resolve_idem _ _ _ _ Hres). reflexivity. Qed.

Lemma eq_right o : py_eq h' (VObj o) (VProxy p) = (Ok (t =? o), h').
Proof. simpl. rewrite (force_resolve_idem _ _ _ _ Hres). reflexivity. Qed.

(* `==` resolves by itself: the same answer on the heap before resolution *)
Lemma eq_resolves o : py_eq h (VProxy p) (VObj o) = (Ok (t =? o), h') /\ py_eq h (VObj o) (VProxy p) = (Ok (t =? o), h').
Proof. simpl. rewrite Hres. split; reflexivity. Qed.

Lemma getattr_delegates : py_getattr h' (VProxy p) = py_getattr h' (VObj t).
Proof. unfold py_getattr. simpl. rewrite (force_resolve_idem _ _ _ _ Hres). reflexivity. Qed.

Lemma setattr_delegates z : py_setattr h' (VProxy p) z = py_setattr h' (VObj t) z.
Proof. unfold py_setattr. simpl. rewrite (force_resolve_idem _ _ _ _ Hres). reflexivity. Qed.

Lemma write_through_read_direct z h2 :
  py_setattr h' (VProxy p) z = Ok h2 ->
  py_getattr h2 (VObj t) = Ok (z, h2) /\ py_getattr h2 (VProxy p) = Ok (z, h2).
Proof.
  rewrite setattr_delegates. unfold py_setattr. simpl. intros H. inversion H; subst. clear H.
  unfold py_getattr. simpl. rewrite assoc_set_same. split; [reflexivity|].
  assert (E : force_resolve {| pstates := pstates h'; world := world h'; attrs := assoc_set t z (attrs h') |} p
              = Ok (t, {| pstates := pstates h'; world := world h'; attrs := assoc_set t z (attrs h') |})).
  { apply force_resolve_resolved. unfold state_of. simpl.
    destruct (force_resolve_state _ _ _ _ Hres) as [E _]. exact E. }
  rewrite E. simpl. rewrite assoc_set_same. reflexivity.
Qed.

Lemma write_direct_read_through z h2 :
  py_setattr h' (VObj t) z = Ok h2 -> py_getattr h2 (VProxy p) = Ok (z, h2).
Proof.
  intros H. rewrite <- setattr_delegates in H. apply (write_through_read_direct z h2 H).
Qed.
End Transparent.

(* ---- membership ---- *)

(* no stored hash equals the probe's hash: nothing is compared, nothing is found, nothing changes *)
Lemma d_find_no_hash (s : lstate) hk k (m : list (entry value Z)) :
  (forall e, In e m -> e_hash e <> hk) ->
  d_find py_is eq_in_lookup s hk k m = (None, s).
Proof.
  induction m as [|e m IH]; intros H; simpl; [reflexivity|].
  destruct (Z.eqb_spec (e_hash e) hk) as [E|N].
  - exfalso. apply (H e); [left; reflexivity | exact E].
  - apply IH. intros e' He'. apply H. right. exact He'.
Qed.

(* The refutation in general form: whatever the collection holds — even a
   proxy that IS the target by `==` — a target whose hash is not among the
   hashes remembered at insertion time is reported absent. *)
Lemma member_lost h s t :
  (forall e, In e (p_map s) -> e_hash e <> t) ->
  ps_contains h (VObj t) s = (Ok false, h) /\ ps_index h (VObj t) s = (Err KeyErr, h).
Proof.
  intros H. unfold ps_contains, ps_index, map_find. simpl py_hash.
  rewrite d_find_no_hash by exact H. split; reflexivity.
Qed.

(* adding to the empty set compares nothing: the entry remembers the hash of now *)
Lemma add_to_empty h v :
  ps_add h v pset_empty =
  (Ok {| p_items := [v]; p_map := [{| e_hash := py_hash h v; e_key := v; e_val := 0 |}] |}, h).
Proof. reflexivity. Qed.

Definition singleton (hs : Z) (v : value) : pset :=
  {| p_items := [v]; p_map := [{| e_hash := hs; e_key := v; e_val := 0 |}] |}.

(* a set holding the proxy p under the remembered hash hs, p being resolved to t by now:
   the target is a member exactly when hs is the target's hash *)
Lemma member_iff h p t hs :
  state_of h p = Resolved t ->
  ps_contains h (VObj t) (singleton hs (VProxy p)) = (Ok (hs =? t), h) /\
  ps_contains h (VProxy p) (singleton hs (VProxy p)) = (Ok (hs =? t), h).
Proof.
  intros E. unfold ps_contains, map_find, singleton. simpl. rewrite E.
  destruct (Z.eqb_spec hs t) as [H|H].
  - split.
    + unfold eq_in_lookup. simpl. rewrite (force_resolve_resolved _ _ _ E). rewrite Z.eqb_refl. reflexivity.
    + rewrite Z.eqb_refl. reflexivity.
  - split; reflexivity.
Qed.

(* inserted when already resolved: found (the true part of C14's membership clause) *)
Lemma member_resolved_first h p t h1 s1 :
  state_of h p = Resolved t ->
  ps_add h (VProxy p) pset_empty = (Ok s1, h1) ->
  h1 = h /\ ps_contains h (VObj t) s1 = (Ok true, h) /\ ps_index h (VObj t) s1 = (Ok 0, h).
Proof.
  intros E H. rewrite add_to_empty in H. injection H as Hs Hh. subst s1. subst h1. split; [reflexivity|].
  simpl py_hash. rewrite E. fold (singleton t (VProxy p)).
  split.
  - destruct (member_iff h p t t E) as [H _]. rewrite Z.eqb_refl in H. exact H.
  - unfold ps_index, map_find, singleton. simpl. rewrite Z.eqb_refl.
    unfold eq_in_lookup. simpl. rewrite (force_resolve_resolved _ _ _ E). rewrite Z.eqb_refl. reflexivity.
Qed.

(* inserted while unresolved, resolved later: lost, although iteration + `==` finds it *)
Lemma member_unresolved_first h p path t h1 s1 h2 :
  state_of h p = Unresolved path -> p <> t ->
  ps_add h (VProxy p) pset_empty = (Ok s1, h1) ->
  force_resolve h1 p = Ok (t, h2) ->
  ps_contains h2 (VObj t) s1 = (Ok false, h2) /\
  ps_contains h2 (VProxy p) s1 = (Ok false, h2) /\
  ps_index h2 (VObj t) s1 = (Err KeyErr, h2) /\
  any_eq h2 (VObj t) (p_items s1) = (Ok true, h2).
Proof.
  intros E N H Hr. rewrite add_to_empty in H. injection H as Hs Hh. subst s1. subst h1.
  simpl py_hash. rewrite E.
  destruct (force_resolve_state _ _ _ _ Hr) as [E2 _].
  fold (singleton p (VProxy p)).
  destruct (member_iff h2 p t p E2) as [H1 H2].
  destruct (Z.eqb_spec p t) as [|_]; [contradiction|].
  repeat split; try assumption.
  - apply member_lost. intros e [He|[]]. subst e. simpl. exact N.
  - simpl. rewrite (force_resolve_resolved _ _ _ E2). rewrite Z.eqb_refl. reflexivity.
Qed.
