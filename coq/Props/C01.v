From PyecoreV Require Import Model.Kernel.
