"""C19 — kernel property: see DESIGN.md section 5 and harness/kprop.py."""
from harness import kgen, kprop

PID = 'C19'


def run(ctx, out):
    kprop.run(ctx, out, PID, ['C19'], {'outcome','values','ownership','views'}, 1500, 30000, pool=kgen.CONT_TEMPLATES+['p1n','rn','ai','snn'], weights={'res':0.1,'delete':0.05}, p_wrong=0.05)


def replay(ctx, rep):
    from harness import krun
    case = rep['case']
    r = krun.Run(case, ['C19']).run()
    for s in r.steps:
        print(s['op'], '->', s['outcome'])
    if r.failure:
        print('REPRODUCED', r.failure['property'], r.failure['clause'], r.failure['detail'])
        return 1
    print('not reproduced')
    return 0


# ---------------- metamodel side: reflective views follow edits of the class graph ----------------
def _closure(sup, c):
    seen, todo = [], list(sup[c])
    while todo:
        d = todo.pop(0)
        if d not in seen:
            seen.append(d)
            todo += sup[d]
    return seen


def meta_views(ctx, out):
    """random class graphs (<= 5 classes, DAG, diamonds) and edit histories (add/remove supertype or
    feature); after EVERY edit every view of every class is queried and compared with the model
    (Model/MetaViews.v, recomputed from the current description) and with an independent closure."""
    from harness import common
    common.use_repo()
    from pyecore import ecore as E
    rng = ctx.rng
    model = common.Model()
    n = 150 if ctx.tier != 'thorough' else 3000
    stats = {'graphs': 0, 'edits': 0, 'queries': 0}
    sample = None
    for gi in range(n):
        ncls = rng.randrange(2, 6)
        classes = [E.EClass(f'K{i}') for i in range(ncls)]
        sup = {i: [] for i in range(ncls)}
        own = {i: [] for i in range(ncls)}       # list of (fid, isref, name)
        fobj = {}
        nextf = [0]
        hist = []

        def add_feature(c):
            fid = nextf[0]
            nextf[0] += 1
            isref = rng.random() < 0.5
            name = f'f{rng.randrange(0, 6)}' if rng.random() < 0.3 else f'g{fid}'
            f = E.EReference(name, classes[rng.randrange(ncls)]) if isref else E.EAttribute(name, E.EString)
            classes[c].eStructuralFeatures.append(f)
            own[c].append((fid, isref, name))
            fobj[fid] = f
            hist.append(['add-feature', c, name, isref])

        def check_all(where):
            names = sorted({nm for c in own for (_, _, nm) in own[c]} | {'nope'})
            nameid = {nm: i for i, nm in enumerate(names)}
            toks = [ncls]
            for c in range(ncls):
                toks += [len(sup[c])] + sup[c] + [len(own[c])]
                for (fid, isref, nm) in own[c]:
                    toks += [fid, int(isref), nameid[nm]]
            toks += [nameid[nm] for nm in names]
            mo = model.ask('metaviews', toks)
            r = iter(mo)
            fid_of = {id(f): k for k, f in fobj.items()}
            cid_of = {id(c): k for k, c in enumerate(classes)}
            for c in range(ncls):
                ec = classes[c]
                impl = {
                    'supers': [cid_of[id(x)] for x in ec.eAllSuperTypes()],
                    'feats': [fid_of[id(x)] for x in ec.eAllStructuralFeatures()],
                    'refs': sorted(fid_of[id(x)] for x in ec.eAllReferences()),
                    'attrs': sorted(fid_of[id(x)] for x in ec.eAllAttributes()),
                    'find': [fid_of.get(id(ec.findEStructuralFeature(nm)), -1) for nm in names],
                }
                stats['queries'] += 5
                m_sup = [next(r) for _ in range(next(r))]
                m_feats = [next(r) for _ in range(next(r))]
                m_refs = sorted(next(r) for _ in range(next(r)))
                m_attrs = sorted(next(r) for _ in range(next(r)))
                m_find = [next(r) for _ in names]
                mod = {'supers': m_sup, 'feats': m_feats, 'refs': m_refs, 'attrs': m_attrs, 'find': m_find}
                case = {'ncls': ncls, 'history': hist[:], 'class': c}
                if impl != mod:
                    k = next(k for k in impl if impl[k] != mod[k])
                    out.diff(f'metaviews {where}: class K{c} {k}: impl {impl[k]} model {mod[k]}', case)
                # independent oracle: own + inherited declarations, reflexive-transitive closure
                anc = _closure(sup, c)
                want_feats = sorted(fid for d in [c] + anc for (fid, _, _) in own[d])
                isr = {fid: ir for d in own for (fid, ir, _) in own[d]}
                clause = None
                if sorted(impl['supers']) != sorted(anc) or len(set(impl['supers'])) != len(impl['supers']):
                    clause = 'eAllSuperTypes'
                elif sorted(impl['feats']) != want_feats or len(set(impl['feats'])) != len(impl['feats']):
                    clause = 'eAllStructuralFeatures'
                elif impl['refs'] != sorted(f for f in want_feats if isr[f]):
                    clause = 'eAllReferences'
                elif impl['attrs'] != sorted(f for f in want_feats if not isr[f]):
                    clause = 'eAllAttributes'
                else:
                    nm_of = {fid: nm for d in own for (fid, _, nm) in own[d]}
                    for nm, got in zip(names, impl['find']):
                        have = [f for f in want_feats if nm_of[f] == nm]
                        if (got == -1) != (not have) or (got != -1 and got not in have):
                            clause = 'findEStructuralFeature'
                if clause:
                    out.fail({'property': 'C19', 'clause': 'meta-' + clause, 'after': hist[-1][0] if hist else 'creation'},
                             f'class K{c} {clause} disagrees with own+inherited declarations after {hist[-3:]}: {impl}', case)

        for c in range(ncls):
            for _ in range(rng.randrange(0, 3)):
                add_feature(c)
        check_all('initial')
        for step in range(rng.randrange(2, 9)):
            k = rng.choice(['add-super', 'add-super', 'remove-super', 'add-feature', 'remove-feature'])
            c = rng.randrange(ncls)
            if k == 'add-super':
                cands = [d for d in range(ncls) if d != c and d not in sup[c] and c not in _closure(sup, d) and d != c]
                if not cands:
                    continue
                d = rng.choice(cands)
                try:
                    classes[c].eSuperTypes.append(classes[d])
                except TypeError:
                    continue      # Python refuses an inconsistent MRO: the edit did not happen
                sup[c].append(d)
                hist.append(['add-super', c, d])
            elif k == 'remove-super':
                if not sup[c]:
                    continue
                d = rng.choice(sup[c])
                try:
                    classes[c].eSuperTypes.remove(classes[d])
                except TypeError:
                    continue
                sup[c].remove(d)
                hist.append(['remove-super', c, d])
            elif k == 'add-feature':
                add_feature(c)
            else:
                if not own[c]:
                    continue
                t = rng.choice(own[c])
                classes[c].eStructuralFeatures.remove(fobj[t[0]])
                own[c].remove(t)
                hist.append(['remove-feature', c, t[2]])
            stats['edits'] += 1
            check_all(f'after edit {len(hist)}')
        stats['graphs'] += 1
        if sample is None and len(hist) > 4:
            sample = {'ncls': ncls, 'history': hist[:]}
    model.close()
    out.coverage['meta_graphs'] = stats['graphs']
    out.coverage['meta_edits'] = stats['edits']
    out.coverage['meta_view_queries'] = stats['queries']
    out.coverage['meta_sample'] = sample


_kernel_run = run


def run(ctx, out):   # noqa: F811
    _kernel_run(ctx, out)
    meta_views(ctx, out)
