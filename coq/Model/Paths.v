(* POSIX path algebra behind pyecore.resources.resource.URI:
     URI.normalize              = os.path.abspath(plain)           (absolute input: normpath)
     URI.relative_from_me(o)    = os.path.relpath(o.normalize(), os.path.dirname(self.normalize()))
     URI.apply_relative_from_me = os.path.join(os.path.dirname(self.normalize()), rel)
   A path is the list of its '/'-separated segments (code-point lists) plus
   the "starts with /" flag, exactly what str.split('/') yields; parse/render
   are inverse on every string.  posixpath.py is followed function by function.
   Not modelled: a path starting with exactly two slashes (POSIX keeps '//'),
   the current directory (relative inputs of abspath), http URIs.  No proofs here. *)
From Coq Require Import ZArith List Bool.
Import ListNotations.
Open Scope Z_scope.

Definition seg := list Z.
Definition SLASH : Z := 47.
Definition DOT : seg := [46].
Definition DOTDOT : seg := [46; 46].

Fixpoint seg_eqb (a b : seg) : bool :=
  match a, b with
  | [], [] => true
  | x :: a', y :: b' => (x =? y) && seg_eqb a' b'
  | _, _ => false
  end.

Definition is_empty (s : seg) : bool := match s with [] => true | _ => false end.
Definition is_dot (s : seg) : bool := seg_eqb s DOT.
Definition is_dotdot (s : seg) : bool := seg_eqb s DOTDOT.
(* a segment normpath keeps as it is *)
Definition plain (s : seg) : bool := negb (is_empty s) && negb (is_dot s) && negb (is_dotdot s).

Record path : Type := { pabs : bool; psegs : list seg }.

(* ---- str.split('/') and '/'.join ---- *)
Fixpoint split_go (cur : seg) (s : list Z) : list seg :=
  match s with
  | [] => [rev cur]
  | c :: r => if c =? SLASH then rev cur :: split_go [] r else split_go (c :: cur) r
  end.
Definition split_slash (s : list Z) : list seg := split_go [] s.

Fixpoint join_slash (l : list seg) : list Z :=
  match l with
  | [] => []
  | [s] => s
  | s :: r => s ++ SLASH :: join_slash r
  end.

Definition parse (s : list Z) : path :=
  match s with
  | c :: r => if c =? SLASH then {| pabs := true; psegs := split_slash r |}
              else {| pabs := false; psegs := split_slash s |}
  | [] => {| pabs := false; psegs := [[]] |}
  end.

Definition render (p : path) : list Z :=
  (if pabs p then [SLASH] else []) ++ join_slash (psegs p).

(* ---- os.path.normpath ---- *)
(* the loop over comps; `stack` is new_comps reversed *)
Fixpoint norm_go (absolute : bool) (stack : list seg) (l : list seg) : list seg :=
  match l with
  | [] => rev stack
  | s :: r =>
    if is_empty s || is_dot s then norm_go absolute stack r
    else if is_dotdot s then
      match stack with
      | [] => if absolute then norm_go absolute [] r            (* '/..' is '/' *)
              else norm_go absolute [DOTDOT] r
      | t :: st => if is_dotdot t then norm_go absolute (DOTDOT :: stack) r
                   else norm_go absolute st r
      end
    else norm_go absolute (s :: stack) r
  end.

Definition normpath (p : path) : path :=
  {| pabs := pabs p; psegs := norm_go (pabs p) [] (psegs p) |}.

(* normpath's string: 'path or "."' *)
Definition render_norm (p : path) : list Z :=
  match pabs p, psegs p with
  | false, [] => DOT
  | _, _ => render p
  end.

(* os.path.abspath on an absolute input *)
Definition abspath (p : path) : path := normpath p.

(* ---- os.path.dirname: head = p[:rfind('/')+1], trailing slashes stripped unless all slashes ---- *)
Fixpoint strip_trailing_empty (l : list seg) : list seg :=
  match l with
  | [] => []
  | s :: r => match strip_trailing_empty r with
              | [] => if is_empty s then [] else [s]
              | r' => s :: r'
              end
  end.

Definition dirname (p : path) : path :=
  {| pabs := pabs p; psegs := strip_trailing_empty (removelast (psegs p)) |}.

(* ---- os.path.join(a, b) ---- *)
Definition drop_last_if_empty (l : list seg) : list seg :=
  match rev l with
  | [] :: r => rev r
  | _ => l
  end.

Definition join (a b : path) : path :=
  if pabs b then b
  else {| pabs := pabs a; psegs := drop_last_if_empty (psegs a) ++ psegs b |}.

(* ---- os.path.relpath(p, start), both absolute ---- *)
Fixpoint common_len (a b : list seg) : nat :=
  match a, b with
  | x :: a', y :: b' => if seg_eqb x y then S (common_len a' b') else O
  | _, _ => O
  end.

Definition nonempty_segs (l : list seg) : list seg := filter (fun s => negb (is_empty s)) l.

Definition relpath (p start : path) : path :=
  let sl := nonempty_segs (psegs (abspath start)) in
  let pl := nonempty_segs (psegs (abspath p)) in
  let i := common_len sl pl in
  {| pabs := false; psegs := repeat DOTDOT (length sl - i) ++ skipn i pl |}.

(* ---- the three URI methods ---- *)
Definition uri_normalize (a : path) : path := abspath a.
Definition uri_relative_from_me (a other : path) : path := relpath (uri_normalize other) (dirname (uri_normalize a)).
Definition uri_apply_relative_from_me (a rel : path) : path := join (dirname (uri_normalize a)) rel.
